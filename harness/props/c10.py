"""C10 - data round-trips and every result is finalised into plain data.

C: random value trees built from EVERY constructor of the model's value universe
(scalars, tuple, list, FrozenDict, dict, frozenset, set, five kinds of one-shot
iterator, KeysView/ValuesView/ItemsView over dict and FrozenDict, OrderingIterable;
containers as dict keys and set elements wherever Python lets them be hashed) x the
4 combinations of convertTuplesToLists x convertSetsToLists, pushed through
  KOut     utils.convert_output_data with the engine's real '#iter' delegate,
           evaluate('$') with convertInputData off (so the host value reaches
           '#finalize' untouched), and values produced by real expressions
           (keys()/values()/items(), orderBy, where/select, set(), list literals, ...:
           the raw value is taken from an engine with convertOutputData off, the
           observation from an engine with the options under test);
  KIn      utils.convert_input_data;
  KDollar  evaluate('$') and YaqlInterface('$1', data) with input conversion on;
  KHash    hash(value) succeeded?
The observation is the canonical result tree with exact type tags (dict items in
order, set elements compared up to permutation inside Coq) or the error class.
Model/Convert.v computes the same inside Coq.

O: recursive type census of every real result (exact types: a FrozenDict, a tuple
under convertTuplesToLists, an iterator, a view anywhere is a failure), round-trip
equality of `$` on JSON-like documents against an independent canonical form, and
every exception that escapes finalisation of a successfully evaluated expression
(recorded class F8 -> KNOWN-FINDING, anything else -> VIOLATION).

O also runs HISTORIES, because "'#finalize' is applied to every statement result"
is a statement about every evaluation, not about the first one:
  statement reuse  one parsed Statement object evaluated along a sequence of contexts
                   (fresh yaql.create_context(), children of one, a bare contexts.Context(),
                   a hand-registered sandbox context without '#finalize', a context with a
                   custom finalizer), with changing data; at EVERY step the reused statement
                   must be observationally equal to a freshly parsed one on the same kind of
                   context, and on standard contexts the result gets the census / round trip;
  engine lifecycle engines with different output options created (factory.create,
                   engine.copy), used and dropped in sequence, several alive at once; every
                   result is judged against the options of the engine that evaluated it."""
import collections
import collections.abc
import itertools
import json
import os
import struct
import traceback

import gal
import yaql
from yaql import yaql_interface
from yaql.language import contexts
from yaql.language import conventions
from yaql.language import specs
from yaql.language import utils
from yaql.standard_library import boolean as std_boolean
from yaql.standard_library import branching as std_branching
from yaql.standard_library import collections as std_collections
from yaql.standard_library import common as std_common
from yaql.standard_library import math as std_math
from yaql.standard_library import queries
from yaql.standard_library import strings as std_strings
from yaql.standard_library import system as std_system

GEN = []
RULE = ("value trees of depth <= 4 with every constructor of the model (14 kinds; iterators in 5 Python flavours, "
        "views over dict and FrozenDict) nested in each other and used as dict keys / set elements where hashable, "
        "x 4 option combinations x paths {convert_output_data, evaluate('$') raw, expression results, "
        "convert_input_data, evaluate('$'), YaqlInterface, hash}; non-trivial = the tree contains a container "
        "nested in a container (depth >= 2) or a non-plain constructor; distinct = distinct (path, options, tree); "
        "O additionally: statement-reuse histories (one Statement object along 1-6 contexts drawn from fresh/child/grandchild "
        "standard contexts, bare Context, hand-registered sandbox, custom finalizer; changing data) compared step by step "
        "with a freshly parsed statement, and engine lifecycles (24 engines per sequence made by create/copy/copy-of-copy "
        "with alternating output options, used and dropped, one kept alive)")
TRUSTED = ["Model/Convert.v is a hand transcription of convert_input_data / convert_output_data (yaql/language/utils.py) "
           "and of CPython's hashability of the value kinds involved; tied by this correspondence",
           "the value printer of harness/props/c10.py (exact Python type -> model constructor; set and dict iteration "
           "order read from the live object)",
           "CPython dict/set semantics are modelled as insertion-ordered association lists with first-key-wins update"]
ASSUMPTIONS = ["every occurrence of an iterator / view / ordering object in a value is a distinct object, consumed once",
               "floats are opaque leaves (the harness uses non-integral finite floats, so a float never equals an int key)",
               "keys / elements of one container are pairwise different under Python == (they come from real dicts and sets)",
               "yaql.limitIterators / memoryQuota are off (the limiter wrapped around every iteration is C08's subject)"]
EXPLANATION = ("proofs on the model (plain results, exact success guard, round trip, frozen input, idempotence) + "
               "differential check of the model against utils.py / '#finalize' on all value constructors x 4 option "
               "combinations + type census of real results")
LEVEL_NOTE = ("proved on Model/Convert.v; the tie to the Python code is differential (in-Coq evaluation of the model on "
              "the inputs the implementation ran)")
ALLOWED_AXIOMS = []

HEADER = "From YV Require Import Model.Convert."
FLOATS = [0.5, -1.5, 2.25, 1e100, -0.125, 3.75]
STRS = ["", "a", "b", "ab", "k", "key", "é", "\U0001F600", "x y"]
OPTS = [(True, False), (True, True), (False, False), (False, True)]      # (t2l, s2l); first = library default
SCALARS = ("VNull", "VBool", "VInt", "VFloat", "VStr")


class Unsupported(Exception):
    pass


# --------------------------------------------------------------------------
# engines (cached: building a parser is slow)
# --------------------------------------------------------------------------
_factory = yaql.YaqlFactory()
_engines = {}
_root_ctx = None


def engine(t2l=None, s2l=None, **extra):
    key = (t2l, s2l, tuple(sorted(extra.items())))
    if key not in _engines:
        o = dict(extra)
        if t2l is not None:
            o["yaql.convertTuplesToLists"] = t2l
        if s2l is not None:
            o["yaql.convertSetsToLists"] = s2l
        _engines[key] = _factory.create(options=o)
    return _engines[key]


def default_engine():
    """the library's own defaults: no option given at all"""
    return engine()


def ctx():
    global _root_ctx
    if _root_ctx is None:
        _root_ctx = yaql.create_context()
    return _root_ctx.create_child_context()


def eng_for(t2l, s2l, **extra):
    # the default combination runs on an engine created WITHOUT the two options
    if (t2l, s2l) == OPTS[0]:
        return engine(**extra)
    return engine(t2l, s2l, **extra)


# --------------------------------------------------------------------------
# specs (JSON-able descriptions) -> fresh Python objects
# --------------------------------------------------------------------------
ITER_KINDS = ["gen", "listiter", "map", "filter", "chain"]


def py_hashable_spec(s):
    k = s[0]
    if k in ("null", "bool", "int", "float", "str", "iter", "ord"):
        return True
    if k == "tuple":
        return all(py_hashable_spec(c) for c in s[1])
    if k == "fset":
        return True
    if k == "fdict":
        return all(py_hashable_spec(v) for _, v in s[1])
    if k == "view":
        return s[1] == "values"
    return False


def gen_scalar(rng):
    r = rng.random()
    if r < 0.12:
        return ["null"]
    if r < 0.25:
        return ["bool", rng.random() < 0.5]
    if r < 0.6:
        return ["int", rng.choice([0, 1, 2, 3, 7, -1, 10 ** 20, 42])]
    if r < 0.7:
        return ["float", rng.randrange(len(FLOATS))]
    return ["str", rng.choice(STRS)]


def gen_spec(rng, depth, hashable=False, idfree=False, inset=False):
    """hashable: must be usable as dict key / set element in Python.
    idfree: iteration order of every set must be reproducible on a rebuilt / input-converted copy, so
    nothing below a set element may be hashed by identity there (no iterator, view, ordering object,
    and no frozenset, which input conversion turns into a map object)."""
    if depth <= 0 or rng.random() < 0.3:
        return gen_scalar(rng)
    n = lambda: rng.choice([0, 1, 1, 2, 2, 3])
    sub = lambda **kw: gen_spec(rng, depth - 1, **{"idfree": idfree, "inset": inset, **kw})
    kinds = ["tuple", "list", "fdict", "dict", "fset", "set", "iter", "view", "ord"]
    if hashable:
        kinds = ["tuple", "tuple", "fdict", "fset", "iter", "view", "ord"]
    if idfree and inset:
        kinds = ["tuple", "tuple", "fdict"]
    k = rng.choice(kinds)
    if k in ("tuple", "list"):
        return [k, [sub(hashable=hashable) for _ in range(n())]]
    if k in ("fdict", "dict"):
        return [k, [[sub(hashable=True), sub(hashable=hashable)] for _ in range(n())]]
    if k in ("fset", "set"):
        return [k, [sub(hashable=True, inset=True) for _ in range(n())]]
    if k == "iter":
        return [k, rng.choice(ITER_KINDS), [sub() for _ in range(n())]]
    if k == "ord":
        return [k, [sub() for _ in range(n())]]
    which = "values" if hashable else rng.choice(["keys", "values", "items"])
    return ["view", which, rng.choice(["dict", "fdict"]),
            [[sub(hashable=True), sub()] for _ in range(n())]]


def gen_doc_spec(rng, depth):
    """JSON-like host documents: scalar-keyed dicts, lists, and tuples / sets of scalars / generators of such"""
    if depth <= 0 or rng.random() < 0.3:
        return gen_scalar(rng)
    n = rng.choice([0, 1, 2, 2, 3])
    k = rng.choice(["dict", "dict", "list", "list", "tuple", "set", "iter"])
    if k == "dict":
        return ["dict", [[gen_scalar(rng), gen_doc_spec(rng, depth - 1)] for _ in range(n)]]
    if k in ("list", "tuple"):
        return [k, [gen_doc_spec(rng, depth - 1) for _ in range(n)]]
    if k == "set":
        return ["set", [gen_scalar(rng) for _ in range(n)]]
    return ["iter", "gen", [gen_doc_spec(rng, depth - 1) for _ in range(n)]]


def build(s, reg):
    k = s[0]
    if k == "null":
        return None
    if k == "let":                           # ["let", [shared specs], body]: objects that body refers to by ["ref", i]
        for i, sub in enumerate(s[1]):
            reg[("shared", i)] = build(sub, reg)
        return build(s[2], reg)
    if k == "ref":                           # the SAME Python object at every place that names it
        return reg[("shared", s[1])]
    if k in ("bool", "int", "str"):
        return s[1]
    if k == "float":
        return FLOATS[s[1]]
    if k == "tuple":
        return tuple(build(c, reg) for c in s[1])
    if k == "list":
        return [build(c, reg) for c in s[1]]
    if k in ("fdict", "dict"):
        d = dict((build(a, reg), build(b, reg)) for a, b in s[1])
        return utils.FrozenDict(d) if k == "fdict" else d
    if k == "fset":
        return frozenset(build(c, reg) for c in s[1])
    if k == "set":
        return set(build(c, reg) for c in s[1])
    if k == "iter":
        ch = [build(c, reg) for c in s[2]]
        it = {"gen": lambda: (x for x in ch), "listiter": lambda: iter(list(ch)),
              "map": lambda: map(lambda x: x, ch), "filter": lambda: filter(lambda x: True, ch),
              "chain": lambda: itertools.chain(ch[:1], ch[1:])}[s[1]]()
        reg[id(it)] = ("VIter", ch, it)
        return it
    if k == "ord":
        ch = [build(c, reg) for c in s[1]]
        o = queries.OrderingIterable(ch, lambda a, b: False, lambda a, b: False)
        reg[id(o)] = ("VOrd", ch, o)
        return o
    if k == "view":
        d = dict((build(a, reg), build(b, reg)) for a, b in s[3])
        m = utils.FrozenDict(d) if s[2] == "fdict" else d
        v = getattr(m, s[1])()
        reg[id(v)] = ("VView", s[1], m, v)
        return v
    raise ValueError(s)


# --------------------------------------------------------------------------
# Python object -> neutral tree (same shape as the Gallina term)
# --------------------------------------------------------------------------
VK = {"keys": "KKeys", "values": "KValues", "items": "KItems"}


def tree(obj, reg=None, drain=False):
    """reg: objects built by `build` (described without being consumed).
    drain: unknown iterators may be consumed (results and raw values)."""
    t = type(obj)
    if obj is None:
        return ("VNull",)
    if t is bool:
        return ("VBool", obj)
    if t is int:
        return ("VInt", obj)
    if t is float:                  # opaque leaf: the tag is the bit pattern of the double
        return ("VFloat", int.from_bytes(struct.pack(">d", obj), "big"))
    if t is str:
        return ("VStr", obj)
    rec = lambda x: tree(x, reg, drain)
    if t is tuple:
        return ("VTuple", [rec(x) for x in obj])
    if t is list:
        return ("VList", [rec(x) for x in obj])
    if t is utils.FrozenDict:
        return ("VFDict", [(rec(a), rec(b)) for a, b in obj.items()])
    if t is dict:
        return ("VDict", [(rec(a), rec(b)) for a, b in obj.items()])
    if t is frozenset:
        return ("VFSet", [rec(x) for x in obj])
    if t is set:
        return ("VSet", [rec(x) for x in obj])
    if reg is not None and id(obj) in reg:
        e = reg[id(obj)]
        if e[0] == "VView":
            return ("VView", VK[e[1]], [(rec(a), rec(b)) for a, b in e[2].items()])
        return (e[0], [rec(x) for x in e[1]])
    if not drain:
        raise Unsupported(t.__name__)
    for cls, kk in ((collections.abc.KeysView, "KKeys"), (collections.abc.ItemsView, "KItems"),
                    (collections.abc.ValuesView, "KValues")):
        if isinstance(obj, cls):
            m = getattr(obj, "_mapping", None)
            if m is None:
                m = obj.mapping
            return ("VView", kk, [(rec(a), rec(b)) for a, b in m.items()])
    if t is queries.OrderingIterable:
        return ("VOrd", [rec(x) for x in obj])
    if isinstance(obj, collections.abc.Iterator):
        return ("VIter", [rec(x) for x in obj])
    raise Unsupported(t.__module__ + "." + t.__name__)


def term(tr):
    k = tr[0]
    if k == "VNull":
        return "VNull"
    if k == "VBool":
        return "(VBool %s)" % gal.boolean(tr[1])
    if k == "VInt":
        return "(VInt %s)" % gal.z(tr[1])
    if k == "VFloat":
        return "(VFloat %s)" % gal.z(tr[1])
    if k == "VStr":
        return "(VStr %s)" % gal.s(tr[1])
    if k == "VView":
        return "(VView %s %s)" % (tr[1], kvterm(tr[2]))
    if k in ("VFDict", "VDict"):
        return "(%s %s)" % (k, kvterm(tr[1]))
    return "(%s %s)" % (k, "(@nil val)" if not tr[1] else gal.lst(term(x) for x in tr[1]))


def kvterm(kvs):
    if not kvs:
        return "(@nil (val * val))"
    return gal.lst(gal.pair(term(a), term(b)) for a, b in kvs)


def jtree(tr):
    """JSON-able copy of a tree (replay files)"""
    if tr[0] in SCALARS:
        return list(tr)
    if tr[0] == "VView":
        return ["VView", tr[1], [[jtree(a), jtree(b)] for a, b in tr[2]]]
    if tr[0] in ("VFDict", "VDict"):
        return [tr[0], [[jtree(a), jtree(b)] for a, b in tr[1]]]
    return [tr[0], [jtree(x) for x in tr[1]]]


def children(tr):
    if tr[0] in SCALARS:
        return []
    if tr[0] == "VView":
        return [x for kv in tr[2] for x in kv]
    if tr[0] in ("VFDict", "VDict"):
        return [x for kv in tr[1] for x in kv]
    return list(tr[1])


def tree_depth(tr):
    return 0 if tr[0] in SCALARS else 1 + max([tree_depth(c) for c in children(tr)] + [0])


def tree_kinds(tr, acc):
    acc.add(tr[0] if tr[0] != "VView" else "VView:" + tr[1])
    for c in children(tr):
        tree_kinds(c, acc)
    return acc


# --------------------------------------------------------------------------
# the property's predicates, written directly in Python (independent of the model)
# --------------------------------------------------------------------------
def census(obj, t2l, s2l, path="$"):
    """offending nodes of a RESULT: exact types only"""
    t = type(obj)
    if obj is None or t in (bool, int, float, str):
        return []
    if t is dict:
        out = []
        for i, (k, v) in enumerate(obj.items()):
            out += census(k, t2l, s2l, "%s.key%d" % (path, i)) + census(v, t2l, s2l, "%s.val%d" % (path, i))
        return out
    if t is list or (t is tuple and not t2l) or (t is set and not s2l):
        return [x for i, e in enumerate(obj) for x in census(e, t2l, s2l, "%s[%d]" % (path, i))]
    return [(path, t.__module__ + "." + t.__name__)]


def census_frozen(obj, path="$"):
    """offending nodes of an INPUT-converted value: only tuple, FrozenDict, frozenset, lazy iterators, scalars"""
    t = type(obj)
    if obj is None or t in (bool, int, float, str):
        return []
    if t is utils.FrozenDict:
        out = []
        for i, (k, v) in enumerate(obj.items()):
            out += census_frozen(k, "%s.key%d" % (path, i)) + census_frozen(v, "%s.val%d" % (path, i))
        return out
    if t in (tuple, frozenset) or (isinstance(obj, collections.abc.Iterator) and not utils.is_mutable(obj)):
        return [x for i, e in enumerate(obj) for x in census_frozen(e, "%s[%d]" % (path, i))]
    return [(path, t.__module__ + "." + t.__name__)]


def key_ok_tree(tr, t2l):
    if tr[0] in SCALARS:
        return True
    return tr[0] == "VTuple" and not t2l and all(key_ok_tree(c, t2l) for c in tr[1])


def unhashable_after(tr, t2l, s2l, out=None, path="$"):
    """the F8 class: positions where a dict key / a kept set's element has no plain hashable form"""
    out = [] if out is None else out
    k = tr[0]
    if k in ("VFDict", "VDict"):
        for i, (a, b) in enumerate(tr[1]):
            if not key_ok_tree(a, t2l):
                out.append(("%s.key%d" % (path, i), a[0]))
            unhashable_after(a, t2l, s2l, out, "%s.key%d" % (path, i))
            unhashable_after(b, t2l, s2l, out, "%s.val%d" % (path, i))
    elif k in ("VFSet", "VSet"):
        for i, a in enumerate(tr[1]):
            if not s2l and not key_ok_tree(a, t2l):
                out.append(("%s{%d}" % (path, i), a[0]))
            unhashable_after(a, t2l, s2l, out, "%s{%d}" % (path, i))
    elif k == "VView":
        for i, (a, b) in enumerate(tr[2]):
            if tr[1] != "KValues":
                unhashable_after(a, t2l, s2l, out, "%s.key%d" % (path, i))
            if tr[1] != "KKeys":
                unhashable_after(b, t2l, s2l, out, "%s.val%d" % (path, i))
    elif k not in SCALARS:
        for i, a in enumerate(tr[1]):
            unhashable_after(a, t2l, s2l, out, "%s[%d]" % (path, i))
    return out


def from_jtree(j):
    if j[0] in SCALARS:
        return tuple(j)
    if j[0] == "VView":
        return ("VView", j[1], [(from_jtree(a), from_jtree(b)) for a, b in j[2]])
    if j[0] in ("VFDict", "VDict"):
        return (j[0], [(from_jtree(a), from_jtree(b)) for a, b in j[1]])
    return (j[0], [from_jtree(x) for x in j[1]])


def canon_doc(d, reg, t2l, s2l):
    """what a JSON-like host document must come back as; 'listset' = a list in any order"""
    t = type(d)
    if t is dict:
        return ("dict", [(k, canon_doc(v, reg, t2l, s2l)) for k, v in d.items()])
    if t in (list, tuple):
        return ("list" if t2l else "tuple", [canon_doc(x, reg, t2l, s2l) for x in d])
    if t is set:
        return ("listset" if s2l else "set", frozenset(d))
    if id(d) in reg:
        return ("list", [canon_doc(x, reg, t2l, s2l) for x in reg[id(d)][1]])
    return ("leaf", type(d).__name__, d)


def shape_of(r):
    t = type(r)
    if t is dict:
        return ("dict", [(k, shape_of(v)) for k, v in r.items()])
    if t is list:
        return ("list", [shape_of(x) for x in r])
    if t is tuple:
        return ("tuple", [shape_of(x) for x in r])
    if t is set:
        return ("set", frozenset(r))
    return ("leaf", type(r).__name__, r)


def shape_eq(want, got):
    if want[0] == "listset":
        return got[0] == "list" and all(g[0] == "leaf" for g in got[1]) and \
            len(got[1]) == len(want[1]) and frozenset(g[2] for g in got[1]) == want[1]
    if want[0] != got[0]:
        return False
    if want[0] == "dict":
        return len(want[1]) == len(got[1]) and all(
            type(a[0]) is type(b[0]) and a[0] == b[0] and shape_eq(a[1], b[1]) for a, b in zip(want[1], got[1]))
    if want[0] in ("list", "tuple"):
        return len(want[1]) == len(got[1]) and all(shape_eq(a, b) for a, b in zip(want[1], got[1]))
    if want[0] == "set":
        return want[1] == got[1] and sorted(map(repr, want[1])) == sorted(map(repr, got[1]))
    return want == got


def roundtrip_check(spec, path, t2l, s2l):
    """None if `$` gives the document back in canonical form, else the failure data"""
    reg = {}
    want = canon_doc(build(spec, reg), reg, t2l, s2l)
    obs, exc, res = run_dollar(path, build(spec, {}), t2l, s2l)
    if obs[0] == "val" and not census(res, t2l, s2l) and shape_eq(want, shape_of(res)):
        return None
    return {"origin": {"spec": spec}, "path": path, "kind": "roundtrip",
            "options": {"convertTuplesToLists": t2l, "convertSetsToLists": s2l},
            "observed": repr(res)[:800] if obs[0] == "val" else list(obs),
            "trace": "".join(traceback.format_exception(type(exc), exc, exc.__traceback__))[-1500:] if exc else None,
            "required": "an equal document: dict items in order, lists/tuples as %s, sets as %s, generators as list"
                        % ("list" if t2l else "tuple", "list" if s2l else "set")}


# --------------------------------------------------------------------------
# running the real code
# --------------------------------------------------------------------------
def err_obs(e):
    return ("err", "PyType") if isinstance(e, TypeError) else ("other", type(e).__module__ + "." + type(e).__name__)


def observe(f):
    try:
        r = f()
    except Exception as e:                    # the class is the observation
        return err_obs(e), e, None
    try:
        return ("val", tree(r, None, drain=True)), None, r
    except Unsupported as e:
        return ("other", "unprintable result: %s" % e), None, r
    except Exception as e:                    # an unfinalised lazy result (context without '#finalize') that raises when read
        return ("other", "reading the result raised %s.%s" % (type(e).__module__, type(e).__name__)), e, r


def obs_term(o):
    if o[0] == "val":
        return "(OVal %s)" % term(o[1])
    if o[0] == "err":
        return "(OErr PyType)"
    return "OOther"


def obs_json(o):
    return ["val", jtree(o[1])] if o[0] == "val" else list(o)


def run_out(path, obj, t2l, s2l):
    """KOut paths: the value reaches the output conversion unconverted"""
    if path == "direct":
        e = eng_for(t2l, s2l)
        c = ctx()
        return observe(lambda: utils.convert_output_data(obj, c("#iter", e), e))
    if path == "dollar_raw":
        e = eng_for(t2l, s2l, **{"yaql.convertInputData": False})
        return observe(lambda: e("$").evaluate(data=obj, context=ctx()))
    raise ValueError(path)


def run_dollar(path, obj, t2l, s2l):
    e = eng_for(t2l, s2l)
    if path == "dollar":
        return observe(lambda: e("$").evaluate(data=obj, context=ctx()))
    if path == "dollar_newctx":
        return observe(lambda: e("$").evaluate(data=obj))
    if path == "iface":
        return observe(lambda: yaql_interface.YaqlInterface(ctx(), e)("$1", obj))
    if path == "iface_stub":              # YaqlInterface.__getattr__: direct call of a library function
        if obj is None:
            return run_dollar("iface", obj, t2l, s2l)
        return observe(lambda: yaql_interface.YaqlInterface(ctx(), e).coalesce(obj))
    if path == "yaql_eval":               # module-level helper: the library's own default engine and context
        if (t2l, s2l) != OPTS[0]:
            return run_dollar("dollar", obj, t2l, s2l)
        return observe(lambda: yaql.eval("$", obj))
    raise ValueError(path)


def raw_engine():
    return engine(**{"yaql.convertOutputData": False})


def eval_raw(expr, data_spec):
    """the value the expression evaluates to, before finalisation (drained); None if evaluation fails"""
    try:
        reg = {}
        kw = {"data": build(data_spec, reg)} if data_spec is not None else {}
        r = raw_engine()(expr).evaluate(context=ctx(), **kw)
        return tree(r, None, drain=True)
    except Unsupported:
        return "unsupported"
    except Exception:
        return None


def eval_expr(expr, data_spec, t2l, s2l, per_expression_options=None):
    e = eng_for(t2l, s2l)
    reg = {}
    kw = {"data": build(data_spec, reg)} if data_spec is not None else {}
    if per_expression_options:
        # engine(expression, options=...) parses on a copy of the engine whose options are the engine's own
        # options updated by the given ones: the conversion options in force stay the engine's
        return observe(lambda: e(expr, dict(per_expression_options)).evaluate(context=ctx(), **kw))
    return observe(lambda: e(expr).evaluate(context=ctx(), **kw))


# --------------------------------------------------------------------------
# expressions producing every kind of value
# --------------------------------------------------------------------------
FIXED_EXPRS = [
    "{a=>1}.items()", "{a=>1}.keys()", "{a=>1}.values()", "$.items()", "$.keys()", "$.values()",
    "dict(a=>1, b=>[1,2]).items()", "dict(a=>1).keys()", "dict(a=>[1,[2]]).values()",
    "{a=>{b=>1}.items()}", "[{a=>1}.items(), {b=>2}.keys()]", "{a=>1}.items().select($)",
    "{a=>1}.items().toList()", "list({a=>1}.items())", "{a=>set(1,2)}.items()", "{a=>[1,2]}.items()",
    "{[1,2]=>3}", "{[1,2]=>3}.keys()", "{[1,2]=>3}.items()", "{set(1)=>3}", "{{a=>1}=>3}", "{[]=>1}",
    "set([1,2])", "set(set(1))", "set({a=>1})", "set(1,2)", "set()", "set('a', 2.25, null, true)",
    "[set([1,2])]", "{a=>set([1])}", "set([1,2]).toList()", "set(1,2).union(set(3))",
    "[1,2,3].orderBy($)", "[3,1,2].orderByDescending($)", "[[2,1],[1,2]].orderBy($[0])", "[1,2].orderBy($).thenBy($)",
    "[1,2,3].where($>1)", "[1,2,3].select([$, $*2])", "[1,2,3].select({v=>$})", "[1,2].select(set($))",
    "[[1,2],[3]].select($.where($>1))", "[1,2,3].skip(1)", "[1,2,3].take(2)", "[1,2,3].reverse()",
    "[1,2,3]", "[1,[2,[3,[]]]]", "[]", "{}", "{a=>[1,{b=>[2]}]}", "list(1,2)", "[1,2] + [3]", "[1,2].toList()",
    "range(3)", "[1,2].zip([3,4])", "[1,2,2].distinct()", "[1,2,3].groupBy($ mod 2)", "[1,2].enumerate()",
    "[[1],[2]].flatten()", "[1,2].memorize()", "[1,2,3].toDict($, [$])", "[1,2].toSet()", "[[1,2]].toSet()",
    "dict([[a,1],[b,[2]]])", "{a=>1}.set(b, [2])", "{a=>1} + {b=>2}", "$", "$.get(a)", "[$, $]",
    "1", "null", "'s'", "true", "2.25",
    "{a=>1}.items().orderBy($[0])", "[{a=>1}.keys(), set(1)]", "{a=>{b=>{c=>1}.values()}.values()}.values()",
    "[1,2].select($).select([$])", "[[1,2].where(true)]", "{a=>[1,2].where(true)}", "set(1).select($)",
]
DATA_FOR_DOLLAR = ["dict", [[["str", "a"], ["int", 1]], [["str", "b"], ["list", [["int", 2], ["tuple", [["int", 3]]]]]]]]


def gen_expr(rng, depth, want="any"):
    """random expressions over the container-producing part of the standard library"""
    sc = lambda: rng.choice(["1", "2", "7", "-1", "true", "null", "'a'", "'b'", "2.25", "0.5"])
    if depth <= 0:
        if want == "list":
            return rng.choice(["[]", "[1]", "[1,2]", "['a',null]"])
        if want == "dict":
            return rng.choice(["{}", "{a=>1}", "{1=>'b',a=>null}"])
        return sc()
    E = lambda w="any": gen_expr(rng, depth - 1, w)
    if want == "hashable":
        r = rng.random()
        if r < 0.55:
            return sc()
        if r < 0.75:
            return "[%s]" % ", ".join(gen_expr(rng, depth - 1, "hashable") for _ in range(rng.randrange(0, 3)))
        if r < 0.85:
            return "set(%s)" % ", ".join(gen_expr(rng, depth - 1, "hashable") for _ in range(rng.randrange(0, 3)))
        return "{%s=>%s}" % (sc(), gen_expr(rng, depth - 1, "hashable"))
    if want == "list":
        r = rng.random()
        if r < 0.45:
            return "[%s]" % ", ".join(E() for _ in range(rng.randrange(0, 4)))
        if r < 0.55:
            return "list(%s)" % E("iter")
        if r < 0.65:
            return "%s.toList()" % E("iter")
        if r < 0.75:
            return "(%s + %s)" % (E("list"), E("list"))
        if r < 0.85:
            return "%s.reverse()" % E("list")
        return "list(%s)" % ", ".join(E() for _ in range(rng.randrange(1, 3)))
    if want == "dict":
        r = rng.random()
        if r < 0.6:
            return "{%s}" % ", ".join("%s=>%s" % (gen_expr(rng, depth - 1, "hashable"), E()) for _ in range(rng.randrange(0, 4)))
        if r < 0.8:
            return "dict(%s)" % ", ".join("%s=>%s" % (gen_expr(rng, depth - 1, "hashable"), E()) for _ in range(rng.randrange(0, 3)))
        return "%s.set(%s, %s)" % (E("dict"), sc(), E())
    if want == "iter":
        r = rng.random()
        L = E("list")
        if r < 0.15:
            return "%s.where(true)" % L
        if r < 0.3:
            return "%s.select($)" % L
        if r < 0.4:
            return "%s.select([$, 1])" % L
        if r < 0.5:
            return "%s.select({v=>$})" % L
        if r < 0.6:
            return "%s.orderBy(1)" % L
        if r < 0.7:
            return "%s.%s()" % (E("dict"), rng.choice(["keys", "values", "items"]))
        if r < 0.8:
            return "%s.skip(0)" % L
        if r < 0.9:
            return "%s.memorize()" % L
        return "%s.%s().select($)" % (E("dict"), rng.choice(["keys", "values", "items"]))
    r = rng.random()
    if r < 0.15:
        return sc()
    if r < 0.35:
        return E("list")
    if r < 0.55:
        return E("dict")
    if r < 0.8:
        return E("iter")
    if r < 0.92:
        return "set(%s)" % ", ".join(gen_expr(rng, depth - 1, "hashable") for _ in range(rng.randrange(0, 4)))
    return "$"


# --------------------------------------------------------------------------
# C
# --------------------------------------------------------------------------
def opts_term(t2l, s2l):
    return "{| t2l := %s; s2l := %s |}" % (gal.boolean(t2l), gal.boolean(s2l))


def case_term(kind, t2l, s2l, tin, tmid, obs):
    return "{| c_kind := %s; c_opts := %s; c_in := %s; c_mid := %s; c_obs := %s |}" % (
        kind, opts_term(t2l, s2l), term(tin), term(tmid) if tmid is not None else "VNull", obs_term(obs))


class Case:
    def __init__(self, kind, path, t2l, s2l, tin, tmid, obs, origin, result=None, exc=None):
        self.kind, self.path, self.t2l, self.s2l = kind, path, t2l, s2l
        self.tin, self.tmid, self.obs, self.origin = tin, tmid, obs, origin
        self.result, self.exc = result, exc

    def term(self):
        return case_term(self.kind, self.t2l, self.s2l, self.tin, self.tmid, self.obs)

    def data(self):
        return {"kind": self.kind, "path": self.path, "options": {"convertTuplesToLists": self.t2l, "convertSetsToLists": self.s2l},
                "origin": self.origin, "input_tree": jtree(self.tin),
                "mid_tree": jtree(self.tmid) if self.tmid is not None else None, "observed": obs_json(self.obs)}


def make_case(kind, path, t2l, s2l, origin):
    """origin: {"spec": ...} or {"expr": ..., "data": spec|None}.  Returns a Case or None (unsupported / eval failed)."""
    if "expr" in origin:
        tin = eval_raw(origin["expr"], origin.get("data"))
        if tin is None or tin == "unsupported":
            return tin
        obs, exc, res = eval_expr(origin["expr"], origin.get("data"), t2l, s2l)
        return Case("KOut", path, t2l, s2l, tin, None, obs, origin, res, exc)
    spec = origin["spec"]
    reg = {}
    obj = build(spec, reg)
    tin = tree(obj, reg)
    if kind == "KOut":
        obs, exc, res = run_out(path, obj, t2l, s2l)
        return Case(kind, path, t2l, s2l, tin, None, obs, origin, res, exc)
    if kind == "KIn":
        obs, exc, res = observe(lambda: utils.convert_input_data(obj))
        twin = None
        try:
            twin = utils.convert_input_data(build(spec, {}))      # an undrained copy for the census
        except Exception:
            pass
        return Case(kind, path, t2l, s2l, tin, None, obs, origin, twin, exc)
    if kind == "KHash":
        def h():
            try:
                hash(obj)
                return True
            except TypeError:
                return False
        obs, exc, res = observe(h)
        return Case(kind, path, t2l, s2l, tin, None, obs, origin, None, exc)
    if kind == "KDollar":
        reg2 = {}
        twin = build(spec, reg2)
        mobs, mexc, _ = observe(lambda: utils.convert_input_data(twin))
        if mobs[0] != "val":
            return Case("KIn", "convert_input", t2l, s2l, tin, None, mobs, origin, None, mexc)
        obs, exc, res = run_dollar(path, obj, t2l, s2l)
        return Case(kind, path, t2l, s2l, tin, mobs[1], obs, origin, res, exc)
    raise ValueError(kind)


def judge(case):
    """Does the implementation fail the PROPERTY on this case?  -> (what, extra) or None"""
    if case.kind in ("KOut", "KDollar"):
        src = case.tmid if case.kind == "KDollar" else case.tin
        if case.obs[0] == "val":
            bad = census(case.result, case.t2l, case.s2l)
            if bad:
                return ("result of finalisation is not plain data: it contains a %s" % bad[0][1],
                        {"offending_nodes": bad[:10], "required": "only dict, list, tuple iff convertTuplesToLists is off, "
                                                                 "set iff convertSetsToLists is off, scalar leaves"})
            return None
        cls = unhashable_after(src, case.t2l, case.s2l)
        return ("finalisation raised %s on a value that evaluation produced" % (
                    "TypeError" if case.obs[0] == "err" else case.obs[1]),
                {"error": "TypeError" if case.obs[0] == "err" else case.obs[1],
                 "trace": "".join(traceback.format_exception(type(case.exc), case.exc, case.exc.__traceback__))[-1500:] if case.exc else None,
                 "keys_without_plain_hashable_form": cls[:10],
                 "required": "finalisation succeeds and yields plain data"})
    if case.kind == "KIn" and case.obs[0] != "val":
        return ("convert_input_data raised %s" % case.obs[1], {"required": "input conversion is total"})
    if case.kind == "KIn":
        bad = census_frozen(case.result)
        if bad:
            return ("input conversion left a mutable / host container in the data: %s" % bad[0][1],
                    {"offending_nodes": bad[:10], "required": "only tuple, FrozenDict, frozenset, lazy iterators and scalars"})
    return None


def all_cases(run, n):
    rng = run.rng
    out = []
    # corpus first
    for origin in load_corpus():
        for (t2l, s2l) in OPTS:
            kind = origin.get("kind", "KOut")
            path = origin.get("path", "expr" if "expr" in origin else "direct")
            c = make_case(kind, path, t2l, s2l, {k: v for k, v in origin.items() if k in ("spec", "expr", "data")})
            if isinstance(c, Case):
                out.append(c)
    for expr in FIXED_EXPRS:
        for (t2l, s2l) in OPTS:
            c = make_case("KOut", "expr", t2l, s2l, {"expr": expr, "data": DATA_FOR_DOLLAR})
            if isinstance(c, Case):
                out.append(c)
            else:
                run.count("expr:" + ("unsupported-raw" if c == "unsupported" else "evaluation-failed"))
    for i in range(n):
        r = rng.random()
        depth = rng.choice([1, 2, 2, 3, 3, 4])
        if r < 0.40:
            spec = gen_spec(rng, depth)
            for (t2l, s2l) in OPTS:
                out.append(make_case("KOut", rng.choice(["direct", "direct", "dollar_raw"]), t2l, s2l, {"spec": spec}))
        elif r < 0.50:
            spec = gen_spec(rng, depth)
            out.append(make_case("KIn", "convert_input", True, False, {"spec": spec}))
            out.append(make_case("KHash", "hash", True, False, {"spec": spec}))
        elif r < 0.70:
            spec = gen_spec(rng, depth, idfree=True)
            for (t2l, s2l) in OPTS:
                out.append(make_case("KDollar", rng.choice(["dollar", "dollar", "dollar_newctx", "iface", "iface_stub", "yaql_eval"]), t2l, s2l, {"spec": spec}))
        else:
            expr = gen_expr(rng, rng.choice([1, 2, 2, 3]))
            data = gen_spec(rng, 2, idfree=True) if "$" in expr else None
            for (t2l, s2l) in OPTS:
                c = make_case("KOut", "expr", t2l, s2l, {"expr": expr, "data": data})
                if isinstance(c, Case):
                    out.append(c)
                else:
                    run.count("expr:" + ("unsupported-raw" if c == "unsupported" else "evaluation-failed"))
                    run.cov["skipped"] += 1
    return out


NONPLAIN = {"VTuple", "VFDict", "VFSet", "VIter", "VOrd", "VView:KKeys", "VView:KValues", "VView:KItems"}


def coqchk(run):
    """thorough tier: independent re-check of the compiled proofs; must report no axioms"""
    import subprocess
    from core import COQ
    try:
        p = subprocess.run(["coqchk", "-silent", "-o", "-Q", ".", "YV", "YV.Props.C10"], cwd=COQ,
                           capture_output=True, text=True, timeout=1500)
        out = p.stdout + p.stderr
    except Exception as e:
        run.note("coqchk could not be run: %r" % e)
        return
    if p.returncode != 0 or "Axioms: <none>" not in out:
        run.fail("proof", "coqchk does not accept Props/C10.vo without axioms", {"log": out[-2000:]})
    else:
        run.note("coqchk -o YV.Props.C10: accepted, Axioms: <none>")


def correspondence(run):
    if not run.quick and run.proof.get("ok"):
        coqchk(run)
    correspondence_identity(run)
    correspondence_limit(run)
    cases = all_cases(run, run.n(1500, 30000))
    for i, c in enumerate(cases):
        kinds = tree_kinds(c.tin, set())
        run.case((c.kind, c.path, c.t2l, c.s2l, jtree(c.tin)), nontrivial=tree_depth(c.tin) >= 2 or bool(kinds & NONPLAIN))
        run.count("kind:%s/%s" % (c.kind, c.path))
        run.count("opts:t2l=%s,s2l=%s" % (c.t2l, c.s2l))
        run.count("obs:" + (c.obs[0] if c.obs[0] != "other" else "other:" + c.obs[1]))
        for k in kinds:
            run.count("ctor:" + k)
        if i % 211 == 0:
            run.sample({"kind": c.kind, "path": c.path, "options": [c.t2l, c.s2l], "origin": c.origin, "observed": obs_json(c.obs)})
    bad = run.coq_mismatches(HEADER, "case", "case_ok", [c.term() for c in cases], shard=150)
    seen = set()
    for i in bad:
        c = cases[i]
        try:
            model = run.coq_eval(HEADER, model_expr(c)) if len(seen) < 6 else "(not evaluated)"
        except Exception as e:
            model = "model evaluation failed: %r" % e
        verdict = judge(c)
        d = c.data()
        d["model_says"] = model[-1500:]
        d["theorems"] = ["C10_plain", "C10_total_guarded", "C10_roundtrip", "C10_input_frozen"]
        if verdict:
            d.update(verdict[1])
            run.fail("violation", verdict[0], d)
        else:
            key = (c.kind, c.path)
            what = "model and implementation disagree on %s via %s" % (c.kind, c.path)
            # a differing value on a plain, successful result: which clause of the property?
            if c.kind == "KDollar" and c.obs[0] == "val":
                run.fail("violation", "`$` does not return the document in canonical form: " + what, d)
            elif c.kind == "KOut" and c.obs[0] == "val":
                run.fail("violation", "finalised value is not the conversion of the evaluated value "
                                      "(elements/keys lost, reordered or left unconverted): " + what, d)
            else:
                run.fail("mismatch", what, d)
        seen.add((c.kind, c.path))


def model_expr(c):
    o = opts_term(c.t2l, c.s2l)
    if c.kind == "KOut":
        return "convert_output %s %s" % (o, term(c.tin))
    if c.kind == "KIn":
        return "convert_input %s" % term(c.tin)
    if c.kind == "KDollar":
        return "(convert_input %s, convert_output %s %s)" % (term(c.tin), o, term(c.tmid))
    return "hashable %s" % term(c.tin)


# --------------------------------------------------------------------------
# O
# --------------------------------------------------------------------------
def oracle(run, deep):
    rng = run.rng
    # O1: every result of every expression is plain; finalisation of a successful evaluation never raises
    exprs = [(e, DATA_FOR_DOLLAR) for e in FIXED_EXPRS]
    for _ in range(run.n(600, 12000) * (3 if deep else 1)):
        e = gen_expr(rng, rng.choice([1, 2, 3, 3]))
        exprs.append((e, gen_spec(rng, 2, idfree=True) if "$" in e else None))
    for expr, data in exprs:
        raw = eval_raw(expr, data)
        if raw is None:
            run.count("O:evaluation-failed")
            continue
        for (t2l, s2l) in OPTS:
            obs, exc, res = eval_expr(expr, data, t2l, s2l)
            run.count("O:expr-" + obs[0])
            run.cov["evaluations"] += 1
            check_result(run, {"expr": expr, "data": data}, "expr", t2l, s2l, raw if raw != "unsupported" else None, obs, exc, res)
            if rng.random() < 0.25:
                extra = rng.choice([{"yaql.limitIterators": 100000}, {"yaql.memoryQuota": 10 ** 9}, {"some.host.option": 1}])
                obs2, exc2, res2 = eval_expr(expr, data, t2l, s2l, per_expression_options=extra)
                run.count("O:expr-per-expression-options-" + obs2[0])
                run.cov["evaluations"] += 1
                check_result(run, {"expr": expr, "data": data, "per_expression_options": extra}, "expr", t2l, s2l,
                             raw if raw != "unsupported" else None, obs2, exc2, res2)
                if obs2 != obs:
                    run.fail("violation", "engine(expression, options) finalises differently from the engine's own options "
                                          "although the given options do not touch conversion",
                             {"expr": expr, "data": data, "options": [t2l, s2l], "per_expression_options": extra,
                              "observed": repr(obs2)[:400], "with_engine_options": repr(obs)[:400]})
    # O2: round trip of JSON-like documents through `$` on every path
    for _ in range(run.n(800, 15000) * (3 if deep else 1)):
        spec = gen_doc_spec(rng, rng.choice([1, 2, 3, 4]))
        for (t2l, s2l) in OPTS:
            for path in (("dollar", "iface", "iface_stub", "dollar_newctx", "yaql_eval") if rng.random() < 0.2 else ("dollar",)):
                bad = roundtrip_check(spec, path, t2l, s2l)
                run.cov["evaluations"] += 1
                run.count("O:roundtrip-" + ("ok" if bad is None else "FAIL"))
                if bad:
                    run.fail("violation", "`$` does not give the JSON-like document back in canonical container types", bad)
    oracle_input(run, deep)
    oracle_histories(run, deep)
    oracle_subclasses(run)
    oracle_yaql_eval(run)
    oracle_options_objects(run, deep)
    oracle_iface_routes(run)
    oracle_engines(run, deep)
    # O3: random host values of every constructor straight into the finaliser
    for _ in range(run.n(800, 15000) * (3 if deep else 1)):
        spec = gen_spec(rng, rng.choice([1, 2, 3, 4]))
        for (t2l, s2l) in OPTS:
            reg = {}
            obj = build(spec, reg)
            tin = tree(obj, reg)
            path = rng.choice(["direct", "dollar_raw"])
            obs, exc, res = run_out(path, obj, t2l, s2l)
            run.cov["evaluations"] += 1
            run.count("O:value-" + obs[0])
            check_result(run, {"spec": spec}, path, t2l, s2l, tin, obs, exc, res)


def oracle_input(run, deep):
    """O4: convert_input_data never raises and leaves no mutable / host container behind"""
    rng = run.rng
    for _ in range(run.n(500, 15000) * (3 if deep else 1)):
        spec = gen_spec(rng, rng.choice([1, 2, 3, 4]))
        run.cov["evaluations"] += 1
        try:
            r = utils.convert_input_data(build(spec, {}))
            bad = census_frozen(r)
            err = None
        except Exception as e:
            bad, err = [], type(e).__name__
        run.count("O:input-" + ("ok" if not bad and not err else "FAIL"))
        if bad or err:
            run.fail("violation", "input conversion %s" % ("raised " + err if err else "left a mutable / host container in the data: " + bad[0][1]),
                     {"kind": "KIn", "path": "convert_input", "origin": {"spec": spec}, "offending_nodes": bad[:10],
                      "options": {"convertTuplesToLists": True, "convertSetsToLists": False},
                      "required": "convert_input_data is total and yields only tuple, FrozenDict, frozenset, lazy iterators, scalars"})


def check_result(run, origin, path, t2l, s2l, tin, obs, exc, res):
    data = {"kind": "KOut", "path": path, "origin": origin,
            "options": {"convertTuplesToLists": t2l, "convertSetsToLists": s2l},
            "input_tree": jtree(tin) if tin is not None else None, "observed": obs_json(obs)}
    if obs[0] == "val":
        bad = census(res, t2l, s2l)
        if bad:
            data.update({"offending_nodes": bad[:10], "result": repr(res)[:600],
                         "required": "only dict, list, tuple iff convertTuplesToLists is off, set iff convertSetsToLists is off, scalars"})
            run.fail("violation", "result of finalisation is not plain data: it contains a %s" % bad[0][1], data)
        elif shared_mutables(res):
            data.update({"result": repr(res)[:600], "required": "every list / dict / set of a result is an object of its own"})
            run.fail("violation", "the same mutable container object occurs at two positions of the result", data)
        return
    if obs[0] == "other" and obs[1].startswith("unprintable"):
        bad = census(res, t2l, s2l)
        data.update({"offending_nodes": bad[:10], "result": repr(res)[:600]})
        run.fail("violation", "result of finalisation is not plain data: %s" % (bad[0][1] if bad else obs[1]), data)
        return
    errname = "TypeError" if obs[0] == "err" else obs[1]
    data.update({"error": errname,
                 "trace": "".join(traceback.format_exception(type(exc), exc, exc.__traceback__))[-1500:] if exc else None,
                 "keys_without_plain_hashable_form": unhashable_after(tin, t2l, s2l)[:10] if tin is not None else None,
                 "required": "finalisation succeeds and yields plain data"})
    run.fail("violation", "finalisation raised %s on a value that evaluation produced" % errname, data)


# --------------------------------------------------------------------------
# identity: which list / dict / set OBJECTS does a result consist of  (Model/ConvertId.v)
# --------------------------------------------------------------------------
IHEADER = "From YV Require Import Model.Convert Model.ConvertId."
MUT = {list: "IList", dict: "IDict", set: "ISet"}
IK = {"VNull": "INull", "VBool": "IBool", "VInt": "IInt", "VFloat": "IFloat", "VStr": "IStr", "VTuple": "ITuple",
      "VFDict": "IFDict", "VFSet": "IFSet", "VIter": "IIter", "VOrd": "IOrd", "VView": "IView"}


def itree(obj, ids, reg=None, drain=False):
    """like tree(), but every exact list / dict / set node carries the number of its OBJECT:
    ids maps id(obj) -> number; unknown objects get the next number (first occurrence)."""
    t = type(obj)
    rec = lambda x: itree(x, ids, reg, drain)
    if t in MUT:
        if id(obj) not in ids:
            ids[id(obj)] = len(ids)
        n = ids[id(obj)]
        if t is dict:
            return ("IDict", n, [(rec(a), rec(b)) for a, b in obj.items()])
        return (MUT[t], n, [rec(x) for x in obj])
    if t is tuple:
        return ("ITuple", [rec(x) for x in obj])
    if t is utils.FrozenDict:
        return ("IFDict", [(rec(a), rec(b)) for a, b in obj.items()])
    if t is frozenset:
        return ("IFSet", [rec(x) for x in obj])
    if reg is not None and id(obj) in reg:
        e = reg[id(obj)]
        if e[0] == "VView":
            return ("IView", VK[e[1]], [(rec(a), rec(b)) for a, b in e[2].items()])
        return (IK[e[0]], [rec(x) for x in e[1]])
    tr = tree(obj, reg, drain)               # scalars (and, for results, whatever else leaked)
    if tr[0] in SCALARS:
        return (IK[tr[0]],) + tuple(tr[1:])
    raise Unsupported(t.__name__)


def iterm(tr):
    k = tr[0]
    if k == "INull":
        return "INull"
    if k == "IBool":
        return "(IBool %s)" % gal.boolean(tr[1])
    if k in ("IInt", "IFloat"):
        return "(%s %s)" % (k, gal.z(tr[1]))
    if k == "IStr":
        return "(IStr %s)" % gal.s(tr[1])
    kv = lambda kvs: "(@nil (ival * ival))" if not kvs else gal.lst(gal.pair(iterm(a), iterm(b)) for a, b in kvs)
    ls = lambda l: "(@nil ival)" if not l else gal.lst(iterm(x) for x in l)
    if k == "IView":
        return "(IView %s %s)" % (tr[1], kv(tr[2]))
    if k == "IFDict":
        return "(IFDict %s)" % kv(tr[1])
    if k == "IDict":
        return "(IDict %s %s)" % (gal.nat(tr[1]), kv(tr[2]))
    if k in ("IList", "ISet"):
        return "(%s %s %s)" % (k, gal.nat(tr[1]), ls(tr[2]))
    return "(%s %s)" % (k, ls(tr[1]))


def icells(tr, out=None):
    out = [] if out is None else out
    k = tr[0]
    if k in ("IList", "ISet"):
        out.append(tr[1])
        for x in tr[2]:
            icells(x, out)
    elif k == "IDict":
        out.append(tr[1])
        for a, b in tr[2]:
            icells(a, out)
            icells(b, out)
    elif k in ("IFDict",):
        for a, b in tr[1]:
            icells(a, out)
            icells(b, out)
    elif k == "IView":
        for a, b in tr[2]:
            icells(a, out)
            icells(b, out)
    elif k in ("ITuple", "IFSet", "IIter", "IOrd"):
        for x in tr[1]:
            icells(x, out)
    return out


def gen_alias_spec(rng):
    """host values in which the same mutable object occurs at several places"""
    def plain(depth):
        if depth <= 0 or rng.random() < 0.3:
            return gen_scalar(rng)
        k = rng.choice(["list", "list", "dict", "set", "tuple"])
        n = rng.choice([0, 1, 2, 2])
        if k == "dict":
            return ["dict", [[gen_scalar(rng), plain(depth - 1)] for _ in range(n)]]
        if k == "set":           # at most one element: a set's iteration order changes when input conversion rebuilds it
            return ["set", [gen_scalar(rng) for _ in range(min(n, 1))]]
        return [k, [plain(depth - 1) for _ in range(n)]]
    shared =[plain(2) for _ in range(rng.choice([1, 2, 3]))]
    shared = [x if x[0] in ("list", "dict", "set", "tuple") else ["list", [x]] for x in shared]

    def body(depth):
        r = rng.random()
        if r < 0.35:
            return ["ref", rng.randrange(len(shared))]
        if depth <= 0 or r < 0.5:
            return gen_scalar(rng)
        n = rng.choice([1, 2, 2, 3])
        k = rng.choice(["list", "list", "tuple", "dict", "fdict", "iter", "ord", "view", "fset"])
        if k in ("list", "tuple", "ord"):
            return [k, [body(depth - 1) for _ in range(n)]]
        if k == "iter":
            return ["iter", rng.choice(ITER_KINDS), [body(depth - 1) for _ in range(n)]]
        if k in ("dict", "fdict"):
            return [k, [[gen_scalar(rng), body(depth - 1)] for _ in range(n)]]
        if k == "view":
            return ["view", rng.choice(["values", "items"]), rng.choice(["dict", "fdict"]),
                    [[gen_scalar(rng), body(depth - 1)] for _ in range(n)]]
        return ["fset", [gen_scalar(rng) for _ in range(min(n, 1))]]
    return ["let", shared, ["list" if rng.random() < 0.7 else "tuple", [body(3) for _ in range(rng.choice([2, 3, 4]))]]]


class ICase:
    """one identity observation: the numbered input, the numbered result"""

    def __init__(self, spec, path, t2l, s2l):
        self.spec, self.path, self.t2l, self.s2l = spec, path, t2l, s2l
        self.via_input = path in ("dollar", "iface", "iface_stub", "yaql_eval", "dollar_newctx")
        reg = {}
        self.obj = build(spec, reg)                  # kept alive: ids must not be recycled
        self.reg = reg
        ids = {}
        self.tin = itree(self.obj, ids, reg)
        self.n = len(ids)
        run_ = run_dollar if self.via_input else run_out
        obs, self.exc, self.res = run_(path, self.obj, t2l, s2l)
        self.obs = obs
        self.tout = None
        if obs[0] == "val":
            try:
                self.tout = itree(self.res, ids, None, drain=True)
            except Unsupported:
                self.obs = ("other", "non-plain result")

    def term(self):
        o = "(IOVal %s)" % iterm(self.tout) if self.tout is not None else ("IOErr" if self.obs[0] == "err" else "IOOther")
        return "{| i_opts := %s; i_via_input := %s; i_n := %s; i_in := %s; i_obs := %s |}" % (
            opts_term(self.t2l, self.s2l), gal.boolean(self.via_input), gal.nat(self.n), iterm(self.tin), o)

    def verdict(self):
        """the property's own predicate on the observed objects"""
        if self.tout is None:
            return None
        cs = icells(self.tout)
        old = sorted({c for c in cs if c < self.n})
        if old:
            return ("a mutable container of the result IS a container of the input value",
                    {"aliased_objects": old})
        dup = sorted({c for c in cs if cs.count(c) > 1})
        if dup:
            return ("the same mutable container object occurs at two positions of the result", {"shared_objects": dup})
        return None

    def data(self, extra=None):
        d = {"kind": "identity", "path": self.path, "origin": {"spec": self.spec},
             "options": {"convertTuplesToLists": self.t2l, "convertSetsToLists": self.s2l},
             "input_objects": self.n, "numbered_input": repr(self.tin)[:1500],
             "numbered_result": repr(self.tout)[:1500] if self.tout is not None else list(self.obs),
             "required": "every list / dict / set of the result is a new object: none of the input's, none used twice "
                         "(theorem C10_output_fresh)"}
        d.update(extra or {})
        return d


IPATHS = ["direct", "direct", "dollar_raw", "dollar", "dollar", "iface", "iface_stub"]


def correspondence_identity(run):
    rng = run.rng
    cases = []
    for _ in range(run.n(250, 5000)):
        spec = gen_alias_spec(rng)
        path = rng.choice(IPATHS)
        for (t2l, s2l) in OPTS:
            c = ICase(spec, path, t2l, s2l)
            cases.append(c)
            run.case(("identity", path, t2l, s2l, spec), nontrivial=True)
            run.count("kind:KFresh/%s" % path)
            run.count("identity-obs:" + c.obs[0])
    bad = set(run.coq_mismatches(IHEADER, "icase", "icase_ok", [c.term() for c in cases], shard=150))
    nrep = 0
    for i, c in enumerate(cases):
        v = c.verdict()
        if v:
            run.fail("violation", v[0], c.data(v[1]))
        elif i in bad and nrep < 5:
            nrep += 1
            run.fail("mismatch", "identity model and implementation disagree via %s" % c.path, c.data())
    for c in cases:                                   # release the objects
        c.obj = c.res = c.reg = None


def shared_mutables(res, forbidden=None):
    """ids of list/dict/set objects that occur twice in a result, or that are forbidden (host objects)"""
    seen, bad = set(), []

    def walk(x):
        t = type(x)
        if t in MUT:
            if id(x) in seen or (forbidden and id(x) in forbidden):
                bad.append(t.__name__)
                return
            seen.add(id(x))
        if t is dict:
            for a, b in x.items():
                walk(a)
                walk(b)
        elif t in (list, tuple, set):
            for y in x:
                walk(y)
    walk(res)
    return bad


# --------------------------------------------------------------------------
# the limiter argument: yaql.limitIterators = N during finalisation  (Model/ConvertLim.v)
# --------------------------------------------------------------------------
LHEADER = "From YV Require Import Model.Convert Model.ConvertLim."


def lim_observe(path, obj, t2l, s2l, N):
    from yaql.language import exceptions as yexc
    extra = {"yaql.limitIterators": N} if N is not None else {}
    if path == "direct":
        e = eng_for(t2l, s2l, **extra)
        c = ctx()
        f = lambda: utils.convert_output_data(obj, c("#iter", e), e)
    else:
        e = eng_for(t2l, s2l, **dict(extra, **{"yaql.convertInputData": False}))
        f = lambda: e("$").evaluate(data=obj, context=ctx())
    try:
        r = f()
    except yexc.CollectionTooLargeException:
        return ("toolarge",), None
    except TypeError:
        return ("err", "PyType"), None
    except Exception as ex:
        return ("other", type(ex).__module__ + "." + type(ex).__name__), None
    try:
        return ("val", tree(r, None, drain=True)), r
    except Unsupported as ex:
        return ("other", "unprintable result: %s" % ex), r


def lcase_term(t2l, s2l, N, tin, obs):
    o = {"val": lambda: "(LOVal %s)" % term(obs[1]), "toolarge": lambda: "LOTooLarge",
         "err": lambda: "LOPyType", "other": lambda: "LOOther"}[obs[0]]()
    return "{| l_opts := %s; l_limit := %s; l_in := %s; l_obs := %s |}" % (
        opts_term(t2l, s2l), gal.opt(N, gal.nat), term(tin), o)


def limit_case(spec, path, t2l, s2l, N):
    reg = {}
    obj = build(spec, reg)
    tin = tree(obj, reg)
    obs, res = lim_observe(path, obj, t2l, s2l, N)
    return tin, obs, res


def correspondence_limit(run):
    rng = run.rng
    cases, meta = [], []
    for _ in range(run.n(300, 6000)):
        spec = gen_spec(rng, rng.choice([1, 2, 3, 3]))
        path = rng.choice(["direct", "direct", "dollar_raw"])
        N = rng.choice([0, 1, 1, 2, 2, 3, 5, None])
        for (t2l, s2l) in OPTS:
            tin, obs, res = limit_case(spec, path, t2l, s2l, N)
            cases.append(lcase_term(t2l, s2l, N, tin, obs))
            meta.append((spec, path, t2l, s2l, N, tin, obs, res))
            run.case(("limit", path, t2l, s2l, N, spec), nontrivial=tree_depth(tin) >= 2)
            run.count("kind:KLim/%s" % path)
            run.count("limit-obs:" + obs[0])
    nrep = 0
    for i in run.coq_mismatches(LHEADER, "lcase", "lcase_ok", cases, shard=150):
        spec, path, t2l, s2l, N, tin, obs, res = meta[i]
        d = {"kind": "limit", "path": path, "origin": {"spec": spec}, "limit": N,
             "options": {"convertTuplesToLists": t2l, "convertSetsToLists": s2l},
             "input_tree": jtree(tin), "observed": obs_json(obs)}
        bad = census(res, t2l, s2l) if obs[0] == "val" else []
        if bad:
            d["offending_nodes"] = bad[:10]
            run.fail("violation", "result of finalisation is not plain data: it contains a %s" % bad[0][1], d)
        elif nrep < 5:
            nrep += 1
            try:
                d["model_says"] = run.coq_eval(LHEADER, "co_lim (count_lim %s) %s %s" % (
                    gal.opt(N, gal.nat), opts_term(t2l, s2l), term(tin)))[-800:]
            except Exception as ex:
                d["model_says"] = repr(ex)
            run.fail("mismatch", "limited finalisation: model and implementation disagree via %s" % path, d)


# --------------------------------------------------------------------------
# host documents made of tuple / list / dict SUBCLASSES (namedtuple, OrderedDict, defaultdict, ...)
# --------------------------------------------------------------------------
_P = collections.namedtuple("_P", "x y")


class _L(list):
    pass


class _D(dict):
    pass


def subclass_docs():
    """(document built from subclasses, the same document built from plain list / tuple / dict)"""
    od = collections.OrderedDict
    return [
        (_P(1, [2]), (1, [2])),
        (od([("b", 1), ("a", (2,))]), {"b": 1, "a": (2,)}),
        (collections.defaultdict(list, {"k": [1, _P(2, 3)]}), {"k": [1, (2, 3)]}),
        (_L([1, (2,), _D(a=_L())]), [1, (2,), {"a": []}]),
        ({"p": _P(_P(1, 2), od()), "o": od(a=_L([1])), "c": collections.Counter("aab")},
         {"p": ((1, 2), {}), "o": {"a": [1]}, "c": {"a": 2, "b": 1}}),
        (collections.ChainMap({"a": 1}, {"b": [2]}), dict(collections.ChainMap({"a": 1}, {"b": [2]}))),
        (collections.deque([1, [2]]), None),       # a deque is a Sequence for convert_input_data: only judged by the census
    ]


def oracle_subclasses(run):
    """with input conversion on (the default) a document built from container subclasses comes back
    exactly like the same document built from plain containers"""
    for sub, plain in subclass_docs():
        for (t2l, s2l) in OPTS:
            for path in ("dollar", "iface", "iface_stub", "dollar_newctx"):
                obs, exc, res = run_dollar(path, sub, t2l, s2l)
                run.cov["evaluations"] += 1
                run.count("O:subclass-" + obs[0])
                bad = census(res, t2l, s2l) if obs[0] == "val" else [("$", "raised " + repr(obs))]
                if not bad and plain is not None:
                    want = run_dollar(path, plain, t2l, s2l)[2]
                    if shape_of(want) != shape_of(res):
                        bad = [("$", "differs from the plain document's result %r" % (want,))]
                if bad:
                    run.fail("violation", "a host document made of container subclasses is not returned as plain data",
                             {"kind": "subclass", "document": repr(sub)[:300], "path": path,
                              "options": {"convertTuplesToLists": t2l, "convertSetsToLists": s2l},
                              "observed": repr(res)[:400] if obs[0] == "val" else list(obs), "problems": [list(b) for b in bad[:5]],
                              "required": "namedtuple / list subclass -> list (tuple if convertTuplesToLists is off), "
                                          "OrderedDict / defaultdict / Counter / ChainMap / dict subclass -> dict, exact types"})


# --------------------------------------------------------------------------
# the module-level route yaql.eval: overlapping calls, and the state it keeps between calls
# --------------------------------------------------------------------------
def _eval_docs():
    mk = lambda who, extra: (lambda: dict({"who": who, "items": [1, 2, [3, who]], "tags": {who}, "lazy": (x for x in range(3))}, **extra))
    return {"A": mk("A", {"only_a": {"k": (1, 2)}}), "B": mk("B", {"n": 7}), "C": mk("C", {}), "D": mk("D", {"z": [None]})}


def _isolated(expr, doc):
    """what the call must return: the same expression on the default engine with a context of its own"""
    return canon_obs(observe(lambda: default_engine()(expr).evaluate(data=doc, context=ctx()))[0])


class _Gate:
    """Deterministic two-thread schedule: thread A stops at the n-th entry of a yield point
    (Statement.__call__ or runner.call), thread B then runs to completion, A resumes."""

    def __init__(self, point, nth):
        import threading
        self.point, self.nth = point, nth
        self.a_ident, self.count = None, 0
        self.a_waiting, self.a_go = threading.Event(), threading.Event()

    def hit(self, point):
        import threading
        if point != self.point or threading.get_ident() != self.a_ident:
            return
        self.count += 1
        if self.count == self.nth:
            self.a_waiting.set()
            self.a_go.wait(20)

    def run(self, job_a, job_b):
        import threading
        from yaql.language import expressions, runner
        res = {}
        orig_call, orig_rc = expressions.Statement.__call__, runner.call
        gate = self

        def st_call(stmt, *a, **k):
            gate.hit("statement_call")
            return orig_call(stmt, *a, **k)

        def r_call(*a, **k):
            gate.hit("runner_call")
            return orig_rc(*a, **k)

        def body_a():
            gate.a_ident = threading.get_ident()
            try:
                res["A"] = observe(job_a)[0]
            finally:
                gate.a_waiting.set()

        expressions.Statement.__call__ = st_call
        runner.call = r_call
        try:
            ta = threading.Thread(target=body_a, daemon=True)
            ta.start()
            self.a_waiting.wait(20)                  # A is inside its window (or already finished)
            tb = threading.Thread(target=lambda: res.__setitem__("B", observe(job_b)[0]), daemon=True)
            tb.start()
            tb.join(20)
            self.a_go.set()
            ta.join(20)
        finally:
            expressions.Statement.__call__ = orig_call
            runner.call = orig_rc
            self.a_go.set()
        return res.get("A", ("other", "thread A did not finish")), res.get("B", ("other", "thread B did not finish")), self.count >= self.nth


def yaql_eval_findings(soak=True):
    """every finding is (scenario, what, details); empty on a correct tree"""
    import sys
    import threading
    from yaql.language import contexts as C
    out = []
    docs = _eval_docs()

    def held_contexts():
        return {n: v for n, v in vars(yaql).items() if isinstance(v, C.ContextBase)}

    # (0) sequential use and the state kept between calls
    yaql.eval("$", docs["A"]())
    before = {n: sorted(c.keys()) for n, c in held_contexts().items()}
    for who in ("B", "A", "C"):
        want = _isolated("$", docs[who]())
        got = canon_obs(observe(lambda: yaql.eval("$", docs[who]()))[0])
        if got != want:
            out.append(("sequential", "yaql.eval('$', doc) does not give the document back", {"doc": who, "observed": repr(got)[:400], "required": repr(want)[:400]}))
        for n, c in held_contexts().items():
            if sorted(c.keys()) != before.get(n) or c["$"] is not None:
                out.append(("state", "yaql.eval leaves the caller's `$` / new keys in a context the module keeps between calls",
                            {"module_global": n, "keys_before": before.get(n), "keys_after": sorted(c.keys()),
                             "dollar_after_call": repr(c["$"])[:200],
                             "required": "the contexts yaql/__init__.py keeps are unchanged by a call; `$` lives in a per-call context"}))
                break
    # (a) re-entrant: draining a generator of the document performs a nested yaql.eval
    def nesting_doc(inner_expr, inner_who):
        def g():
            yield 1
            yield yaql.eval(inner_expr, docs[inner_who]())
        return {"who": "outer", "g": g(), "items": [1, 2]}
    for expr in ("[$.g.toList(), $.who]", "[list($.g), $]", "[$.who, $.g.select($).toList(), $.who, $.items]", "$"):
        for inner_expr, inner_who in (("$", "B"), ("$.who", "C"), ("[$, $.who]", "D")):
            want = canon_obs(observe(lambda: default_engine()(expr).evaluate(data=nesting_doc(inner_expr, inner_who), context=ctx()))[0])
            got = canon_obs(observe(lambda: yaql.eval(expr, nesting_doc(inner_expr, inner_who)))[0])
            if got != want:
                out.append(("re-entrant", "a nested yaql.eval changes what the outer call's `$` denotes",
                            {"outer": expr, "inner": [inner_expr, inner_who], "observed": repr(got)[:500], "required": repr(want)[:500]}))
    # (b) deterministic two-thread schedules: A pauses inside its call, B runs completely, A resumes
    routes = {
        "yaql.eval": lambda who: (lambda: yaql.eval("$", docs[who]())),
        "engine+own context": lambda who: (lambda: default_engine()("$").evaluate(data=docs[who](), context=ctx())),
    }
    shared_stmt = default_engine()("$")
    routes["one Statement object, own contexts"] = lambda who: (lambda: shared_stmt.evaluate(data=docs[who](), context=ctx()))
    for rname, route in routes.items():
        for point, nths in (("statement_call", (1,)), ("runner_call", (1, 2, 3, 4))):
            for nth in nths:
                for a, b in (("A", "B"), ("B", "A")):
                    ra, rb, reached = _Gate(point, nth).run(route(a), route(b))
                    for who, r in ((a, ra), (b, rb)):
                        want = _isolated("$", docs[who]())
                        if canon_obs(r) != want:
                            out.append(("two threads", "overlapping calls: a call returns another caller's document",
                                        {"route": rname, "thread_A_pauses_at": "%s #%d" % (point, nth), "gate_reached": reached,
                                         "caller": who, "observed": repr(canon_obs(r))[:500], "required": repr(want)[:500]}))
    # (c) free-running soak
    if soak and not out:
        old = sys.getswitchinterval()
        sys.setswitchinterval(1e-5)
        bad = []
        wants = {w: _isolated("$", docs[w]()) for w in docs}

        def worker(who):
            for _ in range(150):
                got = canon_obs(observe(lambda: yaql.eval("$", docs[who]()))[0])
                if got != wants[who]:
                    bad.append((who, repr(got)[:300]))
                    return
        try:
            ts = [threading.Thread(target=worker, args=(w,), daemon=True) for w in docs]
            for t in ts:
                t.start()
            for t in ts:
                t.join(60)
        finally:
            sys.setswitchinterval(old)
        if bad:
            out.append(("soak", "overlapping calls: a call returns another caller's document",
                        {"route": "yaql.eval, 4 free-running threads", "caller": bad[0][0], "observed": bad[0][1]}))
    return out


def oracle_yaql_eval(run):
    found = yaql_eval_findings()
    run.cov["evaluations"] += 120
    run.count("O:yaql.eval-scenarios-" + ("ok" if not found else "FAIL"))
    seen = set()
    for scen, what, details in found:
        if (scen, what) in seen:
            continue
        seen.add((scen, what))
        run.fail("violation", what, dict(details, kind="yaql_eval", scenario=scen,
                                         options={"convertTuplesToLists": True, "convertSetsToLists": False}))


# --------------------------------------------------------------------------
# options-object histories: one options mapping handed to several factories / create / copy / engine(expr, options)
# --------------------------------------------------------------------------
T2L, S2L = "yaql.convertTuplesToLists", "yaql.convertSetsToLists"
OPT_OPS = ["legacy_create", "create", "create_kw", "copy", "expr_options", "caller_mutates"]
OPT_DOC = ["dict", [[["str", "a"], ["list", [["int", 1], ["tuple", [["int", 2], ["list", [["int", 3]]]]], ["set", [["int", 4]]]]]],
                    [["str", "s"], ["set", [["int", 1]]]]]]


def effective(opts_snapshot, base=None, legacy=False):
    o = dict(base or {})
    o.update(opts_snapshot)
    if legacy:
        o[T2L] = False
    return bool(o.get(T2L, True)), bool(o.get(S2L, False))


def options_history_check(content, holder, ops):
    """content: the options the application asks for; holder: dict | frozendict | proxy (the ONE object handed around);
    ops: OPT_OPS names.  Returns the list of (what, details) failures."""
    import types
    from yaql import legacy
    live = dict(content)                      # the application's own dict
    obj = live if holder == "dict" else (utils.FrozenDict(live) if holder == "frozendict" else types.MappingProxyType(live))
    base_opts = {S2L: True}
    base = engine(None, True)                 # cached; its options are exactly base_opts
    made = []                                 # (engine or statement, expected (t2l, s2l), description)
    info = {"kind": "options_history", "content": content, "holder": holder, "ops": list(ops),
            "options": {"convertTuplesToLists": bool(content.get(T2L, True)), "convertSetsToLists": bool(content.get(S2L, False))}}

    def judge_all(when):
        for eng, stmt_of, want_opts, desc in made:
            for expr in ("$", "[1, [2, [3]], $.s]"):
                if desc.startswith("legacy") and expr != "$":
                    continue
                obs, exc, res = observe(lambda: stmt_of(expr).evaluate(data=build(OPT_DOC, {}), context=ctx()))
                want = fresh_obs(expr, OPT_DOC, want_opts[0], want_opts[1], "std_child")
                bad = census(res, *want_opts) if obs[0] == "val" else []
                if bad or canon_obs(obs) != want:
                    return ("an engine does not finalise according to the options it was given at creation",
                            dict(info, engine=desc, checked=when, expression=expr, options_in_force_should_be=list(want_opts),
                                 observed=repr(canon_obs(obs))[:500], required=repr(want)[:500], offending_nodes=bad[:6]))
        return None

    asked = dict(content)                     # what the application asked for: a copy the library never sees
    found = []
    for n, op in enumerate(ops):
        snap = dict(asked)
        try:
            if op == "legacy_create":
                e = legacy.YaqlFactory().create(obj)
                made.append((e, e, effective(snap, legacy=True), "legacy.YaqlFactory().create(options) #%d" % n))
            elif op == "create":
                e = yaql.YaqlFactory().create(obj)
                made.append((e, e, effective(snap), "YaqlFactory().create(options) #%d" % n))
            elif op == "create_kw":
                e = _factory.create(options=obj)
                made.append((e, e, effective(snap), "factory.create(options=options) #%d" % n))
            elif op == "copy":
                e = base.copy(obj)
                made.append((e, e, effective(snap, base_opts), "engine.copy(options) #%d" % n))
            elif op == "expr_options":
                stmts = {x: base(x, obj) for x in ("$", "[1, [2, [3]], $.s]")}     # parsed NOW, with the options as they are now
                made.append((base, stmts.__getitem__, effective(snap, base_opts), "engine(expr, options) #%d" % n))
            elif op == "caller_mutates":          # the application changes ITS dict afterwards: engines keep what they were given
                live[T2L] = not live.get(T2L, True)
                live[S2L] = not live.get(S2L, False)
                if holder != "frozendict":        # (a FrozenDict holder is a copy and does not follow)
                    asked[T2L], asked[S2L] = live[T2L], live[S2L]
        except Exception as ex:
            found.append(("handing an options mapping to %s raised %s" % (op, type(ex).__name__),
                          dict(info, failing_op=n, trace=traceback.format_exc()[-1200:])))
            break
        if dict(obj) != asked and not any(f[0].startswith("the caller") for f in found):
            found.append(("the caller's options mapping was modified by the library",
                          dict(info, failing_op=n, op=op, asked=dict(asked), now=dict(obj),
                               required="factories, create(), copy() and engine(expr, options) take a private copy of the options")))
        bad = judge_all("after op %d (%s)" % (n, op))
        if bad:
            found.append(bad)
            break
    return found


def oracle_options_objects(run, deep):
    rng = run.rng
    todo = []
    contents = [{}, {T2L: True}, {T2L: True, S2L: True}, {T2L: False, S2L: False}, {S2L: True}]
    for c in contents[:4] if not deep and run.quick else contents:
        todo.append((c, "dict", ["legacy_create", "create"]))
    todo += [({T2L: True}, "dict", ["create", "legacy_create", "create_kw"]),
             ({}, "dict", ["legacy_create", "copy", "expr_options"]),
             ({T2L: True, S2L: True}, "dict", ["create", "caller_mutates", "create", "legacy_create", "expr_options"]),
             ({T2L: True}, "frozendict", ["legacy_create", "create", "copy"]),
             ({}, "proxy", ["create", "legacy_create", "expr_options", "caller_mutates", "copy"])]
    for _ in range(run.n(6, 300) * (3 if deep else 1)):
        c = {}
        if rng.random() < 0.7:
            c[T2L] = rng.random() < 0.5
        if rng.random() < 0.7:
            c[S2L] = rng.random() < 0.5
        if rng.random() < 0.3:
            c[rng.choice(["yaql.limitIterators", "yaql.memoryQuota", "host.option"])] = 100000
        todo.append((c, rng.choice(["dict", "dict", "frozendict", "proxy"]), [rng.choice(OPT_OPS) for _ in range(rng.randrange(2, 6))]))
    seen = set()
    for c, holder, ops in todo:
        found = options_history_check(c, holder, ops)
        run.cov["evaluations"] += 2 * len(ops)
        run.count("O:options-history-" + ("ok" if not found else "FAIL"))
        for bad in found:
            if bad[0] not in seen:
                seen.add(bad[0])
                run.fail("violation", bad[0], bad[1])


# --------------------------------------------------------------------------
# every YaqlInterface entry point, with and without a bound receiver
# --------------------------------------------------------------------------
_L1 = [1, (2, 3), "a", 1]
_L2 = [[1, 2], [3], []]
_L3 = [3, 1, 2]
_D1 = {"a": [1, (2,)], "b": {"c": {1}}, 3: None}
_S1, _S2 = {1, 2}, {2, "x"}
# (name, 'm' method on a receiver | 'f' function, receiver, args, the same thing as an expression over $1 (receiver) $2 $3)
IFACE_PROBES = [
    ("toSet", "m", _L1, [], "$1.toSet()"), ("toSet", "m", _L3, [], "$1.toSet()"),
    ("union", "m", _S1, [_S2], "$1.union($2)"), ("intersect", "m", _S1, [_S2], "$1.intersect($2)"),
    ("difference", "m", _S1, [_S2], "$1.difference($2)"), ("symmetricDifference", "m", _S1, [_S2], "$1.symmetricDifference($2)"),
    ("keys", "m", _D1, [], "$1.keys()"), ("values", "m", _D1, [], "$1.values()"), ("items", "m", _D1, [], "$1.items()"),
    ("set", "m", _D1, ["k", (1, [2])], "$1.set($2, $3)"), ("delete", "m", _D1, ["a"], "$1.delete($2)"),
    ("get", "m", _D1, ["b"], "$1.get($2)"), ("get", "m", _D1, ["a"], "$1.get($2)"),
    ("toList", "m", _L1, [], "$1.toList()"), ("distinct", "m", _L1, [], "$1.distinct()"), ("reverse", "m", _L2, [], "$1.reverse()"),
    ("zip", "m", _L3, [_L2], "$1.zip($2)"), ("flatten", "m", _L2, [], "$1.flatten()"), ("enumerate", "m", _L1, [], "$1.enumerate()"),
    ("skip", "m", _L2, [1], "$1.skip($2)"), ("take", "m", _L2, [2], "$1.take($2)"), ("memorize", "m", _L2, [], "$1.memorize()"),
    ("len", "m", _L1, [], "$1.len()"), ("first", "m", _L2, [], "$1.first()"), ("last", "m", _L1[:2], [], "$1.last()"),
    ("splitAt", "m", _L3, [1], "$1.splitAt($2)"), ("insert", "m", _L3, [1, (9,)], "$1.insert($2, $3)"),
    ("where", "m", _L3, [lambda i: i > 1], "$1.where($ > 1)"),
    ("select", "m", _L3, [lambda i: (i, (i, {i}))], "$1.select([$, [$, set($)]])"),
    ("select", "m", _L3, [lambda i: {"v": (i,)}], "$1.select({v => [$]})"),
    ("orderBy", "m", _L3, [lambda i: i], "$1.orderBy($)"),
    ("toDict", "m", _L3, [lambda t: t, lambda t: (t, (t,))], "$1.toDict($, [$, [$]])"),
    ("groupBy", "m", _L3, [lambda t: t > 1], "$1.groupBy($ > 1)"),
    ("list", "f", None, [_L1, 5], "list($2, $3)"), ("list", "f", None, [_L2], "list($2)"),
    ("set", "f", None, [1, "a", (2, 3)], "set($2, $3, $4)"), ("dict", "f", None, [[["a", [1, (2,)]], ["b", {1}]]], "dict($2)"),
    ("range", "f", None, [3], "range($2)"), ("coalesce", "f", None, [_D1], "coalesce($2)"), ("coalesce", "f", None, [_S1], "coalesce($2)"),
    ("toSet", "f", None, [_L3], "toSet($2)"), ("len", "f", None, [_L1], "len($2)"),
]


def iface_findings():
    """what host code receives from every YaqlInterface route = what the equivalent expression returns (plain data)"""
    from yaql.language import specs as S
    out = []
    for (t2l, s2l) in OPTS:
        e = eng_for(t2l, s2l)
        for name, kind, recv, args, expr in IFACE_PROBES:
            vals = [recv] + list(args)
            refc = ctx()
            for i, v in enumerate(vals):
                if not callable(v):
                    refc["$%d" % (i + 1)] = utils.convert_input_data(v)
            want = canon_obs(observe(lambda: e(expr).evaluate(context=refc))[0])

            recv_y = utils.convert_input_data(recv)      # on(receiver) takes the receiver as it is: hand it a yaql value

            def unbound(yi):
                return getattr(yi.on(recv_y), name)(*args) if kind == "m" else getattr(yi, name)(*args)
            routes = [("YaqlInterface(ctx, engine)" + (".on(r).m(...)" if kind == "m" else ".f(...)"),
                       lambda: observe(lambda: unbound(yaql_interface.YaqlInterface(ctx(), e)))[0:3:2])]
            rec = []

            def host_call(action, expr_text, receiver=None):
                c = ctx()

                def host_f(yaql_interface):
                    rec.append(observe(lambda: action(yaql_interface))[0:3:2])
                    return 0

                @S.method
                def host_m(receiver, yaql_interface):
                    rec.append(observe(lambda: action(yaql_interface))[0:3:2])
                    return 0
                c.register_function(host_f, name="hostF")
                c.register_function(host_m, name="hostM")
                c["$1"] = utils.convert_input_data(receiver)
                del rec[:]
                try:
                    e(expr_text).evaluate(context=c)
                except Exception as ex:
                    return (("other", "the host function could not be called: %s" % type(ex).__name__), None)
                return rec[0] if rec else (("other", "host function not reached"), None)
            routes.append(("interface injected into a host FUNCTION", lambda: host_call(unbound, "hostF()")))
            if kind == "m":
                routes.append(("interface injected into a host METHOD, rebound with on(r)", lambda: host_call(unbound, "$1.hostM()", [0])))
                routes.append(("interface injected into a host METHOD, call on the bound receiver",
                               lambda: host_call(lambda yi: getattr(yi, name)(*args), "$1.hostM()", recv)))
            if not any(callable(a) for a in args):
                routes.append(("YaqlInterface(ctx, engine)(expression, args...)",
                               lambda: observe(lambda: yaql_interface.YaqlInterface(ctx(), e)(expr, *vals))[0:3:2]))
                routes.append(("interface of a host METHOD called with an expression",
                               lambda: host_call(lambda yi: yi(expr, *vals), "$1.hostM()", [0])))
            for rname, route in routes:
                obs, res = route()
                bad = census(res, t2l, s2l) if obs[0] == "val" else []
                if obs[0] == "other" and obs[1].startswith("unprintable"):
                    bad = census(res, t2l, s2l) or [("$", obs[1])]
                if bad:
                    out.append(("host code receives non-plain data from a YaqlInterface route: %s" % bad[0][1],
                                {"route": rname, "probe": [name, kind, expr], "received": repr(res)[:400], "offending_nodes": bad[:6],
                                 "options": {"convertTuplesToLists": t2l, "convertSetsToLists": s2l},
                                 "required": "only dict, list, tuple iff convertTuplesToLists is off, set iff convertSetsToLists is off, scalars"}))
                elif canon_obs(obs) != want:
                    out.append(("a YaqlInterface route returns something else than the equivalent expression",
                                {"route": rname, "probe": [name, kind, expr], "observed": repr(canon_obs(obs))[:500], "required": repr(want)[:500],
                                 "options": {"convertTuplesToLists": t2l, "convertSetsToLists": s2l}}))
    return out


def oracle_iface_routes(run):
    found = iface_findings()
    run.cov["evaluations"] += 4 * 5 * len(IFACE_PROBES)
    run.count("O:iface-routes-" + ("ok" if not found else "FAIL"))
    seen = set()
    for what, d in found:
        key = (what, d["route"])
        if key in seen or len(seen) >= 8:
            continue
        seen.add(key)
        run.fail("violation", what, dict(d, kind="iface_route"))


# --------------------------------------------------------------------------
# histories: statement reuse across contexts, engines created and dropped in sequence
# --------------------------------------------------------------------------
CTX_KINDS = ["std", "std_child", "std_grandchild", "bare", "sandbox", "custom_fin"]
STD_KINDS = ("std", "std_child", "std_grandchild")


@specs.name("#finalize")
def _tagging_finalizer(obj):
    return ["custom-finalizer", type(obj).__name__]


def make_ctx(kind):
    if kind == "std":
        return yaql.create_context()
    if kind == "std_child":
        return ctx()
    if kind == "std_grandchild":
        return ctx().create_child_context()
    if kind == "bare":                      # a host's own context: no library, no '#finalize'
        return contexts.Context()
    if kind == "sandbox":                   # library registered by hand, still no '#finalize'
        c = contexts.Context(convention=conventions.CamelCaseConvention())
        std_system.register_fallbacks(c)
        c = c.create_child_context()
        std_system.register(c, False)
        std_common.register(c)
        std_boolean.register(c)
        std_strings.register(c)
        std_math.register(c)
        std_collections.register(c, False)
        queries.register(c, True)
        std_branching.register(c)
        return c
    if kind == "custom_fin":
        return yaql.create_context(finalizer=_tagging_finalizer)
    raise ValueError(kind)


def canon_tree(tr):
    """set elements in a fixed order, so that two observations can be compared with =="""
    if not isinstance(tr, tuple):
        return tr
    k = tr[0]
    if k in SCALARS:
        return tr
    if k == "VView":
        return (k, tr[1], [(canon_tree(a), canon_tree(b)) for a, b in tr[2]])
    if k in ("VFDict", "VDict"):
        return (k, [(canon_tree(a), canon_tree(b)) for a, b in tr[1]])
    xs = [canon_tree(x) for x in tr[1]]
    if k in ("VSet", "VFSet"):
        xs = sorted(xs, key=repr)
    return (k, xs)


def canon_obs(o):
    return ("val", canon_tree(o[1])) if o[0] == "val" else tuple(o)


HIST_DOC = ["dict", [[["str", "a"], ["list", [["int", 1], ["tuple", [["int", 2], ["int", 3]]], ["set", [["int", 4]]]]]],
                     [["str", "b"], ["dict", [[["str", "c"], ["null"]], [["str", "d"], ["iter", "gen", []]]]]],
                     [["str", "s"], ["set", [["int", 1], ["int", 2]]]]]]
HIST_DOC2 = ["dict", [[["str", "a"], ["tuple", [["str", "x"]]]], [["str", "b"], ["dict", []]], [["str", "s"], ["set", []]]]]
HIST_EXPRS = ["$", "$.a", "$.b", "[$.s, $.a]", "set(1, 2)", "dict(a => set(1, 2), b => [1, 2])", "[1, 2].select([$, set($)])",
              "dict(a => 1).items()", "dict(a => 1).keys()", "{a=>[1]}.values()", "[3, 1, 2].orderBy($)",
              "[1, 2, 3].where($ > 1)", "[[1, 2]]", "{a=>{b=>set(1)}}", "[1,2].toSet()", "$.b.items()"]
FIXED_HISTORIES = [["bare"], ["sandbox"], ["custom_fin"], ["std"], ["std_child"], ["bare", "std_child"], ["std", "bare"],
                   ["sandbox", "std", "bare"], ["custom_fin", "bare"], ["bare", "custom_fin"]]
FINALS = ["std", "std_child", "bare"]

_fresh_memo = {}


def fresh_obs(expr, data, t2l, s2l, kind):
    """what a freshly parsed statement gives on a context of this kind (deterministic: memoised)"""
    key = (expr, json.dumps(data), t2l, s2l, kind)
    if key not in _fresh_memo:
        e = eng_for(t2l, s2l)
        kw = {"data": build(data, {})} if data is not None else {}
        _fresh_memo[key] = canon_obs(observe(lambda: e(expr).evaluate(context=make_ctx(kind), **kw))[0])
    return _fresh_memo[key]


def history_check(run, expr, datas, t2l, s2l, steps):
    """One Statement object along `steps` (context kinds); datas[i % len] is the data of step i.
    Returns the failure data of the first step at which the property fails, or None."""
    e = eng_for(t2l, s2l)
    stmt = e(expr)
    base = {"kind": "history", "origin": {"expr": expr, "datas": datas}, "steps": list(steps),
            "options": {"convertTuplesToLists": t2l, "convertSetsToLists": s2l}}
    for i, kind in enumerate(steps):
        data = datas[i % len(datas)]
        kw = {"data": build(data, {})} if data is not None else {}
        obs, exc, res = observe(lambda: stmt.evaluate(context=make_ctx(kind), **kw))
        if run is not None:
            run.cov["evaluations"] += 1
            run.count("O:history-step-%s-%s" % (kind, obs[0]))
        want = fresh_obs(expr, data, t2l, s2l, kind)
        if kind in STD_KINDS and obs[0] == "val":
            bad = census(res, t2l, s2l)
            if bad:
                return ("result of finalisation is not plain data: it contains a %s" % bad[0][1],
                        dict(base, failing_step=i, context_kind=kind, offending_nodes=bad[:10], result=repr(res)[:600],
                             fresh_statement_gives=repr(want)[:600],
                             required="a statement evaluated on a standard context returns finalised plain data whatever "
                                      "it was evaluated on before"))
        if canon_obs(obs) != want:
            return ("a reused Statement object does not behave like a freshly parsed one",
                    dict(base, failing_step=i, context_kind=kind, observed=repr(canon_obs(obs))[:800],
                         fresh_statement_gives=repr(want)[:800],
                         trace="".join(traceback.format_exception(type(exc), exc, exc.__traceback__))[-1200:] if exc else None,
                         required="the result of statement.evaluate depends on the context, the data and the engine "
                                  "options only, not on earlier evaluations of the same statement object"))
    return None


def oracle_histories(run, deep):
    rng = run.rng
    todo = []
    for (t2l, s2l) in OPTS:
        for expr in HIST_EXPRS:
            for pre in (FIXED_HISTORIES if expr in HIST_EXPRS[:8] or deep else FIXED_HISTORIES[:3]):
                for fin in FINALS[:2] if pre[-1] != "bare" else FINALS[:1]:
                    todo.append((expr, [HIST_DOC], t2l, s2l, pre + [fin]))
            todo.append((expr, [HIST_DOC, HIST_DOC2], t2l, s2l, ["std_child", "std_child", "bare", "std_child", "std"]))
    for _ in range(run.n(150, 3000) * (3 if deep else 1)):
        expr = rng.choice(HIST_EXPRS) if rng.random() < 0.4 else gen_expr(rng, rng.choice([1, 2, 2, 3]))
        datas = [gen_spec(rng, 2, idfree=True) for _ in range(rng.choice([1, 1, 2]))] if rng.random() < 0.6 else [HIST_DOC, HIST_DOC2]
        steps = [rng.choice(CTX_KINDS if rng.random() < 0.8 else ["std_child", "bare"]) for _ in range(rng.randrange(1, 5))]
        steps.append(rng.choice(["std", "std_child", "std_child", "std_grandchild", "bare", "sandbox"]))
        t2l, s2l = rng.choice(OPTS)
        todo.append((expr, datas, t2l, s2l, steps))
    reported = 0
    for expr, datas, t2l, s2l, steps in todo:
        bad = history_check(run, expr, datas, t2l, s2l, steps)
        run.count("O:history-" + ("ok" if bad is None else "FAIL"))
        if bad and reported < 40:
            reported += 1
            if reported == 1:
                bad = (bad[0], shrink_history(bad[1]) or bad[1])
            run.fail("violation", bad[0], bad[1])


def shrink_history(d):
    """drop steps while the history still fails"""
    o = d["options"]
    t2l, s2l = o["convertTuplesToLists"], o["convertSetsToLists"]
    steps, best = list(d["steps"][:d["failing_step"] + 1]), None
    datas = d["origin"]["datas"]
    if len(datas) > 1:
        return None          # the data of a step depends on its index
    i = 0
    while i < len(steps) - 1:
        cand = steps[:i] + steps[i + 1:]
        _fresh_memo.clear()
        r = history_check(None, d["origin"]["expr"], datas, t2l, s2l, cand)
        if r:
            steps, best = cand, r[1]
        else:
            i += 1
    return best


LIFE_EXPRS = ["set(1, 2)", "[1, [2, 3]]", "[[1], set(2)]", "{a => [set(1), [2]]}", "$"]
LIFE_DATA = ["list", [["set", [["int", 1]]], ["tuple", [["int", 2], ["list", [["int", 3]]]]]]]


def engine_sequence_check(run, seq):
    """seq: [(t2l, s2l, how)], how in create | copy | copy_of_copy.  Every engine is used and dropped
    before the next one is made (plus one that stays alive throughout)."""
    import gc
    seen_ids = set()
    keep = _factory.create(options={"yaql.convertTuplesToLists": False, "yaql.convertSetsToLists": True})
    base = _factory.create()
    for n, (t2l, s2l, how) in enumerate(seq):
        o = {"yaql.convertTuplesToLists": t2l, "yaql.convertSetsToLists": s2l}
        if how == "create":
            e = _factory.create(options=o)
        elif how == "copy":
            e = base.copy(o)
        else:
            e = base.copy({"yaql.convertTuplesToLists": not t2l}).copy(o)
        if run is not None and id(e) in seen_ids:
            run.count("O:engine-address-reused")
        seen_ids.add(id(e))
        for who, eng, (a, b) in (("new", e, (t2l, s2l)), ("kept-alive", keep, (False, True))):
            for expr in LIFE_EXPRS:
                obs, exc, res = observe(lambda: eng(expr).evaluate(data=build(LIFE_DATA, {}), context=ctx()))
                if run is not None:
                    run.cov["evaluations"] += 1
                    run.count("O:engine-lifecycle-" + obs[0])
                want = fresh_obs(expr, LIFE_DATA, a, b, "std_child")
                bad = census(res, a, b) if obs[0] == "val" else []
                if bad or canon_obs(obs) != want:
                    return ("an engine finalises with output options that are not its own"
                            if not bad else "result of finalisation is not plain data: it contains a %s" % bad[0][1],
                            {"kind": "engines", "sequence": [list(x) for x in seq[:n + 1]], "which_engine": who,
                             "origin": {"expr": expr, "data": LIFE_DATA},
                             "options": {"convertTuplesToLists": a, "convertSetsToLists": b},
                             "observed": repr(canon_obs(obs))[:600], "long_lived_engine_with_same_options_gives": repr(want)[:600],
                             "offending_nodes": bad[:10],
                             "required": "results follow the options of the engine that evaluated the statement, however many "
                                         "engines were created and dropped before"})
        del e
        if how == "create":
            gc.collect()
    return None


def oracle_engines(run, deep):
    rng = run.rng
    for r in range(run.n(3, 40) * (3 if deep else 1)):
        seq, prev = [], None
        for _ in range(24):
            o = rng.choice([x for x in OPTS if x != prev])
            prev = o
            seq.append((o[0], o[1], rng.choice(["copy", "copy", "copy", "copy_of_copy", "copy_of_copy", "create"] if r else ["copy"])))
        bad = engine_sequence_check(run, seq)
        run.count("O:engine-sequence-" + ("ok" if bad is None else "FAIL"))
        if bad:
            run.fail("violation", bad[0], bad[1])
            return


# --------------------------------------------------------------------------
# known findings, corpus, replay
# --------------------------------------------------------------------------
def classify(failure, known_entries):
    """F8: a TypeError from finalisation whose input has a dict key / kept-set element without a plain
    hashable form (tuple under convertTuplesToLists, FrozenDict, frozenset, set, iterator, view, ...)."""
    d = failure.data
    if d.get("error") != "TypeError" or not d.get("input_tree") or d.get("kind") not in ("KOut", "KDollar"):
        return None
    o = d["options"]
    src = d.get("mid_tree") if d.get("kind") == "KDollar" else d["input_tree"]
    if not src:
        return None
    if unhashable_after(from_jtree(src), o["convertTuplesToLists"], o["convertSetsToLists"]):
        for k in known_entries:
            if k.get("id") == "F8":
                return k.get("line", "F8")
    return None


def load_corpus():
    path = os.path.join(os.path.dirname(os.path.dirname(os.path.dirname(os.path.abspath(__file__)))), "corpus", "C10.json")
    if not os.path.exists(path):
        return []
    return json.load(open(path))


def replay(run, data):
    d = data["data"]
    o = d["options"]
    if isinstance(o, list):              # per-expression-options comparison
        t2l, s2l = o
        a = eval_expr(d["expr"], d.get("data"), t2l, s2l)[0]
        b = eval_expr(d["expr"], d.get("data"), t2l, s2l, per_expression_options=d["per_expression_options"])[0]
        return canon_obs(a) == canon_obs(b)
    t2l, s2l = o["convertTuplesToLists"], o["convertSetsToLists"]
    if d.get("kind") == "identity":
        c = ICase(d["origin"]["spec"], d["path"], t2l, s2l)
        return c.verdict() is None and not run.coq_mismatches(IHEADER, "icase", "icase_ok", [c.term()])
    if d.get("kind") == "limit":
        tin, obs, res = limit_case(d["origin"]["spec"], d["path"], t2l, s2l, d["limit"])
        if obs[0] == "val" and census(res, t2l, s2l):
            return False
        return not run.coq_mismatches(LHEADER, "lcase", "lcase_ok", [lcase_term(t2l, s2l, d["limit"], tin, obs)])
    if d.get("kind") == "options_history":
        return not options_history_check(d["content"], d["holder"], d["ops"])
    if d.get("kind") == "iface_route":
        return not [f for f in iface_findings() if f[1]["probe"] == d["probe"] and f[1]["route"] == d["route"]
                    and f[1]["options"] == d["options"]]
    if d.get("kind") == "yaql_eval":
        return not [f for f in yaql_eval_findings(soak=d.get("scenario") == "soak") if f[0] == d.get("scenario")]
    if d.get("kind") == "subclass":
        import core
        r2 = core.Run("C10", "quick", 0)
        try:
            oracle_subclasses(r2)
        finally:
            r2.cleanup()
        return not r2.failures
    if d.get("kind") == "history":
        return history_check(None, d["origin"]["expr"], d["origin"]["datas"], t2l, s2l, d["steps"]) is None
    if d.get("kind") == "engines":
        return engine_sequence_check(None, [tuple(x) for x in d["sequence"]]) is None
    if d.get("kind") == "roundtrip":
        return roundtrip_check(d["origin"]["spec"], d["path"], t2l, s2l) is None
    origin = d["origin"]
    c = make_case(d["kind"], d["path"], t2l, s2l, origin)
    if not isinstance(c, Case):
        return False
    if run.coq_mismatches(HEADER, "case", "case_ok", [c.term()]):
        return False
    verdict = judge(c)
    if verdict:
        # the model agrees with the implementation and the property still fails: only the recorded
        # open finding (F8) is allowed to do that
        import core
        f = core.Failure("violation", verdict[0], {**c.data(), **verdict[1]})
        known = [k for k in core.load_known() if k.get("property") == "C10" and k.get("status") == "open"]
        label = classify(f, known)
        if not label:
            return False
        core.log("KNOWN-FINDING: property=C10 %s (%s)" % (label, verdict[0]))
    return True
