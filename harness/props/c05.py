"""C05 - overload resolution follows the documented resolution rules.

C: random overload families (exec()ed python functions with random signatures) registered over chains of
1-4 contexts whose enumeration order is fixed by the harness; calls with probe arguments that log
evaluation.  Observation (payload tag or error class, bound argument tuple, evaluation log) is compared
with Model/Resolution.call evaluated inside Coq.  O: the same observation against an independent python
implementation of the documented rules (resolution_common.spec_resolve)."""
import itertools

import gal
import gen_registry
import registry_corpus as rcorp
import resolution_common as rc
import yaql
from yaql.language import expressions, specs, utils, yaqltypes

GEN = ["registry"]
RULE = ("[families are registered under python-style names (f, my_func, to_list_, ...) in contexts with the CamelCase convention and called by the "
        "converted name or by the python-style name with use_convention=True; 30% of the layers hold several parameter specifications of ONE python "
        "callable (clone + set_parameter); parameter types include the combinators discovered in yaqltypes (AnyOf, Chain, NotOfType) as type "
        "instances shared within the family; 25% of the calls pass host objects with hostile comparison / truthiness protocols] "
        "random families: 1-4 context layers (20% exclusive; plain, MultiContext over 2-3 members, LinkedContext) x 0-4 overloads each, 25% of "
        "them with a registration history on the same decorated callable (other convention first, strip_hidden_parameters / insert_parameter / "
        "clone on derived definitions; the model is fed with history-free definitions); signatures with 0-4 visible "
        "parameters, hidden engine/context anywhere, defaults, *args, **kwargs, keyword-only (multi-word names, explicit alias=), AnyOf, lazy Lambda/"
        "YaqlExpression/MappingRule, Constant, types from object + 6-class lattice with a diamond, function/method/extension, "
        "no_kwargs; calls: positional/skipped/keyword (name => v)/python kwargs, receiver or not, probe/constant/raw arguments, "
        "made through the API and - where the grammar can spell them - also as YAQL text through the real parser; "
        "non-trivial = at least 3 of the features {hidden, lazy, star, starstar, kwonly, exclusive, layers, receiver, "
        "skipped, keyword, pykwargs}; distinct = distinct (family, call)")
TRUSTED = ["Model/Resolution.v is a hand transcription of runner.call/choose_overload/translate_args, "
           "specs.map_args/get_delegate, yaqltypes check/is_specialization_of and collect_functions; tied by this correspondence",
           "harness/resolution_common.py: probe expressions, the ordered Context subclass, canonicalisation of what payloads receive, "
           "and the independent python implementation of the documented rules used by O"]
ASSUMPTIONS = ["parameter types are PythonType over single classes, Lambda(), YaqlExpression(), MappingRule(), Constant(False), Engine(), "
               "Context(); aggregated smart-types (AnyOf/Chain/NotOfType), Super/Delegate/YaqlInterface/Receiver, Lambda(method=True) "
               "and the typed constant kinds (StringConstant, Keyword, ...) are not modelled",
               "smart-type check() has no side effects and argument expressions are only evaluated through Expression.__call__",
               "within one layer FunctionDefinition identities are unique and visible parameter aliases of one definition are distinct"]
EXPLANATION = ("proof that the model's choose_overload equals the documented rules stated on sets (and evaluates each eager "
               "argument once) + differential check of the model against the real runner on random overload families")
ALLOWED_AXIOMS = []


def pairs(run, n, pid="C05"):
    for fam, call in rc.load_corpus(pid):
        yield fam, call
    for i in range(n):
        fam = rc.gen_family(run.rng)
        for _ in range(2):
            yield fam, rc.gen_call(run.rng, fam)


def correspondence(run):
    rc.correspond(run, pairs(run, run.n(2500, 25000)), rc.describe, "C05")
    stdlib_correspondence(run)


# ---- the same correspondence on REAL standard-library definitions -------------------------------------
SHEADER = "From YV Require Import Model.Resolution Gen.Registry."


class _ValueProbe(expressions.Expression):
    def __init__(self, pid, cls, log):
        self.pid, self.cls, self.log = pid, cls, log
        self.uses_receiver = False

    def __call__(self, receiver, context, engine):
        self.log.append(self.pid)
        return rcorp.make(self.cls)


def _accepted_classes(model, p):
    t = p.value_type
    return [c for c in sorted(rcorp.CLASSES) if c != rcorp.KEYWORD_CLASS and model._check(t, rcorp.make(c))]


def stdlib_case(rng, model, by_name, index):
    """one call of a standard-library name with typed arguments -> (json description, scase term) or None"""
    name = rng.choice(by_name["multi"] if rng.random() < 0.7 else by_name["all"])
    layers = by_name["layers"][name]
    cands = [fd for l in layers for fd in l]
    target = rng.choice(cands)
    vis = sorted([p for k, p in target.parameters.items() if p.position is not None and k != "*"
                  and not isinstance(p.value_type, yaqltypes.HiddenParameterType)], key=lambda p: p.position)
    with_recv = target.is_method and (not target.is_function or rng.random() < 0.5) and bool(vis)
    ids = itertools.count(1)
    log = []

    def pick(p):
        acc = _accepted_classes(model, p) if p is not None else []
        if acc and rng.random() < 0.75:
            return rng.choice(acc)
        return rng.choice(sorted(rcorp.CLASSES))

    def arg_for(p):
        c = pick(p)
        if c == rcorp.KEYWORD_CLASS or rng.random() < 0.3:
            if c == rcorp.KEYWORD_CLASS:
                return ["const", c], expressions.KeywordConstant(rcorp.make(c))
            return ["const", c], expressions.Constant(rcorp.make(c))
        i = next(ids)
        return ["expr", i, c], _ValueProbe(i, c, log)

    recv_json, receiver = None, utils.NO_VALUE
    rest = vis
    if with_recv:
        c = pick(vis[0])
        if c == rcorp.KEYWORD_CLASS:
            c = 3
        recv_json, receiver = c, rcorp.make(c)
        rest = vis[1:]
    r = rng.random()
    npos = len(rest) if r < 0.6 else rng.randrange(len(rest) + 1) if r < 0.85 else len(rest) + 1
    jargs, pargs = [], []
    for i in range(npos):
        if rng.random() < 0.06:
            jargs.append(["skip"])
            pargs.append(utils.NO_VALUE)
            continue
        j, o = arg_for(rest[i] if i < len(rest) else target.parameters.get("*"))
        jargs.append(j)
        pargs.append(o)
    if not target.no_kwargs:
        for p in rest[npos:]:
            if rng.random() < 0.6:
                j, o = arg_for(p)
                kn = p.alias or p.name
                jargs.append(["map", kn, j])
                pargs.append(expressions.MappingRuleExpression(expressions.KeywordConstant(kn), o))
    # stub the payloads so that the observation is WHICH definition ran
    saved = [(fd, fd.payload) for fd in cands]
    for fd in cands:
        fd.payload = (lambda i: (lambda *a, **k: ("ran", i)))(index[id(fd)])
    try:
        try:
            res = model.ctx(name, model.engine, receiver)(*pargs)
            obs = ["chosen", res[1]] if isinstance(res, tuple) and res and res[0] == "ran" else ["foreign", repr(type(res))]
        except Exception as e:
            en = rc.ERR.get((type(e), with_recv))
            obs = ["err", en] if en else ["foreign", type(e).__name__]
    finally:
        for fd, pl in saved:
            fd.payload = pl

    def aterm(j):
        if j[0] == "const":
            return "(AConst (VObj %d))" % j[1]
        if j[0] == "expr":
            return "(AExpr %s (VObj %d))" % (gal.z(j[1]), j[2])
        if j[0] == "skip":
            return "ANoValue"
        inner = j[2]
        if inner[0] == "const":
            return "(AMapC %s (VObj %d))" % (gal.z(model.ncode(j[1])), inner[1])
        return "(AMapE %s %s (VObj %d))" % (gal.z(model.ncode(j[1])), gal.z(inner[1]), inner[2])

    args_t = (["(ARaw (VObj %d))" % recv_json] if with_recv else []) + [aterm(j) for j in jargs]
    desc = {"name": name, "receiver_class": recv_json, "args": jargs, "observed": obs, "log": list(log),
            "candidates": [index[id(fd)] for fd in cands]}
    if obs[0] == "foreign":
        return desc, None
    term = "{| s_layers := %s; s_recv := %s; s_args := %s; s_kwargs := []; s_chosen := %s; s_err := %s; s_log := %s |}" % (
        gal.lst(gal.pair(gal.natlist(index[id(fd)] for fd in l), "false") for l in layers), gal.boolean(with_recv),
        gal.lst(args_t), "(Some %s)" % gal.z(obs[1]) if obs[0] == "chosen" else "None",
        obs[1] if obs[0] == "err" else "ENoMatch", gal.zlist(log))
    return desc, term


def stdlib_setup():
    model = gen_registry.Model()
    index = {id(fd): i for i, (fd, _) in enumerate(model.defs)}
    nlayers = max(l for _, l in model.defs) + 1
    layers = {}
    for fd, l in model.defs:
        layers.setdefault(fd.name, [[] for _ in range(nlayers)])[l].append(fd)
    names = sorted(layers)
    by_name = {"layers": layers, "all": names, "multi": [n for n in names if sum(len(l) for l in layers[n]) > 1]}
    return model, by_name, index


def stdlib_correspondence(run):
    model, by_name, index = stdlib_setup()
    cases, meta = [], []
    for _ in range(run.n(1500, 20000)):
        desc, term = stdlib_case(run.rng, model, by_name, index)
        run.case(("stdlib", desc["name"], desc["receiver_class"], desc["args"]), nontrivial=len(desc["candidates"]) > 1)
        run.count("stdlib:" + (desc["observed"][1] if desc["observed"][0] == "err" else desc["observed"][0]))
        if term is None:
            run.fail("violation", "resolving a standard-library call raised an exception outside the documented error set",
                     {"stdlib": desc})
            continue
        cases.append(term)
        meta.append(desc)
    bad = run.coq_mismatches(SHEADER, "scase", "(scase_ok reg_sub reg_fdefs)", cases, shard=300)
    for i in bad[:10]:
        run.fail("mismatch", "Model/Resolution.v fed with the registry rows and runner.py disagree on a standard-library call",
                 {"stdlib": meta[i]})


def oracle(run, deep):
    helper_oracle(run)
    n = run.n(3000, 40000) * (3 if deep else 1)
    for i in range(n):
        fam = rc.gen_family(run.rng) if i % 3 else rc.gen_family_dense(run.rng)
        census = []
        try:
            ctx, _ = rc.build_chain(fam, census)
        except rc.BadFamily:
            continue
        shared = rc.shared_parameters(census)
        if shared:
            run.fail("violation", rc.SHARED_WHAT, {"family": fam, "shared_parameter_objects": shared[:6]})
            continue
        for _ in range(2):
            call = rc.gen_call(run.rng, fam) if i % 3 else rc.gen_call_dense(run.rng, fam)
            obs, log = rc.run_call(fam, call, ctx)
            sp = rc.spec_resolve(fam, call)
            run.count("oracle:" + (obs[1] if obs[0] == "err" else obs[0]))
            if [obs, log] != [sp[0], sp[1]]:
                run.fail("violation", rc.describe(obs, log, sp),
                         {"family": fam, "call": call, "observed": obs, "log": log,
                          "required_by_documented_rules": sp[0], "required_log": sp[1]})


# ---- overrides that call their base through injected helpers (yaqltypes.Super / Delegate) ---------------------
def _base_fun(fid, kind, tag, nullable):
    return {"fid": fid, "pos": [["a", ["T", tag, nullable], None]], "star": None, "kwonly": [], "starstar": None,
            "kind": kind, "nokw": False}


def helper_case(rng):
    """a base chain (1-2 layers of methods / functions / extension methods of one name), an override on top that calls
    its base through Super(method=None|True|False, with_context, with_name) or Delegate(name, method, with_context),
    invoked in function or method syntax.  -> (description, observed, expected)"""
    from yaql.language import contexts, exceptions
    eng = rc.engine()
    nlayers = rng.choice([1, 1, 2])
    fid = itertools.count(1)
    chain = []
    for _ in range(nlayers):
        funs = [_base_fun(next(fid), rng.choice(["method", "function", "extension"]), rng.choice([0, 0, 1, 2, 3, 4]), rng.random() < 0.3)
                for _ in range(rng.choice([1, 2, 2, 3]))]
        chain.append({"excl": False, "funs": funs})
    helper = rng.choice(["super", "super", "delegate"])
    method = rng.choice([None, True, False]) if helper == "super" else rng.choice([True, False])
    with_context = rng.random() < 0.3
    with_name = helper == "super" and rng.random() < 0.25
    pass_obj = rng.random() < 0.5
    okind = rng.choice(["extension", "extension", "method", "function"])
    syntax = rng.choice(["method", "function"])
    value = rng.choice([["obj", 4], ["obj", 5], ["obj", 2], ["obj", 6], ["int", 1]])
    name, dname = "describe", "other"

    # the real thing
    ctx = contexts.Context()
    for layer in reversed(chain):
        ctx = ctx.create_child_context()
        for f in layer["funs"]:
            for nm in (name, dname):
                payload = (lambda t: (lambda a: ["base", t]))(f["fid"])
                specs.parameter("a", yaqltypes.PythonType(rc.CLASSES[f["pos"][0][1][1]], f["pos"][0][1][2]))(payload)
                if f["kind"] == "method":
                    specs.method(payload)
                elif f["kind"] == "extension":
                    specs.extension_method(payload)
                ctx.register_function(payload, name=nm)
    if helper == "super":
        htype = yaqltypes.Super(with_context=with_context, method=method, with_name=with_name)
    else:
        htype = yaqltypes.Delegate(dname, with_context=with_context, method=method)
    base_has_recv = {"holder": None}

    def override(obj, base, context):
        lead = []
        if with_name:
            lead.append(name)
        if method is True:
            lead.append(obj)
        if with_context:
            lead.append(context.create_child_context())
        try:
            return ["override", base(*(lead + ([obj] if pass_obj else [])))]
        except exceptions.YaqlException as e:
            return ["override", ["exc", type(e).__name__]]
    specs.inject("base", htype)(override)
    specs.parameter("obj", yaqltypes.PythonType(object, True))(override)
    if okind == "method":
        specs.method(override)
    elif okind == "extension":
        specs.extension_method(override)
    top = ctx.create_child_context()
    top.register_function(override, name=name)
    v = rc.py_value(value)
    try:
        if syntax == "method":
            observed = top(name, eng, v)()
        else:
            observed = top(name, eng)(v)
    except exceptions.YaqlException as e:
        observed = ["exc", type(e).__name__]

    # the rules
    ofun = {"fid": 99, "pos": [["obj", ["T", 0, True], None], ["base", ["H"], None], ["context", ["H"], None]], "star": None,
            "kwonly": [], "starstar": None, "kind": okind, "nokw": False}
    outer_call = {"recv": value if syntax == "method" else None, "args": [] if syntax == "method" else [["raw", value]], "kwargs": []}
    flav = lambda err, recv: {("EUnknown", False): "NoFunctionRegisteredException", ("EUnknown", True): "NoMethodRegisteredException",
                              ("ENoMatch", False): "NoMatchingFunctionException", ("ENoMatch", True): "NoMatchingMethodException",
                              ("EAmbiguous", False): "AmbiguousFunctionException", ("EAmbiguous", True): "AmbiguousMethodException"}[(err, recv)]

    def as_result(sp, recv):
        return ["base", sp[1]] if sp[0] == "chosen" else ["exc", flav(sp[1], recv)]
    outer = rc.spec_resolve({"chain": [{"excl": False, "funs": [ofun]}] + chain}, outer_call)[0]
    if outer[0] == "chosen" and outer[1] == 99:
        if method is True:
            recv = True
        elif method is False:
            recv = False
        else:
            recv = syntax == "method"                    # Super(method=None): the kind (and receiver) of the call being served
        inner_call = {"recv": value if recv else None, "args": [["raw", value]] if pass_obj else [], "kwargs": []}
        expected = ["override", as_result(rc.spec_resolve({"chain": chain}, inner_call)[0], recv)]
    else:
        expected = as_result(outer, syntax == "method")
    desc = {"base_chain": chain, "helper": helper, "method": method, "with_context": with_context, "with_name": with_name,
            "override_passes_obj_again": pass_obj, "override_kind": okind, "call_syntax": syntax, "value": value}
    return desc, observed, expected


def helper_oracle(run):
    for _ in range(run.n(600, 8000)):
        desc, observed, expected = helper_case(run.rng)
        run.case(("helper", repr(desc)), nontrivial=True)
        run.count("helpers:" + desc["helper"])
        if observed != expected:
            run.fail("violation", "a base call made through an injected helper (Super / Delegate) does not resolve with the call kind and "
                                  "receiver the helper declares",
                     {"helper_case": desc, "observed": observed, "required_by_documented_rules": expected})
            return


def replay(run, data):
    d = data["data"]
    if "helper_case" in d:
        before = len(run.failures)
        helper_oracle(run)
        return len(run.failures) == before
    if "stdlib" in d:
        return False
    census = []
    ctx, _ = rc.build_chain(d["family"], census)
    if rc.shared_parameters(census):
        return False
    if "call" not in d:
        return True
    obs, log = rc.run_call(d["family"], d["call"], ctx)
    sp = rc.spec_resolve(d["family"], d["call"])
    return [obs, log] == [sp[0], sp[1]]
