"""C05 - overload resolution follows the documented resolution rules.

C: random overload families (exec()ed python functions with random signatures) registered over chains of
1-4 contexts whose enumeration order is fixed by the harness; calls with probe arguments that log
evaluation.  Observation (payload tag or error class, bound argument tuple, evaluation log) is compared
with Model/Resolution.call evaluated inside Coq.  O: the same observation against an independent python
implementation of the documented rules (resolution_common.spec_resolve)."""
import resolution_common as rc

GEN = []
RULE = ("random families: 1-4 context layers (20% exclusive) x 0-4 overloads each; signatures with 0-4 visible "
        "parameters, hidden engine/context anywhere, defaults, *args, **kwargs, keyword-only (multi-word names, explicit alias=), AnyOf, lazy Lambda/"
        "YaqlExpression/MappingRule, Constant, types from object + 6-class lattice with a diamond, function/method/extension, "
        "no_kwargs; calls: positional/skipped/keyword (name => v)/python kwargs, receiver or not, probe/constant/raw arguments, "
        "made through the API and - where the grammar can spell them - also as YAQL text through the real parser; "
        "non-trivial = at least 3 of the features {hidden, lazy, star, starstar, kwonly, exclusive, layers, receiver, "
        "skipped, keyword, pykwargs}; distinct = distinct (family, call)")
TRUSTED = ["Model/Resolution.v is a hand transcription of runner.call/choose_overload/translate_args, "
           "specs.map_args/get_delegate, yaqltypes check/is_specialization_of and collect_functions; tied by this correspondence",
           "harness/resolution_common.py: probe expressions, the ordered Context subclass, canonicalisation of what payloads receive, "
           "and the independent python implementation of the documented rules used by O"]
ASSUMPTIONS = ["parameter types are PythonType over single classes, Lambda(), YaqlExpression(), MappingRule(), Constant(False), Engine(), "
               "Context(); aggregated smart-types (AnyOf/Chain/NotOfType), Super/Delegate/YaqlInterface/Receiver, Lambda(method=True) "
               "and the typed constant kinds (StringConstant, Keyword, ...) are not modelled",
               "smart-type check() has no side effects and argument expressions are only evaluated through Expression.__call__",
               "within one layer FunctionDefinition identities are unique and visible parameter aliases of one definition are distinct"]
EXPLANATION = ("proof that the model's choose_overload equals the documented rules stated on sets (and evaluates each eager "
               "argument once) + differential check of the model against the real runner on random overload families")
ALLOWED_AXIOMS = []


def pairs(run, n, pid="C05"):
    for fam, call in rc.load_corpus(pid):
        yield fam, call
    for i in range(n):
        fam = rc.gen_family(run.rng)
        for _ in range(2):
            yield fam, rc.gen_call(run.rng, fam)


def correspondence(run):
    rc.correspond(run, pairs(run, run.n(2500, 25000)), rc.describe, "C05")


def oracle(run, deep):
    n = run.n(3000, 40000) * (3 if deep else 1)
    for i in range(n):
        fam = rc.gen_family(run.rng) if i % 3 else rc.gen_family_dense(run.rng)
        try:
            ctx, _ = rc.build_chain(fam)
        except rc.BadFamily:
            continue
        for _ in range(2):
            call = rc.gen_call(run.rng, fam) if i % 3 else rc.gen_call_dense(run.rng, fam)
            obs, log = rc.run_call(fam, call, ctx)
            sp = rc.spec_resolve(fam, call)
            run.count("oracle:" + (obs[1] if obs[0] == "err" else obs[0]))
            if [obs, log] != [sp[0], sp[1]]:
                run.fail("violation", rc.describe(obs, log, sp),
                         {"family": fam, "call": call, "observed": obs, "log": log,
                          "required_by_documented_rules": sp[0], "required_log": sp[1]})


def replay(run, data):
    d = data["data"]
    obs, log = rc.run_call(d["family"], d["call"])
    sp = rc.spec_resolve(d["family"], d["call"])
    return [obs, log] == [sp[0], sp[1]]
