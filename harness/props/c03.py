"""C03 - parsing is total: a statement or a YAQL parsing error, nothing else.

C: for every generated text the real ply lexer is run on its own (token type,
position, length, value; how the stream ends) and through engine(text)
(statement / lexical error at p / grammar error at p / other exception class);
Model/Lexer.v computes the token stream inside Coq and must agree on all of it.
O: the property's predicate on engine(text): exception class within
YaqlParsingException, reported position inside the text, 5 s watchdog."""
import json
import os

import gal
import lexcommon as lc
from yaql.language import exceptions

GEN = ["charclass", "lexfacts", "optables"]
RULE = ("texts: all sequences of <=2 (quick; thorough <=3) items of the token alphabet (every token kind, every "
        "operator string, every literal, illegal characters, unterminated quotes) joined with '' and ' ', token "
        "soups, valid expressions with one character inserted/deleted/substituted, every backslash-escape shape "
        "with well- and ill-formed payloads in the three quote styles, numerals/identifiers up to 10^5 characters, "
        "random code points (NUL, U+00A0, surrogates, astral); non-trivial = the text contains a non-ignored "
        "character; distinct = distinct text")
TRUSTED = ["Model/Lexer.v is a hand transcription of yaql/language/lexer.py driven by ply.lex.Lexer.token; tied by this "
           "correspondence (token type, position, length, value, ending) and by the pinned regex sources",
           "the LALR grammar check is abstract in the theorems (any function of the token list reporting token indices)",
           "CPython's re (character classes regenerated into Gen/CharClass.v), codecs unicode-escape, int()/float()"]
ASSUMPTIONS = ["inputs are str; the default engine (YaqlFactory().create()) is the one checked",
               "warnings are not turned into errors (an octal escape above \\377 emits DeprecationWarning in the codec)",
               "memory exhaustion on gigantic inputs is out of scope"]
EXPLANATION = ("proof that the lexer model is total (no foreign exception, no fuel exhaustion, positions in range) for "
               "every text + differential check of the model against the real ply lexer and engine(text)")
ALLOWED_AXIOMS = []
LEVEL_NOTE = "theorems quantify over all texts and all well-formed lexer configurations; the default configuration is regenerated"

HEADER = "From YV Require Import Model.Lexer."
HERE = os.path.dirname(os.path.dirname(os.path.dirname(os.path.abspath(__file__))))

# ---------------------------------------------------------------- alphabet
OPS = ["?.", "=~", "!~", "mod", "not", "and", "->", "[", "=>", ".", "+", "-", "*", ">=", "<=", "!=", "in", "or",
       "{", "/", ">", "<", "="]
ALPHABET = (["$", "$x", "$1", "1", "12", "1.5", "0.0", "f(", "not(", "x", "_", "x1", "true", "false", "null",
             "'a'", "''", '"a"', "`a`", "'\\n'", "'\\x41'"] + OPS + ["(", ")", "]", ",", "}"] +
            ["#", "@", "!", "?", "~", "\\", "'", '"', "`", "__x", "__", "1x", "é", "٣", " ", "\n"])

VALID = ["1 + 2", "$.a.b", "f(1, 2)", "$.where($ > 3).select($.x)", "[1, 2, 3]", "{a => 1, 'b' => 2}",
         "not true and false or null", "x.y(z => 1)", "'str' + \"str\" + `str`", "-1 * (2 - 3) / 4 mod 5",
         "$x?.foo()", "a =~ b and c !~ d", "1 in [1]", "$1 -> $ + 1", "f(,1)", "dict(a=>1).keys()",
         "'\\u0041\\x41\\101\\N{BULLET}'", "1.5 >= 0.25", "a[0][1]", "len('ab') != 2 <= 3",
         "list(1,2).select($ * 2)", "$.`odd key`", "{}", "[]", "f()"]

MUT_POOL = (list("()[]{},.+-*/<>=!~?$#@_'\"`\\ \n\t09azAZ") +
            ["\x00", " ", "\ud800", "\udfff", "\U0001f600", "é", "٣", " ", "\r", "\x0b"])


def escapes():
    """Every backslash-escape shape with well- and ill-formed payloads."""
    pay = []
    pay += ["\\x" + p for p in ["41", "4", "", "zz", "4g", "g4", "é1", "4\n", "\n4", "AF", "af", "0", "１１"]]
    pay += ["\\u" + p for p in ["0041", "004", "", "zzzz", "d800", "dfff", "12\n4", "00e9", "FFFF", "004g", "é000"]]
    pay += ["\\U" + p for p in ["00000041", "0010ffff", "0010FFFF", "00110000", "ffffffff", "0000004", "",
                                "0000d800", "0001f600", "0000004g", "1234\n678", "80000000"]]
    pay += ["\\N" + p for p in ["{BULLET}", "{bullet}", "{nonexistent}", "{}", "{", "", "{LATIN SMALL LETTER A",
                                "{a}b}", "{é}", "{LF}", "{KEYCAP NUMBER SIGN}", "{ BULLET}", "{BULLET }",
                                "{BUL\nLET}", "{DIGIT ONE}{DIGIT TWO}", "{\ud800}"]]
    pay += ["\\" + p for p in ["0", "7", "12", "123", "1234", "777", "400", "377", "8", "18", "08", "128"]]
    pay += ["\\" + chr(c) for c in range(0, 128)]
    pay += ["\\" + c for c in ["é", " ", "\ud800", "\U0001f600", " "]]
    pay += ["\\\\x41", "\\\\\\x41", "\\\\", "\\\\\\", "\\"]
    out = []
    for p in pay:
        for q in "'\"`":
            out.append(q + p + q)
            out.append(q + "a" + p + "b" + q)
    return out


def long_texts(run):
    big = run.n(100000, 100000)
    sizes = [4299, 4300, 4301, 10000, big]
    out = []
    for n in sizes:
        out += ["1" * n, "0" * n, "1" * n + ".5", "1." + "5" * n, "1" * n + "." + "2" * n, "1" * n + ".",
                "١" * n]
        if n <= 4301:
            # a digit run followed by a word character costs the regex engine quadratic time
            # (\d+ is re-split at every length): 16000 digits take 5 s, so only short ones here
            out += ["1" * n + "x", "1" * n + ".5x", "1" * n + "_"]
    for n in [5000, big]:
        out += ["a" * n, "a" * n + "(", "a" * n + "()", "$" + "a" * n, "'" + "a" * n + "'", "'" + "a" * n,
                "_" * n, "_a" * n, "`" + "\\`" * (n // 2) + "`", "'" + "\\\\" * (n // 2) + "'",
                "é" * n, "'" + "\\x41" * (n // 4) + "'", " " * n, " " * n + "#"]
    # many tokens (the token list itself is the observation, so these stay moderate)
    out += ["(" * 1000, "1 " * 1000, "[" * 500 + "]" * 500, "-" * 1000 + "1", "a." * 500 + "a", "f(" * 400 + ")" * 400]
    return out


def rand_cp(rng):
    r = rng.random()
    if r < 0.35:
        return chr(rng.randrange(0, 128))
    if r < 0.5:
        return rng.choice(["\x00", " ", "\ud800", "\udbff", "\udc00", "\udfff", " ", "\u0085", "﻿", "￿",
                           "\U00010000", "\U0010ffff", "٠", "²", "ª", "ͅ", "‿"])
    if r < 0.8:
        return chr(rng.randrange(128, 0x10000))
    return chr(rng.randrange(0x10000, 0x110000))


_NUMERIC = None


def numeric_code_points():
    """every code point that is a digit/number for ANY of str.isdecimal / isdigit / isnumeric, all scripts"""
    global _NUMERIC
    if _NUMERIC is None:
        import sys
        _NUMERIC = [c for c in range(sys.maxunicode + 1) if chr(c).isdecimal() or chr(c).isdigit() or chr(c).isnumeric()]
    return _NUMERIC


def sigil_texts(run):
    """Word characters of every class DIRECTLY after `$` and in the other places a name can stand (inside identifiers,
    after `.`, as a function name, as keyword-argument name and value, after an illegal sigil), with emphasis on the
    characters some str predicate calls a digit; very long digit runs after `$`."""
    import gen_charclass
    rng = run.rng
    nums = numeric_code_points()
    digit_only = [c for c in nums if chr(c).isdigit() and not chr(c).isdecimal()]
    decimal = [c for c in nums if chr(c).isdecimal()]
    numeric_only = [c for c in nums if not chr(c).isdigit()]
    if run.quick:
        chosen = digit_only[::2] + rng.sample(digit_only, 24) + decimal[::10] + decimal[9::10][:20] + rng.sample(decimal, 30) + \
            rng.sample(numeric_only, 120)
    else:
        chosen = nums
    wr = gen_charclass.sweep(r"\w")
    ranges = wr if not run.quick else rng.sample(wr, 80)
    for lo, hi in ranges:
        chosen += [lo, hi] if lo != hi else [lo]
    out = []
    for cp in dict.fromkeys(chosen):
        c = chr(cp)
        out += ["$" + c, "$" + c + c, "$0" + c, "$a" + c, "x." + c, c + c + "(1)", "f(" + c + " => $" + c + ")", "#" + c, "a" + c + "b"]
        if not run.quick or cp % 3 == 0:
            out += ["$" + c + "a", "x." + c + "()", c, "@" + c, "$" + c + "(", "[$" + c + ", $" + c + "1]", "$." + c]
    for n in [4299, 4300, 4301, 5000] + ([100000] if True else []):
        out += ["$" + "7" * n, "$" + "0" * n, "$" + "٣" * n, "$" + "1" * n + "a", "$x" + "1" * n, "$" + "1" * n + " + 1",
                "f($" + "9" * n + ")"]
    for z in [0x660, 0x966, 0xff10, 0x1d7ce]:
        out += ["$" + "".join(chr(z + rng.randrange(10)) for _ in range(k)) for k in (1, 2, 5, 19, 40)]
    out += ["$0", "$00", "$01", "$007", "$1", "$10", "$01a", "$_1", "$1_", "$²", "$①", "$٣", "$1٣", "$½", "$Ⅷ", "$一", "$$1", "$ 1"]
    return out


def gen_texts(run):
    rng = run.rng
    texts = []

    def add(kind, t):
        texts.append((kind, t))

    for t in load_corpus():
        add("corpus", t)
    for a in ALPHABET:
        add("seq1", a)
    for a in ALPHABET:
        for b in ALPHABET:
            add("seq2", a + b)
            add("seq2", a + " " + b)
    if run.quick:
        for _ in range(600):
            add("seq3", rng.choice(["", " "]).join(rng.choice(ALPHABET) for _ in range(3)))
    else:
        for a in ALPHABET:
            for b in ALPHABET:
                for c in ALPHABET:
                    add("seq3", a + b + c)
        for _ in range(20000):
            add("seq3", " ".join(rng.choice(ALPHABET) for _ in range(3)))
    for _ in range(run.n(400, 6000)):
        k = rng.randrange(4, 30)
        add("soup", "".join(rng.choice(ALPHABET) + rng.choice(["", "", " ", "\n"]) for _ in range(k)))
    for _ in range(run.n(800, 20000)):
        v = rng.choice(VALID)
        i = rng.randrange(len(v) + 1)
        op = rng.randrange(3)
        c = rng.choice(MUT_POOL)
        if op == 0:
            add("mut-insert", v[:i] + c + v[i:])
        elif op == 1 and i < len(v):
            add("mut-delete", v[:i] + v[i + 1:])
        elif i < len(v):
            add("mut-subst", v[:i] + c + v[i + 1:])
    for v in VALID:
        add("valid", v)
    for t in escapes():
        add("escape", t)
    for t in long_texts(run):
        add("long", t)
    for t in sigil_texts(run):
        add("sigil", t)
    for c in range(0, 256):
        add("cp", chr(c))
    for c in ["\ud800", "\udfff", "\U0001f600", "\U0010ffff", " ", "٠", "‿"]:
        add("cp", c)
        add("cp", "a" + c + "b")
        add("cp", "1" + c)
    for _ in range(run.n(600, 30000)):
        add("cp", rand_cp(rng))
    if not run.quick:
        for c in range(256, 0x10000, 1):
            if c % 7 == 0:
                add("cp", "x" + chr(c) + "1")
    for _ in range(run.n(500, 10000)):
        k = rng.randrange(1, 12)
        add("randstr", "".join(rand_cp(rng) if rng.random() < 0.5 else rng.choice(MUT_POOL) for _ in range(k)))
    seen, out = set(), []
    for kind, t in texts:
        if t not in seen:
            seen.add(t)
            out.append((kind, t))
    return out


# ---------------------------------------------------------------- observation
def observe(text):
    r, e = lc.with_watchdog(lambda: lc.run_lexer(text), 20.0)
    if e is not None:
        raise lc.Timeout() if isinstance(e, lc.Timeout) else e
    toks, end = r
    out = lc.run_engine(text)
    return toks, end, out


def outcome_term(o):
    if o[0] == "ok":
        return "OOk"
    if o[0] == "lex":
        return gal.app("OLex", gal.z(o[1])) if isinstance(o[1], int) else "OForeign"
    if o[0] == "gram":
        return "(OGram None)" if o[1] is None else (gal.app("OGram", "(Some %s)" % gal.z(o[1])) if isinstance(o[1], int) else "OForeign")
    return "OForeign"


def case_term(text, toks, end, out):
    return "{| c_text := %s; c_names := %s; c_outcome := %s; c_tokens := %s; c_lexend := %s |}" % (
        lc.text_term(text), lc.names_term(lc.names_in(text)), outcome_term(out),
        gal.lst("(%s, %s, %s, %s)" % (gal.s(k), gal.z(p), gal.z(n), lc.val_term(v)) for k, p, n, v in toks),
        outcome_term(end))


def predicate(text, out):
    """The property's own predicate on engine(text).  None = holds, else what fails."""
    k = out[0]
    if k == "ok":
        return None
    if k == "timeout":
        return "parsing did not return within 5 s"
    if k == "foreign":
        return "an exception that is not a YaqlParsingException escapes the parser: %s" % out[1]
    if k == "parsing-other":
        return None
    pos = out[1]
    if pos is None:
        return None if k == "gram" else "lexical error without a position"
    if not isinstance(pos, int) or isinstance(pos, bool) or not (0 <= pos < len(text)):
        return "reported error position %r is outside the text of length %d" % (pos, len(text))
    return None


def shrink(text, fails):
    """Greedy deletion of chunks then single characters while the failure stays."""
    cur, budget = text, 400
    step = max(1, len(cur) // 2)
    while step >= 1 and budget > 0:
        i, changed = 0, False
        while i < len(cur) and budget > 0:
            cand = cur[:i] + cur[i + step:]
            budget -= 1
            if cand != cur and fails(cand):
                cur, changed = cand, True
            else:
                i += step
        if not changed:
            step //= 2
    return cur


def fails_predicate(t):
    return predicate(t, lc.run_engine(t)) is not None


_reported = {}


def report_violation(run, kind, text, why):
    key = why.split(":")[0] + "|" + why.split(":")[-1].strip().split(" ")[0]
    _reported[key] = _reported.get(key, 0) + 1
    if _reported[key] > 1:
        return
    small = shrink(text, lambda t: (predicate(t, lc.run_engine(t)) or "").split(":")[0] == why.split(":")[0]) if len(text) <= 3000 else text
    out = lc.run_engine(small)
    run.fail("violation", predicate(small, out) or why,
             {"input": lc.compress(small), "input_repr": lc.printable(small), "generator": kind,
              "observed": [str(x) for x in out[:2]] if out[0] != "ok" else ["ok"],
              "required": "engine(text) returns a statement or raises YaqlLexicalException/YaqlGrammarException with "
                          "0 <= position < len(text) (or position None at end of input)",
              "theorems": ["C03_lex_total", "C03_total", "C03_default_cfg_wf"]})


def correspondence(run):
    texts = gen_texts(run)
    cases, meta = [], []
    for i, (kind, t) in enumerate(texts):
        try:
            toks, end, out = observe(t)
        except lc.Timeout:
            report_violation(run, kind, t, "parsing did not return within 5 s")
            continue
        nontrivial = any(c not in " \t\r\n" for c in t)
        run.case(t, nontrivial=nontrivial)
        run.count("gen:" + kind)
        run.count("outcome:" + out[0])
        run.count("tokens:%s" % (len(toks) if len(toks) < 4 else "4+"))
        if i % 997 == 0:
            run.sample({"text": lc.printable(t), "outcome": [str(x) for x in out[:2]] if out[0] != "ok" else ["ok"],
                        "tokens": [(k, p, n) for k, p, n, _ in toks[:6]]})
        why = predicate(t, out)
        if why:
            report_violation(run, kind, t, why)
        cases.append(case_term(t, toks, end, out))
        meta.append((kind, t, toks, end, out))
    # long texts go into small shards so that they spread over the workers
    order = sorted(range(len(cases)), key=lambda i: not (meta[i][0] == "long" or len(meta[i][1]) > 1000))
    nlong = sum(1 for m in meta if m[0] == "long" or len(m[1]) > 1000)
    cases = [cases[i] for i in order]
    meta = [meta[i] for i in order]
    custom_table_correspondence(run)
    bad = run.coq_mismatches(HEADER, "case", "case_ok", cases[:nlong], shard=6)
    bad += [nlong + i for i in run.coq_mismatches(HEADER, "case", "case_ok", cases[nlong:], shard=run.n(300, 500))]
    for i in bad[:20]:
        kind, t, toks, end, out = meta[i]
        why = predicate(t, out)
        if why:
            continue       # already reported as a violation
        small = t
        if len(t) <= 200:
            def differs(c):
                try:
                    tk, en, ou = observe(c)
                    return bool(run.coq_mismatches(HEADER, "case", "case_ok", [case_term(c, tk, en, ou)]))
                except Exception:
                    return False
            try:
                small = shrink_small(t, differs)
            except Exception:
                small = t
        tk, en, ou = observe(small)
        try:
            model = run.coq_eval(HEADER, "lex (default_cfg (names_fn %s)) %s" % (lc.names_term(lc.names_in(small)), lc.text_term(small)))[-1500:]
        except Exception as e:
            model = repr(e)
        run.fail("mismatch", "the lexer model and the real lexer disagree on a text",
                 {"input": lc.compress(small), "input_repr": lc.printable(small), "generator": kind,
                  "impl_tokens": [(k, p, n, str(v)[:60]) for k, p, n, v in tk[:20]], "impl_lex_end": list(en),
                  "impl_engine": [str(x) for x in ou[:2]] if ou[0] != "ok" else ["ok"], "model": model})


# ---------------------------------------------------------------- customised operator tables (Model/LexerTables.v)
TABLE_HEADER = "From YV Require Import Model.OpTable Model.Lexer Model.LexerTables."
KIND = {"PREFIX_UNARY": "KPrefix", "SUFFIX_UNARY": "KSuffix", "BINARY_LEFT_ASSOCIATIVE": "KLeft",
        "BINARY_RIGHT_ASSOCIATIVE": "KRight", "NAME_VALUE_PAIR": "KNameValue"}

# (label, keyword_operator, legacy, removed symbols, inserts (existing, existing_is_binary, new, type, new_group), texts' extra alphabet)
TABLE_SPECS = [
    ("default", "=>", False, [], [], []),
    ("legacy", None, True, [], [], []),
    ("no keyword operator", None, False, [], [], []),
    ("keyword operator :=", ":=", False, [], [], [":=", ":", "="]),
    ("suffix !, binary **", "=>", False, [], [("not", False, "!", "SUFFIX_UNARY", True), ("*", True, "**", "BINARY_RIGHT_ASSOCIATIVE", False)],
     ["!", "**", "!=", "!~", "***"]),
    ("suffix %%, prefix ~, word nand", "=>", False, [], [(".", True, "%%", "SUFFIX_UNARY", False), ("-", False, "~", "PREFIX_UNARY", False),
                                                        ("and", True, "nand", "BINARY_LEFT_ASSOCIATIVE", False)], ["%%", "%", "~", "nand", "=~", "nandx"]),
    ("words contains/negate/exists", "=>", False, [], [("in", True, "contains", "BINARY_LEFT_ASSOCIATIVE", False),
                                                       ("not", False, "negate", "PREFIX_UNARY", False),
                                                       (None, True, "exists", "SUFFIX_UNARY", True)], ["contains", "negate", "exists", "contain"]),
    ("without in/and/or/not/mod", "=>", False, ["in", "and", "or", "not", "mod"], [], []),
    ("without {} . ?.", "=>", False, ["{}", ".", "?."], [], []),
    ("regex-special symbols", "=>", False, [], [("+", True, "|", "BINARY_LEFT_ASSOCIATIVE", False), ("+", True, "&&", "BINARY_LEFT_ASSOCIATIVE", False),
                                               ("+", True, "^", "BINARY_LEFT_ASSOCIATIVE", True), ("=", True, "===", "BINARY_LEFT_ASSOCIATIVE", False),
                                               (".", True, "..", "BINARY_LEFT_ASSOCIATIVE", False), ("=", True, "<>", "BINARY_LEFT_ASSOCIATIVE", False),
                                               ("-", False, "#", "PREFIX_UNARY", False), ("=", True, "<=>", "BINARY_LEFT_ASSOCIATIVE", False)],
     ["|", "&&", "&", "^", "===", "==", "..", "...", "<>", "#", "<=>", "?"]),
    ("many operators (two-letter token names)", "=>", False, [], [("+", True, s_, "BINARY_LEFT_ASSOCIATIVE", False) for s_ in
                                                                 ["@", "@@", "%", "%%%", "!!", "~~", "::", ";", ";;", "<<", ">>", "op1", "op2"]],
     ["@", "@@", "@@@", "%", "%%%", "!!", "~~", "::", ";", ";;", "<<", ">>", "op1", "op2", "op3"]),
]
TABLE_BASE = ["5", "'a'", "true", "foo", "$x", "(", ")", "[", "]", ",", ".", "-", "+", "*", "not", "and", "in", "mod", "f(", "1.5",
              "`v`", "{", "}", "=>", "null", "=", ">", "<", ">=", "!=", "?.", "->", "/", " ", "__x", "é"]


def build_table_engine(spec):
    import yaql
    from yaql import legacy
    from yaql.language import factory
    label, kwop, leg, removed, inserts, _ = spec
    f = legacy.YaqlFactory() if leg else factory.YaqlFactory(keyword_operator=kwop)
    if removed:
        f.operators = [op for op in f.operators if not op or op[0] not in removed]
    for existing, is_binary, new, kind, group in inserts:
        f.insert_operator(existing, is_binary, new, getattr(factory.OperatorType, kind), group)
    return f, f.create()


def oplist_term(ops):
    def entry(t):
        if len(t) < 2:
            return "Sep"
        alias = t[2] if len(t) > 2 else None
        return "(Op %s %s %s)" % (gal.s(t[0]), KIND[t[1]], gal.opt(alias, gal.s))
    return gal.lst(entry(t) for t in ops)


def run_lexer_of(eng, text):
    saved = lc._engine
    lc._engine = eng
    try:
        return lc.run_lexer(text)
    finally:
        lc._engine = saved


def live_rule_order(eng):
    """token types of the string rules of the engine's master regex, in order, without the rules that can never match"""
    out = []
    rules_obj = None
    for rx, indexfunc in eng.lexer.lexre:
        for entry in indexfunc:
            if entry and entry[0] is not None and hasattr(entry[0], "__self__"):
                rules_obj = entry[0].__self__
    for rx, indexfunc in eng.lexer.lexre:
        for entry in indexfunc:
            if entry and entry[0] is None:
                src = getattr(rules_obj, "t_" + entry[1], None)
                if src == "(?!x)x":
                    continue
                out.append(entry[1])
    return out


def custom_table_correspondence(run):
    """Token streams of real engines with customised operator tables vs lex (cfg_of_ops factory.operators ...), and the
    order of the string rules of their master regex vs the order Model/LexerTables.v computes."""
    import itertools
    import re
    rng = run.rng
    cases, meta = [], []
    import concurrent.futures
    built_engines = []
    for spec in TABLE_SPECS:
        try:
            f, eng = build_table_engine(spec)
            built_engines.append((spec, f, eng, oplist_term(f.operators)))
        except Exception as e:
            run.fail("mismatch", "a customised engine of the correspondence could not be built", {"engine": spec[0], "error": repr(e)})

    def order_of(ops):
        try:
            txt = run.coq_eval(TABLE_HEADER, "rule_order %s" % ops)
            return ["".join(chr(int(x)) for x in m.split(";")) for m in re.findall(r"\[([0-9; \n]+)\]", txt.split("Some", 1)[-1])]
        except Exception as e:
            return ["<model failed: %r>" % e]

    with concurrent.futures.ThreadPoolExecutor(max_workers=8) as ex:
        orders = list(ex.map(order_of, [b[3] for b in built_engines]))
    for (spec, f, eng, ops), model_order in zip(built_engines, orders):
        label = spec[0]
        live = live_rule_order(eng)
        run.case(("rule-order", label), nontrivial=True)
        run.count("table:rule-order:" + ("same" if live == model_order else "different"))
        if live != model_order:
            run.fail("mismatch", "the order of the string rules of a customised engine's master regex differs from the model's",
                     {"engine": label, "live": live, "model": model_order})
        alphabet = TABLE_BASE + spec[5]
        texts = [a for a in alphabet] + [a + b for a in alphabet for b in spec[5] + ["", " "]] + [b + a for a in alphabet for b in spec[5]]
        for _ in range(run.n(120, 2500)):
            texts.append(rng.choice(["", " "]).join(rng.choice(alphabet) for _ in range(rng.randrange(2, 7))))
        texts = list(dict.fromkeys(texts))
        if run.quick and len(texts) > 260:
            texts = texts[:60] + rng.sample(texts[60:], 200)
        for t in texts:
            toks, end = run_lexer_of(eng, t)
            run.case(("table", label, t), nontrivial=True)
            run.count("table:" + label)
            cases.append("{| t_ops := %s; t_text := %s; t_names := []; t_tokens := %s; t_lexend := %s |}" % (
                ops, lc.text_term(t),
                gal.lst("(%s, %s, %s, %s)" % (gal.s(k), gal.z(p_), gal.z(n), lc.val_term(v)) for k, p_, n, v in toks), outcome_term(end)))
            meta.append((label, t, toks, end))
    bad = run.coq_mismatches(TABLE_HEADER, "tcase", "tcase_ok", cases, shard=run.n(120, 300))
    seen = set()
    for i in bad:
        label, t, toks, end = meta[i]
        if label in seen:
            continue
        seen.add(label)
        run.fail("mismatch", "the lexer model built from a customised operator table and the real engine's lexer disagree",
                 {"engine": label, "input_repr": lc.printable(t), "impl_tokens": [(k, p_, n, str(v)[:40]) for k, p_, n, v in toks[:12]],
                  "impl_lex_end": list(end)})


def shrink_small(text, differs):
    cur, budget = text, 40
    i = 0
    while i < len(cur) and budget > 0:
        cand = cur[:i] + cur[i + 1:]
        budget -= 1
        if differs(cand):
            cur = cand
        else:
            i += 1
    return cur


def oracle(run, deep):
    """Direct search for a text on which engine(text) fails the predicate (beyond the
    texts of C, which were checked there)."""
    rng = run.rng
    n = run.n(3000, 60000) * (4 if deep else 1)
    shapes = escapes()
    found = set()
    for i in range(n):
        r = rng.random()
        if r < 0.3:
            t = rng.choice(shapes)
            j = rng.randrange(len(t) + 1)
            t = t[:j] + rng.choice(MUT_POOL) + t[j:] if rng.random() < 0.5 else t
        elif r < 0.5:
            q = rng.choice("'\"`")
            body = "".join(rng.choice(["\\", "\\x", "\\u", "\\U", "\\N{", "}", "0", "7", "f", "g", q, "a", "\n", rand_cp(rng)])
                           for _ in range(rng.randrange(0, 14)))
            t = q + body + q
        elif r < 0.6:
            k = rng.choice([1, 5, 50, 4299, 4300, 4301, 4302, 9000])
            t = rng.choice(["", "(", "x + ", "-"]) + "".join(rng.choice("0123456789") for _ in range(k)) + rng.choice(["", ".5", ")", " ", "a", "."])
        elif r < 0.8:
            t = "".join(rng.choice(ALPHABET) + rng.choice(["", " "]) for _ in range(rng.randrange(1, 8)))
        else:
            t = "".join(rand_cp(rng) if rng.random() < 0.4 else rng.choice(MUT_POOL) for _ in range(rng.randrange(1, 16)))
        out = lc.run_engine(t)
        run.count("oracle:" + out[0])
        why = predicate(t, out)
        if why:
            key = why.split(":")[0] + (out[1] if out[0] == "foreign" else "")
            if key not in found:
                found.add(key)
                report_violation(run, "oracle", t, why)
    run.note("oracle: %d further texts checked against the predicate" % n)
    # unterminated string literals followed by long backslash runs (a token regex whose alternatives overlap on the
    # backslash backtracks exponentially exactly here)
    for q in "'\"`":
        for k in (24, 32, 40, 48, 64, 80, 200):
            for t in ("$.p = %sC:%s" % (q, "\\" * k), "%s%s" % (q, "\\" * k), "f(%sa%s, 1)" % (q, "\\" * (k + 1))):
                out = lc.run_engine(t)
                run.count("oracle:backslash-run:" + out[0])
                why = predicate(t, out)
                if why and "backslash" not in found:
                    found.add("backslash")
                    report_violation(run, "oracle", t, why)
    overlapping_parses(run, found)
    custom_engines(run, found)
    factory_histories(run, found, deep)
    process_histories(run, found, deep)
    int_limit_interpreters(run, found, deep)


def operator_texts(syms):
    """texts that use the given operator symbols in every position"""
    out = []
    for s_ in syms:
        out += [s_, s_ + " 1", "1 " + s_, "1 " + s_ + " 2", "(" + s_ + " 1)", "[" + s_ + " 1]", "f(" + s_ + " $)", "f($ " + s_ + ")",
                s_ + " " + s_ + " " + s_, "not " + s_, s_ + " not 1", "- " + s_ + " 1", s_ + " -1", "$." + s_, "$ " + s_ + " null",
                "f(" + s_ + " => 1)", "a " + s_ + " b and not c", s_ + " $.a", s_ + " true", "a -> " + s_ + " 1", "x in [1] or y " + s_ + " z",
                s_ + "(1)", "{a => " + s_ + " 1}", "1 " + s_ + " " + s_ + " 2", s_ + " 'a' " + s_]
    return out


FIXED_FACTORY_HISTORIES = [
    # (base kind, calls of insert_operator (existing, existing_is_binary, new, type, new_group, alias)): an engine is
    # created before the first call and after every call
    ("default", [("in", True, "is", "BINARY_LEFT_ASSOCIATIVE", False, None)]),
    ("default", [("not", False, "isnt", "PREFIX_UNARY", False, None), ("in", True, "within", "BINARY_LEFT_ASSOCIATIVE", False, None)]),
    ("default", [(".", True, "!", "SUFFIX_UNARY", True, None), ("*", True, "**", "BINARY_RIGHT_ASSOCIATIVE", False, None)]),
    ("legacy", [("or", True, "xor", "BINARY_LEFT_ASSOCIATIVE", False, None), ("not", False, "~", "PREFIX_UNARY", False, None)]),
    ("default+delegates", [(None, False, "exists", "SUFFIX_UNARY", True, None), ("+", True, "<>", "BINARY_LEFT_ASSOCIATIVE", True, None)]),
    ("nokw", [("and", True, "nand", "BINARY_LEFT_ASSOCIATIVE", False, None), ("-", False, "neg", "PREFIX_UNARY", False, None)]),
]


def factory_histories(run, found, deep):
    """Histories on ONE factory object: create(), insert_operator(...), create(), ...: every engine handed out must be total
    (C03_total_any_table: for the table the factory held when the engine was created).  Random call sequences come from
    the C02 history generator (word and symbol operators in all roles)."""
    from props import c02
    from yaql.language import exceptions as X
    from yaql.language import factory as F
    rng = run.rng
    hists = list(FIXED_FACTORY_HISTORIES)
    for _ in range(run.n(6, 120) * (2 if deep else 1)):
        base = rng.choice(["default"] * 4 + ["legacy", "default+delegates", "nokw", "kw:="])
        try:
            calls = c02.gen_calls(rng, c02.spec_base(base), rng.randrange(1, 5), rng.random() < 0.2)
        except Exception:
            continue
        hists.append((base, calls))
    base_texts = ["1 + 2", "not true", "a in b", "f(1, 2)", "$.a", "[1]", "{a => 1}", "x", "1 2", "-1", "a and b or c", "#"]
    for base, calls in hists:
        try:
            f = c02.make_factory(base)
        except Exception:
            continue
        engines = []
        syms = []

        def create(step):
            try:
                engines.append((step, list(syms), f.create()))
            except (X.YaqlException, ValueError):
                pass          # an operator table the factory rejects: no engine is handed out
            except Exception as e:
                if "hist-create" not in found:
                    found.add("hist-create")
                    run.note("factory history: create() raised %r after %r" % (e, calls[:step]))

        create(0)
        for i, c in enumerate(calls):
            try:
                f.insert_operator(c[0], c[1], c[2], getattr(F.OperatorType, c[3]), c[4], c[5] if len(c) > 5 else None)
                syms.append(c[2])
            except ValueError:
                continue
            create(i + 1)
        # factory.operators is a public list: direct edits between create() calls (rows removed, a row appended by hand)
        edited, edit_log = [], []
        if rng.random() < 0.6 or (base, calls) in FIXED_FACTORY_HISTORIES:
            rows = [r for r in f.operators if r and r[0] not in ("[]", "{}")]
            words = [r for r in rows if r[0].isidentifier()]
            symbols = [r for r in rows if not r[0].isidentifier() and r[0] not in (".", "=>")]
            for victim in ([rng.choice(words)] if words else []) + ([rng.choice(symbols)] if symbols else []):
                for r in [r for r in f.operators if r and r[0] == victim[0]]:
                    f.operators.remove(r)
                edited.append(victim[0])
                edit_log.append([victim[0], "removed"])
                create(len(calls) + len(edited))
            new_sym = rng.choice(["otherwise", "<>", "zz_op", "%%", "unless"])
            if not any(r and r[0] == new_sym for r in f.operators):
                kind_name = rng.choice(["BINARY_LEFT_ASSOCIATIVE", "PREFIX_UNARY"])
                f.operators.append(())
                f.operators.append((new_sym, getattr(F.OperatorType, kind_name)))
                edited.append(new_sym)
                edit_log.append([new_sym, "appended", kind_name])
                create(len(calls) + len(edited))
        all_syms = [c[2] for c in calls] + edited
        texts = base_texts + operator_texts(all_syms)
        for step, own, eng in engines:
            for t in texts:
                res, e = lc.with_watchdog(lambda: eng(t), 5.0)
                run.count("oracle:factory-history")
                why = None
                if e is not None:
                    if isinstance(e, lc.Timeout):
                        why = "parsing did not return within 5 s"
                    elif not isinstance(e, X.YaqlParsingException):
                        why = "an exception that is not a YaqlParsingException escapes the parser: %s" % lc.qualname(e)
                    else:
                        pos = getattr(e, "position", None)
                        if pos is not None and not (isinstance(pos, int) and 0 <= pos < len(t)):
                            why = "reported error position %r is outside the text of length %d" % (pos, len(t))
                if why and "factory-history" not in found:
                    found.add("factory-history")
                    run.case(("factory-history", base, tuple(map(tuple, calls)), step, t), nontrivial=True)
                    run.fail("violation", "C03 predicate fails on an engine created along a history of one factory "
                                          "(create / insert_operator / create): %s" % why,
                             {"factory_history": {"base": base, "calls": [list(c) for c in calls], "engine_created_after_call": step,
                                                  "direct_edits_of_factory_operators": edit_log, "text": t},
                              "how_to_read": "one factory object; an engine is created before the first insert_operator call and "
                                             "after every call; the failing engine is the one created after `engine_created_after_call` calls",
                              "theorems": ["C03_total_any_table", "C03_lex_total_any_table"]})
        run.case(("factory-history", base, len(calls)), nontrivial=True)


def numeral_texts(limits, rng):
    """numerals around every given digit limit, alone and inside longer expressions"""
    out = []
    sizes = set()
    for lim in limits:
        sizes |= {lim - 1, lim, lim + 1, lim + 50}
    sizes |= {1, 5, 639, 640, 641, 4299, 4300, 4301, 5000, 20000}
    for n in sorted(x for x in sizes if x > 0):
        d = "".join(rng.choice("123456789") for _ in range(min(n, 40))) + "7" * max(0, n - 40)
        out += [d, "0" * n, "0" * (n - 1) + "1" if n > 1 else "1", d + ".5", "1." + d, "f(" + d + ")", d + " + 1", "[" + d + ", 2]", "-" + d,
                "x = " + d, "٣" * n, d + " " + d, "{a => " + d + "}", "$" + d, "'" + d + "'", d + "."]
    return out


def int_limit_interpreters(run, found, deep):
    """The host may have lowered or lifted the interpreter's int<->str digit limit (PYTHONINTMAXSTRDIGITS,
    -X int_max_str_digits, sys.set_int_max_str_digits - also after the engine was created): whatever the limit, only
    YaqlParsingException subclasses may escape.  Long numerals around each limit, in fresh interpreters."""
    import concurrent.futures
    import subprocess
    import sys
    rng = run.rng
    script = os.path.join(HERE, "harness", "intlimit.py")
    configs = [("640", None), ("1000", None), ("0", None), (None, 640), (None, 2000), ("0", 700), (None, 0)]
    if not run.quick or deep:
        configs += [("%d" % rng.randrange(640, 4300), None), (None, rng.randrange(640, 4300)), ("5000", None), (None, 10000)]
    jobs = []
    for env_limit, set_after in configs:
        lims = [int(x) for x in (env_limit, set_after) if x not in (None, "0", 0)]
        texts = numeral_texts(lims or [4300], rng)
        jobs.append((env_limit, set_after, texts))

    def one(job):
        env_limit, set_after, texts = job
        env = dict(os.environ)
        env.pop("PYTHONINTMAXSTRDIGITS", None)
        if env_limit is not None:
            env["PYTHONINTMAXSTRDIGITS"] = env_limit
        p = subprocess.run([sys.executable, "-W", "ignore", script], input=json.dumps({"set_after": set_after, "texts": [lc.compress(t) for t in texts]}),
                           capture_output=True, text=True, timeout=600, env=env)
        if p.returncode != 0:
            return {"limit": None, "failures": [{"index": 0, "why": "harness process failed: " + p.stderr[-300:]}]}
        return json.loads(p.stdout)

    with concurrent.futures.ThreadPoolExecutor(max_workers=6) as ex:
        results = list(ex.map(one, jobs))
    for (env_limit, set_after, texts), res in zip(jobs, results):
        run.case(("int-limit", env_limit, set_after), nontrivial=True)
        run.count("oracle:int-limit:texts", len(texts))
        run.count("oracle:int-limit:" + ("ok" if not res["failures"] else "fail"))
        if res["failures"] and "int-limit" not in found:
            found.add("int-limit")
            f = res["failures"][0]
            t = texts[f["index"]]
            run.fail("violation", "C03 predicate fails in an interpreter whose int-digit limit is not the default: %s" % f["why"],
                     {"int_limit": {"PYTHONINTMAXSTRDIGITS": env_limit, "set_int_max_str_digits_after_engine_creation": set_after,
                                    "limit_in_force": res["limit"]},
                      "input": lc.compress(t), "input_repr": lc.printable(t),
                      "required": "a statement, or YaqlLexicalException/YaqlGrammarException with the position inside the text",
                      "theorems": ["C03_lex_total (the numeral action reports an over-long numeral as a lexical error whatever "
                                   "max_digits is)", "C03_total_any_table"]})
    run.note("oracle: %d fresh interpreters with other int-digit limits" % len(jobs))


def process_histories(run, found, deep):
    """Engines of DIFFERENT factories with different word operators created in one process, in every rotation of the order
    of creation (fresh interpreter per order); the words of all operator tables seen in the process are then used as plain
    identifiers, member names, keyword-argument names ... on every engine."""
    import concurrent.futures
    import subprocess
    import sys
    import multiengine as me
    specs = me.ENGINES
    n = len(specs)
    words = me.pool(specs)
    orders = [[(i + k) % n for k in range(n)] for i in range(n)]
    if not run.quick or deep:
        orders += [list(reversed(o)) for o in orders]
    script = os.path.join(HERE, "harness", "multiengine.py")

    def one(order):
        scn = {"mode": "totality", "engines": specs, "order": order, "words": words}
        p = subprocess.run([sys.executable, "-W", "ignore", script], input=json.dumps(scn), capture_output=True, text=True, timeout=300)
        if p.returncode != 0:
            return scn, [{"engine": "?", "text": "?", "why": "harness process failed: " + p.stderr[-300:], "phase": "?",
                          "engines_created_so_far": []}]
        return scn, json.loads(p.stdout)

    with concurrent.futures.ThreadPoolExecutor(max_workers=6) as ex:
        results = list(ex.map(one, orders))
    for scn, fails in results:
        run.case(("process-history", tuple(scn["order"])), nontrivial=True)
        run.count("oracle:process-history:" + ("ok" if not fails else "fail"))
        if fails and "process-history" not in found:
            found.add("process-history")
            f = fails[0]
            # smallest history: one other engine created first, then the failing one
            small = scn
            for j in scn["order"]:
                if j == f.get("engine_index"):
                    continue
                cand = {"mode": "totality", "engines": specs, "order": [j, f["engine_index"]], "words": [], "texts": [f["text"]]}
                p = subprocess.run([sys.executable, "-W", "ignore", script], input=json.dumps(cand), capture_output=True, text=True, timeout=120)
                if p.returncode == 0 and json.loads(p.stdout):
                    small, f = cand, json.loads(p.stdout)[0]
                    break
            run.fail("violation", "C03 predicate fails on an engine after engines of other factories were created in the same "
                                  "process: %s" % f["why"],
                     {"process_history": small, "failing_step": f,
                      "how_to_read": "engines are created in `order` inside one fresh interpreter; each is tested as created and "
                                     "again after all exist",
                      "theorems": ["C03_total_any_table"]})
    run.note("oracle: %d process histories of %d engines in fresh interpreters" % (len(orders), n))


def custom_engines(run, found):
    """Totality is a property of every engine a host can build: factories with inserted prefix / suffix / binary
    operators (symbols and words), the legacy factory, keyword_operator=None, delegates; all token sequences up to
    length 3 over a small alphabet that contains the inserted operators."""
    import itertools
    import yaql
    from yaql import legacy
    from yaql.language import exceptions as X
    from yaql.language.factory import OperatorType as T
    engines = []
    try:
        f = yaql.YaqlFactory()
        f.insert_operator("not", False, "!", T.SUFFIX_UNARY, True)
        f.insert_operator("*", True, "**", T.BINARY_RIGHT_ASSOCIATIVE, False)
        engines.append(("suffix !, binary **", f.create(), ["!", "**"]))
        f = yaql.YaqlFactory()
        f.insert_operator(".", True, "%%", T.SUFFIX_UNARY, False)
        f.insert_operator("-", False, "~", T.PREFIX_UNARY, False)
        f.insert_operator("and", True, "nand", T.BINARY_LEFT_ASSOCIATIVE, False)
        engines.append(("suffix %%, prefix ~, word nand", f.create(), ["%%", "~", "nand"]))
        engines.append(("legacy", legacy.YaqlFactory().create(), ["=>"]))
        engines.append(("no keyword operator", yaql.YaqlFactory(keyword_operator=None).create(), ["=>"]))
        engines.append(("delegates", yaql.YaqlFactory(allow_delegates=True).create(), ["("]))
    except Exception as e:
        run.note("custom engines could not be built: %r" % e)
    base = ["5", "'a'", "true", "foo", "$x", "(", ")", "[", "]", ",", ".", "-", "not", "f(", "1.5", "`v`", "{", "}", "=>", "null"]
    for label, eng, extra in engines:
        alphabet = base + extra
        seqs = list(itertools.product(alphabet, repeat=2))
        triples = list(itertools.product(alphabet, repeat=3))
        seqs += run.rng.sample(triples, min(len(triples), run.n(1500, len(triples))))
        seqs += [(a,) for a in alphabet]
        for seq in seqs:
            t = " ".join(seq)
            res, e = lc.with_watchdog(lambda: eng(t), 5.0)
            if isinstance(e, lc.Timeout):
                res, e = lc.with_watchdog(lambda: eng(t), 90.0)      # loaded machine: confirm before reporting
            run.count("oracle:custom-engine")
            why = None
            if e is not None:
                if isinstance(e, lc.Timeout):
                    why = "parsing did not return within 5 s"
                elif not isinstance(e, X.YaqlParsingException):
                    why = "an exception that is not a YaqlParsingException escapes the parser: %s" % lc.qualname(e)
                else:
                    pos = getattr(e, "position", None)
                    if pos is not None and not (isinstance(pos, int) and 0 <= pos < len(t)):
                        why = "reported error position %r is outside the text of length %d" % (pos, len(t))
            if why and ("custom:" + label) not in found:
                found.add("custom:" + label)
                run.case(("custom", label, t), nontrivial=True)
                run.fail("violation", "C03 predicate fails on an engine with a customised operator table (%s): %s" % (label, why),
                         {"engine": label, "text": t})


def overlapping_parses(run, found):
    """engine(text) called while another parse of the SAME engine is between two token fetches (what a thread switch
    does): each call must still end in a statement or a YAQL parsing error whose position lies inside ITS OWN text."""
    import ply.lex
    eng = lc.engine()
    short = ["1 + 2 + 3", "a.b", "f(1, 2)", "'ab' + 1", "[1, 2]", "x +", "1 2", "$"]
    long_bad = ["%s + #" % " + ".join(["12345"] * 12), "f(%s, ?" % ", ".join(["'some long text'"] * 6),
                "%s 'unterminated" % ("x + " * 20), "(" * 40 + "1" + ")" * 39 + " @"]
    orig = ply.lex.Lexer.token
    for a in short:
        for b in long_bad + short:
            for at in (1, 2, 3):
                state = {"n": 0, "inner": False}

                def token(lexer, state=state, b=b, at=at):
                    if not state["inner"]:
                        state["n"] += 1
                        if state["n"] == at + 1:
                            state["inner"] = True
                            try:
                                eng(b)
                            except Exception:
                                pass
                            state["inner"] = "done"
                    return orig(lexer)
                ply.lex.Lexer.token = token
                try:
                    out = lc.run_engine(a)
                finally:
                    ply.lex.Lexer.token = orig
                run.case(("overlap", a, b, at), nontrivial=True)
                run.count("oracle:overlap:" + out[0])
                why = predicate(a, out)
                if why and "overlap" not in found:
                    found.add("overlap")
                    run.fail("violation", "C03 predicate fails for a parse that overlaps another parse on the same engine: %s" % why,
                             {"text": a, "other_text_parsed_in_between": b, "after_fetch": at, "observed": repr(out[:2])})
                    return


def load_corpus():
    path = os.path.join(HERE, "corpus", "C03.json")
    if not os.path.exists(path):
        return []
    return [lc.decompress(d) for d in json.load(open(path))]


def replay(run, data):
    import sys
    import core
    # the model reads facts regenerated from the tree: bring them up to date first
    core.build_proofs(run, sys.modules[__name__])
    if not run.proof["ok"]:
        return False
    d = data["data"]
    if "process_history" in d:
        import subprocess
        p = subprocess.run([sys.executable, "-W", "ignore", os.path.join(HERE, "harness", "multiengine.py")],
                           input=json.dumps(d["process_history"]), capture_output=True, text=True, timeout=300)
        return p.returncode == 0 and not json.loads(p.stdout)
    if "int_limit" in d:
        import subprocess
        env = dict(os.environ)
        env.pop("PYTHONINTMAXSTRDIGITS", None)
        if d["int_limit"]["PYTHONINTMAXSTRDIGITS"] is not None:
            env["PYTHONINTMAXSTRDIGITS"] = d["int_limit"]["PYTHONINTMAXSTRDIGITS"]
        p = subprocess.run([sys.executable, "-W", "ignore", os.path.join(HERE, "harness", "intlimit.py")],
                           input=json.dumps({"set_after": d["int_limit"]["set_int_max_str_digits_after_engine_creation"], "texts": [d["input"]]}),
                           capture_output=True, text=True, timeout=600, env=env)
        return p.returncode == 0 and not json.loads(p.stdout)["failures"]
    if "factory_history" in d:
        from props import c02
        from yaql.language import factory as F
        h = d["factory_history"]
        f = c02.make_factory(h["base"])
        eng = f.create()
        for i, c in enumerate(h["calls"]):
            try:
                f.insert_operator(c[0], c[1], c[2], getattr(F.OperatorType, c[3]), c[4], c[5] if len(c) > 5 else None)
            except ValueError:
                continue
            e2 = f.create()
            if i + 1 <= h["engine_created_after_call"]:
                eng = e2
        for j, ed in enumerate(h.get("direct_edits_of_factory_operators", [])):
            if ed[1] == "removed":
                for r in [r for r in f.operators if r and r[0] == ed[0]]:
                    f.operators.remove(r)
            else:
                f.operators.append(())
                f.operators.append((ed[0], getattr(F.OperatorType, ed[2])))
            try:
                e2 = f.create()
            except Exception:
                continue
            if len(h["calls"]) + j + 1 <= h["engine_created_after_call"]:
                eng = e2
        saved = lc._engine
        lc._engine = eng
        try:
            return predicate(h["text"], lc.run_engine(h["text"])) is None
        finally:
            lc._engine = saved
    text = lc.decompress(d["input"])
    toks, end, out = observe(text)
    if predicate(text, out):
        return False
    return not run.coq_mismatches(HEADER, "case", "case_ok", [case_term(text, toks, end, out)])
