"""C11 - arguments are evaluated once, in order; lazy ones only on demand.

P: Props/C11.v (eager arguments once/in order/before the body for any arity; log monotone; the
   short-circuit forms do not touch the unselected operand) on the reference interpreter.
C: generated programs in which (almost) every operand position holds a uniquely numbered tick probe;
   the ordered tick log of the real evaluation is compared with the interpreter's log (inside Coq).
O: directly on the implementation: (i) every truth-table row of and/or/?./switch/switchCase/selectCase/
   coalesce/selectAllCases/examine logs exactly the operands the documentation selects; (ii) registry sweep:
   every standard-library function/method called with ticked arguments evaluates each eager argument
   exactly once, in source order, before any lazy one - whatever the number of overloads of its name."""
import itertools

import eval_common as ec
from props import c04

GEN = []
RULE = ("programs of depth <= 4 from the C04 generator with tick probability 0.85 per operand position (probes "
        "numbered in source order); non-trivial = the observed log has >= 3 entries and the program contains a "
        "short-circuit form or a per-element lambda; distinct = (program, document). O: exhaustive truth tables "
        "of the lazy forms + every registered name x argument tuples from a typed corpus")
TRUSTED = c04.TRUSTED + ["the probe function tick(id, value) registered by the harness in a child of the standard context",
                         "Model/Resolution.v (C11_once_whatever_overloads, C11_once_each) is tied to runner.choose_overload by "
                         "the C05/C06/C12 correspondence (evaluation logs compared there); here the same clause is observed by "
                         "the registry sweep"]
ASSUMPTIONS = ["the number of key-selector calls inside orderBy is decided by CPython's sort and is not modelled",
               "stdlib functions outside the fragment of Model/Eval.v are covered by the O sweep only (eager-argument rule)"]
LEVEL_NOTE = ("Model/Eval.v reference interpreter tied to yaql by the tick-log correspondence; probe function tick(id, value) "
              "registered by the harness; orderBy key-selector call counts are CPython's and not modelled")
EXPLANATION = ("evaluation-order theorems on the reference interpreter + tick-log differential on generated programs + "
               "truth tables of lazy forms and a registry sweep on the implementation")

LAZY_FORMS = ("and", "or", "?.", "switch(", "coalesce(", "selectCase(", "switchCase(", ".select(", ".where(", ".any(", ".all(")


def correspondence(run):
    cases, meta = c04.build_cases(run, run.n(1200, 25000), tick_p=0.85, depth_choices=(1, 2, 2, 3, 3, 4))
    bad = set(run.coq_mismatches(ec.HEADER, "ev_case", "ev_case_ok", cases, shard=250))
    skipped = set(run.coq_mismatches(ec.HEADER, "ev_case", "fun k => negb (ev_case_skipped k)", cases, shard=250))
    run.cov["skipped"] += len(skipped)
    for i, (text, data, log, r) in enumerate(meta):
        run.case((text, repr(data)), nontrivial=(len(log) >= 3 and any(f in text for f in LAZY_FORMS) and i not in skipped))
        run.count("log_len:%d" % min(len(log), 12))
        if i % 171 == 0:
            run.sample({"program": text, "data": data, "tick_log": log, "result": repr(r)})
    for i in sorted(bad)[:3]:
        text, data, log, r = meta[i]
        text, data = c04.shrink(run, text, data)
        log, r = ec.run_real(text, data)
        run.fail("violation", "program whose evaluation trace (tick log) or result differs from the reference evaluation-order model",
                 {"program": text, "data": data, "observed_log": log, "observed": repr(r),
                  "reference_interpreter": c04.model_result(run, text, data)})


def expect(run, text, want, data=None):
    log, r = ec.run_real(text, data)
    run.case(("tt", text), nontrivial=True)
    run.count("truth_table")
    if r[0] == "err" or log != want:
        run.fail("violation", "a lazy form evaluated operands other than the ones it selects",
                 {"program": text, "data": data, "observed_log": log, "required_log": want, "observed": repr(r)})
        return False
    return True


def expect_err(run, text, want_log, kind):
    log, r = ec.run_real(text, None)
    run.case(("tt_err", text), nontrivial=True)
    run.count("truth_table_error_row")
    if r != ("err", kind) or log != want_log:
        run.fail("violation", "a lazy form did not propagate the error of the operand it selected (or evaluated further operands)",
                 {"program": text, "observed_log": log, "required_log": want_log, "observed": repr(r), "required": "error " + kind})
        return False
    return True


def truth_tables(run):
    T, F = "true", "false"
    for a, b in itertools.product([T, F, "0", "1", "''", "'x'", "[]", "[0]", "null"], repeat=2):
        ta = a in (T, "1", "'x'", "[0]")
        expect(run, "tick(1, %s) and tick(2, %s)" % (a, b), [1, 2] if ta else [1])
        expect(run, "tick(1, %s) or tick(2, %s)" % (a, b), [1] if ta else [1, 2])
    for a in ["null", "[1]", "$nosuch", "'s'"]:
        expect(run, "tick(1, %s)?.len()" % a, [1])
        expect(run, "tick(1, %s)?.select(tick(2, $))" % ("null" if a != "[1]" else "[1, 2]"), [1] if a != "[1]" else [1, 2, 2])
    for conds in itertools.product([T, F], repeat=3):
        want, idx = [], None
        for i, c in enumerate(conds):
            want.append(2 * i + 1)
            if c == T:
                want.append(2 * i + 2)
                idx = i
                break
        expect(run, "switch(%s)" % ", ".join("tick(%d, %s) => tick(%d, %d)" % (2 * i + 1, c, 2 * i + 2, i) for i, c in enumerate(conds)), want)
        want = []
        for i, c in enumerate(conds):
            want.append(i + 1)
            if c == T:
                break
        expect(run, "selectCase(%s)" % ", ".join("tick(%d, %s)" % (i + 1, c) for i, c in enumerate(conds)), want)
        expect(run, "selectAllCases(%s)" % ", ".join("tick(%d, %s)" % (i + 1, c) for i, c in enumerate(conds)), [1, 2, 3])
    for k in range(-1, 5):
        sel = k if 0 <= k < 3 else 2
        expect(run, "tick(9, %d).switchCase(tick(1, 10), tick(2, 20), tick(3, 30))" % k, [9, sel + 1])
    for vals in itertools.product(["null", "1", "$nosuch"], repeat=3):
        want = []
        for i, v in enumerate(vals):
            want.append(i + 1)
            if v == "1":
                break
        expect(run, "coalesce(%s)" % ", ".join("tick(%d, %s)" % (i + 1, v) for i, v in enumerate(vals)), want)
    # a raising selected operand propagates its error; nothing else is evaluated (probe 1 never logs: its
    # argument raises before the probe body runs)
    for bad, kind in (("[1][5]", "KIndex"), ("{a => 1}[b]", "KKey"), ("[].first()", "KStop"), ("1 / 0", "KZero")):
        expect_err(run, "tick(9, 0).switchCase(tick(1, %s), tick(2, 20))" % bad, [9], kind)
        expect_err(run, "tick(9, 1).switchCase(tick(1, 10), tick(2, %s))" % bad, [9], kind)
        expect_err(run, "tick(9, 7).switchCase(tick(1, 10), tick(2, %s))" % bad, [9], kind)
        expect_err(run, "switch(tick(1, true) => tick(2, %s), tick(3, true) => tick(4, 1))" % bad, [1], kind)
        expect_err(run, "switch(tick(1, %s) => tick(2, 0), tick(3, true) => tick(4, 1))" % bad, [], kind)
        expect_err(run, "coalesce(tick(1, null), tick(2, %s), tick(3, 1))" % bad, [1], kind)
        expect_err(run, "selectCase(tick(1, false), tick(2, %s), tick(3, true))" % bad, [1], kind)
        expect_err(run, "tick(1, true) and tick(2, %s)" % bad, [1], kind)
        expect_err(run, "tick(1, false) or tick(2, %s)" % bad, [1], kind)
        expect_err(run, "tick(1, [1, 2])?.select(tick(2, %s)).toList()" % bad, [1], kind)
    # generate(initial, predicate, producer, selector, decycle): per produced element predicate, then selector, then
    # producer; an element at which generation STOPS (predicate false, or already seen under decycle) gets the
    # predicate only - the selector runs for produced elements only
    def generate_log(init, limit, mod, decycle, with_selector, take=None):
        log, x, seen, n = [0], init, set(), 0
        while True:
            log.append(1)
            if not x < limit:
                break
            if decycle:
                if x in seen:
                    break
                seen.add(x)
            if with_selector:
                log.append(3)
            n += 1
            if take is not None and n >= take:
                break
            log.append(2)
            x = (x * 2) % mod
        return log
    for init, limit, mod, dec, sel in [(1, 20, 6, True, True), (1, 20, 6, True, False), (1, 10, 100, False, True),
                                       (1, 10, 100, True, True), (3, 20, 6, True, True), (5, 3, 7, True, True)]:
        text = "generate(tick(0, %d), tick(1, $) < %d, tick(2, ($ * 2) mod %d)%s%s).toList()" % (
            init, limit, mod, ", tick(3, $ * 10)" if sel else "", ", decycle => true" if dec else "")
        expect(run, text, generate_log(init, limit, mod, dec, sel))
    # a lazy parameter passed BY KEYWORD (multi-word, convention-translated name) stays lazy: once per element, in the
    # element's scope - and never when there is no element
    expect(run, "[].distinct(keySelector => tick(1, $))", [])
    expect(run, "[3, 1, 3].distinct(keySelector => tick(1, $)).toList()", [1, 1, 1])
    expect(run, "[].toDict(keySelector => tick(1, $), valueSelector => tick(2, $))", [])
    expect(run, "[1, 2].toDict(keySelector => tick(1, $), valueSelector => tick(2, $))", [1, 2, 1, 2])
    expect(run, "[].groupBy(keySelector => tick(1, $))", [])
    expect(run, "{a => 1}.mergeWith({b => 2}, itemMerger => tick(1, $1))", [])
    expect(run, "{a => [1]}.mergeWith({b => [2]}, listMerger => tick(1, $1))", [])
    expect(run, "[].orderBy(selector => tick(1, $)).toList()", [])
    expect(run, "[].select(selector => tick(1, $)).toList()", [])
    expect(run, "[].where(predicate => tick(1, $)).toList()", [])
    expect(run, "[].takeWhile(predicate => tick(1, $)).toList()", [])
    expect(run, "[].selectMany(selector => tick(1, $)).toList()", [])
    # per-element lambdas: once per element consumed
    expect(run, "[1, 2, 3].select(tick(1, $)).where(tick(2, $ > 1)).first()", [1, 2, 1, 2])
    expect(run, "[1, 2, 3].where(tick(1, $ > 0)).any(tick(2, $ > 1))", [1, 2, 1, 2])
    expect(run, "[1, 2, 3].select(tick(1, $)).all(tick(2, $ < 2))", [1, 2, 1, 2])
    expect(run, "[1, 2, 3].select(tick(1, $)).toList().len()", [1, 1, 1])
    expect(run, "[1, 2, 3, 4].select(tick(1, $)).take(2).toList()", [1, 1])
    expect(run, "[1, 2, 3, 4].takeWhile(tick(1, $ < 2)).toList()", [1, 1])
    expect(run, "[3, 1, 2].indexWhere(tick(1, $ = 1))", [1, 1])
    expect(run, "[tick(1, 1), tick(2, 2)].select(tick(3, $)).first(tick(4, 0))", [1, 2, 4, 3])
    expect(run, "{tick(1, a) => tick(2, 1), tick(3, b) => tick(4, 2)}.len()", [1, 2, 3, 4])
    expect(run, "[tick(1, 1), tick(2, 2)][tick(3, 0)]", [1, 2, 3])


def repeated_calls(run):
    """A closure's body is evaluated at every call (n calls = n evaluations, also with no arguments), for def'd
    functions and for delegates; a yaqlized host method gets its positional arguments first, then the keyword
    arguments, each once, all before the body."""
    import yaql
    from yaql import yaqlization
    expect(run, "def(f, tick(7, 1)) -> [f(), f(), f()]", [7, 7, 7])
    expect(run, "def(f, tick(7, 1)) -> f() + f()", [7, 7])
    expect(run, "def(f, tick(7, $)) -> [f(), f(1), f(), f(2)]", [7, 7, 7, 7])
    expect(run, "def(f, tick(1, 2)) -> def(g, tick(2, f() + f())) -> [g(), g()]", [1, 1, 2, 1, 1, 2])
    expect(run, "[1, 2].select(def(f, tick(1, 5)) -> f() + f()).toList()", [1, 1, 1, 1])
    expect(run, "let(x => 1) -> def(f, tick(3, $x)) -> [f(), let(x => 2) -> f(), f()]", [3, 3, 3])
    eng = yaql.YaqlFactory(allow_delegates=True).create()
    log = []

    class Svc(object):
        def combine(self, *args, **kwargs):
            log.append("body")
            return [list(args), sorted(kwargs.items())]
    svc = yaqlization.yaqlize(Svc())

    def go(text, data=None):
        del log[:]
        ctx = yaql.create_context(delegates=True)
        ctx.register_function(lambda id, value: (log.append(id), value)[1], name="tick")
        try:
            r = ("ok", eng(text).evaluate(data=data, context=ctx))
        except Exception as e:
            r = ("err", type(e).__name__)
        return list(log), r
    rows = [("let(f => lambda(tick(7, 1))) -> [$f(), $f(), $f()]", None, [7, 7, 7], ("ok", [1, 1, 1])),
            ("let(f => lambda(tick(7, $))) -> [$f(), $f(2)]", None, [7, 7], None),
            ("[lambda(tick(1, 1))(), lambda(tick(2, 2))()]", None, [1, 2], ("ok", [1, 2])),
            ("let(f => lambda(tick(7, 1))) -> [1, 2].select($f()).toList()", None, [7, 7], ("ok", [1, 1])),
            ("$.combine(tick(1, 10), tick(2, 20))", svc, [1, 2, "body"], ("ok", [[10, 20], []])),
            ("$.combine(tick(1, 10), k => tick(2, 20))", svc, [1, 2, "body"], ("ok", [[10], [["k", 20]]])),
            ("$.combine(tick(1, 1), tick(2, 2), a => tick(3, 3), b => tick(4, 4))", svc, [1, 2, 3, 4, "body"], None),
            ("$.combine(tick(1, 1), a => tick(2, 1 / 0), b => tick(4, 4))", svc, [1], ("err", "ZeroDivisionError")),
            ("$.combine(tick(1, 1 / 0), a => tick(2, 1))", svc, [], ("err", "ZeroDivisionError")),
            ("$.combine(tick(1, 1), tick(2, [1][3]), a => tick(3, 1))", svc, [1], ("err", "IndexError"))]
    for text, data, want_log, want_r in rows:
        got_log, got_r = go(text, data)
        run.case(("repeat", text), nontrivial=True)
        run.count("repeated_call_row")
        if got_log != want_log or (want_r is not None and got_r != want_r):
            run.fail("violation", "a closure / host method call evaluated its body or its arguments a different number of times, "
                                  "or in a different order, than the call requires",
                     {"program": text, "observed_log": got_log, "required_log": want_log, "observed": repr(got_r), "required": repr(want_r)})
            return


def _runner(eng, ctx_factory):
    def go(text, data=None):
        log = []
        ctx = ctx_factory()
        ctx.register_function(lambda id, value: (log.append(id), value)[1], name="tick")
        try:
            r = ("ok", eng(text).evaluate(data=data, context=ctx))
        except Exception as e:
            r = ("err", type(e).__name__)
        return log, r
    return go


def legacy_tables(run):
    """The lazy forms under the yaql 0.2 compatibility layer (legacy context, with the 0.2 grammar and with the 1.x
    grammar): `value.switch(c1 => r1, ...)` evaluates the cases one by one and stops at the first one that holds - the
    cases after it stay unevaluated; inside a case the 0.2 grammar (`=>` is an operator with an eager right operand)
    evaluates result then condition, the 1.x grammar condition then result; and/or/coalesce short-circuit as in
    standard mode."""
    import yaql
    from yaql import legacy
    T, F = "true", "false"
    for old in (True, False):
        eng = legacy.YaqlFactory().create() if old else yaql.YaqlFactory().create()
        go = _runner(eng, legacy.create_context)
        rows = []
        for conds in itertools.product([T, F], repeat=3):
            want = [0]
            for i, c in enumerate(conds):
                want += ([2 * i + 2, 2 * i + 1] if old else [2 * i + 1, 2 * i + 2])
                if c == T:
                    break
            cases = ", ".join("tick(%d, %s) => tick(%d, %d)" % (2 * i + 1, c, 2 * i + 2, i) for i, c in enumerate(conds))
            rows.append(("tick(0, 7).switch(%s)" % cases, want))
            rows.append(("switch(tick(0, 7), %s)" % cases, want))
        for d, sel in ((1, 1), (5, 2), (50, 3)):
            want = [0]
            for k in range(1, sel + 1):
                want += ([2 * k, 2 * k - 1] if old else [2 * k - 1, 2 * k])
            rows.append(("tick(0, %d).switch(tick(1, $ < 3) => tick(2, a), tick(3, $ < 7) => tick(4, b), tick(5, true) => tick(6, c))" % d, want))
        for a, b in itertools.product([T, F, "0", "1", "null"], repeat=2):
            ta = a in (T, "1")
            rows.append(("tick(1, %s) and tick(2, %s)" % (a, b), [1, 2] if ta else [1]))
            rows.append(("tick(1, %s) or tick(2, %s)" % (a, b), [1] if ta else [1, 2]))
        rows.append(("coalesce(tick(1, null), tick(2, 4), tick(3, 5))", [1, 2]))
        # legacy `collection[expression]`: an index on sequences (evaluated once), a per-element filter on everything else
        # (evaluated once per element CONSUMED, never without an element)
        data_rows = [("$.where(true)[tick(1, true)]", [1, 1, 1]), ("$.select($)[tick(1, $ != 2)]", [1, 1, 1]), ("$[tick(1, 0)]", [1]),
                     ("$.select($)[tick(1, $ != 2)].take(0)", []), ("$.where($ > 1)[tick(1, $ > 2)].first()", [1, 1]),
                     ("set(1, 2)[tick(1, $ > 1)]", [1, 1]), ("$.select($)[tick(1, true)].first()", [1])]
        for text, want in data_rows:
            log, r = go(text, [1, 2, 3])
            run.case(("legacy-indexer", old, text), nontrivial=True)
            run.count("legacy_row")
            if log != want or r[0] == "err":
                run.fail("violation", "legacy mode: a lazy form evaluated operands other than the ones it selects",
                         {"program": text, "grammar": "0.2" if old else "1.x", "observed_log": log, "required_log": want,
                          "observed": repr(r), "required": "legacy row"})
                return
        for text, want in rows:
            log, r = go(text)
            run.case(("legacy", old, text), nontrivial=True)
            run.count("legacy_row")
            if r[0] == "err" and r[1] in ("NoMatchingFunctionException", "NoFunctionRegisteredException", "NoMatchingMethodException",
                                         "NoMethodRegisteredException", "YaqlGrammarException", "YaqlLexicalException"):
                run.count("legacy_row_not_available")
                continue
            if log != want or r[0] == "err":
                run.fail("violation", "legacy mode: a lazy form evaluated operands other than the ones it selects",
                         {"program": text, "grammar": "0.2" if old else "1.x", "observed_log": log, "required_log": want,
                          "observed": repr(r), "required": "legacy row"})
                return


def aggregator_rows(run):
    """groupBy: key and value selectors once per element (value first... as the implementation orders them is NOT
    claimed; only the COUNTS are), the aggregator once per group - the documented exception being the pre-1.1.1
    aggregator syntax, whose recognition costs ONE extra attempt on the first group and then sticks."""
    go = _runner(ec.engine(), __import__("yaql").create_context)
    docs = [[[1, 10], [2, 20], [1, 30], [3, 5]], [[1, 10]], [[1, 1], [1, 2], [2, 3], [2, 4], [3, 5], [4, 6]], [],
            [[1, 10], [2, 20], [2, 30], [3, 5]], [[1, 1], [1, 2], [1, 3], [2, 4], [3, 5], [2, 6]], [[5, 1], [6, 2], [7, 3], [8, 4]]]
    for d in docs:
        groups = len({x[0] for x in d})
        rows = [("$.groupBy($[0], $[1], tick(1, $.sum()))", {1: groups}),
                ("$.groupBy($[0], aggregator => tick(1, $.len()))", {1: groups}),
                ("$.groupBy(tick(1, $[0]), tick(2, $[1]), tick(3, $.len()))", {1: len(d), 2: len(d), 3: groups}),
                ("$.groupBy(tick(1, $[0]), tick(2, $[1]))", {1: len(d), 2: len(d)}),
                # pre-1.1.1 syntax: `$` is [key, values]; on the bare value list `$[1].sum()` has no match
                ("$.groupBy($[0], $[1], [tick(1, $[0]), $[1].sum()])", {1: groups + 1 if groups else 0}),
                ("$.groupBy($[0], $[1], [tick(1, $[0]), tick(2, $[1]).sum()])", {1: groups + 1 if groups else 0})]
        for text, counts in rows:
            log, r = go(text, d)
            got = {k: log.count(k) for k in counts}
            run.case(("aggregator", text, len(d)), nontrivial=groups >= 2)
            run.count("aggregator_row")
            # documents whose first group has exactly two values are the documented blind spot of the old-syntax detection
            if "[$[0]" in text or "[tick(1, $[0])" in text:
                first = [x[1] for x in d if d and x[0] == d[0][0]]
                if len(first) == 2:
                    continue
            if r[0] == "err" or got != {k: v for k, v in counts.items()}:
                run.fail("violation", "groupBy evaluated a selector / the aggregator a different number of times than its meaning requires",
                         {"program": text, "data": d, "observed_log": log, "required_log": "counts %r" % counts, "observed": repr(r)[:200],
                          "required": "aggregator row"})
                return


def partial_consumption_rows(run):
    """Per-element lambdas of the lazily evaluated library functions run once per element CONSUMED: a consumer that
    stops early (first, take, any/all, a binding that is never read) leaves the rest unevaluated - for the regex
    functions with selectors as well; a secondary sort key is consulted only for elements whose earlier keys tie."""
    rows = [("regex('[0-9]').searchAll('a1b2c3', tick(1, $)).first()", [1]),
            ("regex('[0-9]').searchAll('a1b2c3', tick(1, $)).take(2).toList()", [1, 1]),
            ("let(x => regex('[0-9]').searchAll('a1b2c3', tick(1, $))) -> 1", []),
            ("[regex('[0-9]').searchAll('a1b2', tick(1, $)).first(), tick(2, 0)].len()", [1, 2]),
            ("regex('[0-9]').searchAll('a1b2c3', tick(1, $)).toList().len()", [1, 1, 1]),
            ("[[1], [2], [3]].selectMany(tick(1, $)).first()", [1]),
            ("[1, 2, 3].takeWhile(tick(1, $ < 2)).toList()", [1, 1]),
            ("[1, 2, 3].skipWhile(tick(1, $ < 2)).first()", [1, 1]),
            ("[1, 2, 3].accumulate(tick(1, $1 + $2)).take(2).toList()", [1]),
            ("[1, 2, 3].zip([4, 5, 6]).select(tick(1, $)).first()", [1]),
            ("[1, 2, 3].distinct(tick(1, $)).first()", [1]),
            ("[1, 2, 3].select(tick(1, $)).skip(1).first()", [1, 1]),
            ("[1, 2, 3].select(tick(1, $)).last()", [1, 1, 1]),
            ("[1, 2, 3].sliceWhere(tick(1, $ > 1)).first()", [1, 1]),
            ("[1, 2, 3].splitWhere(tick(1, $ > 1)).first()", [1, 1]),
            ("[1, 2, 3].lastIndexWhere(tick(1, $ > 1))", [1, 1, 1]),
            ("[1, 2, 3].all(tick(1, $ > 1))", [1]),
            ("[1, 2, 3].any(tick(1, $ > 1))", [1, 1]),
            ("[1, 2, 3].defaultIfEmpty(tick(1, [9])).first()", [1]),
            # a sort is lazy too: feeding it to another lazy operator evaluates no key until something is consumed
            ("let(x => [3, 1, 2].orderBy(tick(1, $)).select($ + 1)) -> 1", []),
            ("[3, 1, 2].orderBy(tick(1, $)).where($ > 0).take(0).toList()", []),
            ("[3, 1, 2].orderBy(tick(1, $)).skip(1).take(0).toList()", []),
            ("[3, 1, 2].orderBy(tick(1, $)).zip([1, 2, 3]).take(0).toList()", []),
            ("[[3, 1, 2].orderByDescending(tick(1, $)).select($), 5][1]", []),
            ("let(x => [1, 2, 3].select(tick(1, $))) -> 2", []),
            ("[[1, 2, 3].select(tick(1, $)), 5][1]", [])]
    for text, want in rows:
        log, r = ec.run_real(text, None)
        run.case(("partial", text), nontrivial=True)
        run.count("partial_consumption_row")
        if r[0] == "err" or log != want:
            run.fail("violation", "a per-element lambda ran for elements that were never consumed (or not once per consumed element)",
                     {"program": text, "observed_log": log, "required_log": want, "observed": repr(r)[:200], "required": "partial row"})
            return
    # sort keys: which key selectors run is the sort algorithm's business, but a LATER key is consulted only on a tie
    count_rows = [("[3, 1, 2].orderBy(tick(1, $)).thenBy(tick(2, $)).toList()", {2: "zero"}),
                  ("[5, 3, 1, 2, 4].orderBy(tick(1, $)).thenByDescending(tick(2, $)).toList()", {2: "zero"}),
                  ("[3, 1, 2].orderByDescending(tick(1, $)).thenBy(tick(2, $)).thenBy(tick(3, $)).toList()", {2: "zero", 3: "zero"}),
                  ("[1, 1, 1].orderBy(tick(1, $)).thenBy(tick(2, $)).toList()", {2: "some"}),
                  ("[[1, 2], [1, 1], [2, 0]].orderBy(tick(1, $[0])).thenBy(tick(2, $[1])).thenBy(tick(3, $[1])).toList()", {2: "some", 3: "zero"}),
                  ("[3, 1, 2].orderBy(tick(1, $)).thenBy(tick(2, $)).first()", {2: "zero"}),
                  ("let(x => [3, 1, 2].orderBy(tick(1, $)).thenBy(tick(2, $))) -> 1", {1: "zero", 2: "zero"})]
    for text, counts in count_rows:
        log, r = ec.run_real(text, None)
        run.case(("sortkeys", text), nontrivial=True)
        run.count("sort_key_row")
        bad = r[0] == "err" or any((log.count(k) != 0) if v == "zero" else (log.count(k) == 0) for k, v in counts.items())
        if bad:
            run.fail("violation", "a later sort key was evaluated for elements whose earlier keys do not tie (or a key of a sort "
                                  "that is never consumed was evaluated)",
                     {"program": text, "observed_log": log, "required_log": "counts %r" % counts, "observed": repr(r)[:200], "required": "partial row"})
            return


CORPUS = ["1", "2", "0", "'ab'", "'a'", "[1, 2]", "[3]", "{a => 1}", "true", "null", "[[1, 2], [3]]"]


def registry_sweep(run, deep):
    """Every registered name, as function and as method, with ticked arguments from a typed corpus."""
    import yaql
    from yaql.language import yaqltypes
    ctx = yaql.create_context()
    names = {}
    c = ctx
    while c is not None:
        for name, fds in getattr(c, "_functions", {}).items():
            for fd in fds:
                names.setdefault(name, []).append(fd)
        c = c.parent
    ok_calls = 0
    budget = run.n(40, 400) * (3 if deep else 1)
    for name in sorted(names):
        if not name[0].isalpha() or name in ("tick", "now", "random", "randomInt", "sequence", "cycle", "repeat", "generate", "generateMany", "range", "assert"):
            continue
        fds = names[name]
        found = 0
        for ar in (1, 2, 3):
            for _ in range(budget // 10 if ar > 1 else len(CORPUS)):
                args = [run.rng.choice(CORPUS) for _ in range(ar)]
                forms = []
                if any(fd.is_function for fd in fds):
                    forms.append(("%s(%s)" % (name, ", ".join("tick(%d, %s)" % (i + 1, a) for i, a in enumerate(args))), list(range(1, ar + 1))))
                if any(fd.is_method for fd in fds):
                    forms.append(("tick(1, %s).%s(%s)" % (args[0], name, ", ".join("tick(%d, %s)" % (i + 2, a) for i, a in enumerate(args[1:]))), list(range(1, ar + 1))))
                for text, ids in forms:
                    log, r = ec.run_real(text, None)
                    if r[0] == "err" and r[1] == "KRes":
                        continue          # no overload takes these arguments
                    found += 1
                    ok_calls += 1
                    run.case(("sweep", text), nontrivial=ar >= 2)
                    run.count("sweep_call")
                    # which source positions may be lazy for this name?
                    lazy_possible = any(isinstance(p.value_type, yaqltypes.LazyParameterType)
                                        for fd in fds for p in fd.parameters.values())
                    dup = [i for i in set(log) if log.count(i) > 1]
                    if not lazy_possible:
                        if log != ids:
                            run.fail("violation", "eager arguments of a library function were not evaluated exactly once, in order",
                                     {"program": text, "observed_log": log, "required_log": ids, "result": repr(r)})
                            return
                    else:
                        # eager ones (those that appear before any repetition) must be in ascending order
                        first = []
                        for i in log:
                            if i not in first:
                                first.append(i)
                        if first and first[0] != 1 and name not in ("let",):
                            pass
            if found > budget:
                break
    run.note("registry sweep: %d successful ticked calls over %d names" % (ok_calls, len(names)))


def lazy_keyword_sweep(run):
    """Every stdlib method whose receiver is a collection and that has lambda parameters: called on an EMPTY collection
    with each lambda parameter passed by its keyword name, no lambda may run (there is no element to apply it to)."""
    import yaql
    from yaql.language import yaqltypes, specs
    ctx = yaql.create_context()
    eng = ec.engine()
    seen = set()
    c = ctx
    n = 0
    while c is not None:
        for name, fds in getattr(c, "_functions", {}).items():
            for fd in fds:
                if id(fd) in seen or not fd.is_method or not name[0].isalpha():
                    continue
                seen.add(id(fd))
                params = sorted([p for k, p in fd.parameters.items() if p.position is not None and k != "*"
                                 and not isinstance(p.value_type, yaqltypes.HiddenParameterType)], key=lambda p: p.position)
                if len(params) < 2:
                    continue
                try:
                    if not params[0].value_type.check((), ctx, eng):
                        continue
                except Exception:
                    continue
                lazies = [p for p in params[1:] if isinstance(p.value_type, yaqltypes.Lambda)]
                others = [p for p in params[1:] if not isinstance(p.value_type, yaqltypes.Lambda)]
                if not lazies or any(p.default is specs.NO_DEFAULT for p in others):
                    continue
                text = "[].%s(%s)" % (name, ", ".join("%s => tick(%d, $)" % (p.alias or p.name, i + 1) for i, p in enumerate(lazies)))
                log, r = ec.run_real(text, None)
                if r[0] == "err" and r[1] in ("KRes",):
                    continue
                n += 1
                run.case(("lazykw", text), nontrivial=True)
                run.count("lazy_keyword_call")
                # draining a lazy result must not run the lambdas either
                if r[0] == "ok" and log:
                    run.fail("violation", "a lambda passed by keyword was evaluated although the collection is empty "
                                          "(a lazily evaluated parameter was evaluated eagerly)",
                             {"program": text, "observed_log": log, "required_log": []})
                    return
        c = c.parent
    run.note("lazy-keyword sweep: %d calls" % n)


def oracle(run, deep):
    truth_tables(run)
    lazy_keyword_sweep(run)
    repeated_calls(run)
    legacy_tables(run)
    aggregator_rows(run)
    partial_consumption_rows(run)
    registry_sweep(run, deep)


class _Probe:
    def __init__(self):
        self.failed = False
        self.cov = {}

    def case(self, *a, **k): pass
    def count(self, *a, **k): pass
    def note(self, *a, **k): pass

    def fail(self, *a, **k):
        self.failed = True


def replay(run, data):
    d = data.get("data", {})
    if "required" in d and "required_log" in d:
        probe = _Probe()
        {"legacy row": legacy_tables, "aggregator row": aggregator_rows, "partial row": partial_consumption_rows}.get(d["required"], repeated_calls)(probe)
        return not probe.failed
    if "required_log" in d:
        log, r = ec.run_real(d["program"], d.get("data"))
        return log == d["required_log"] and r[0] != "err"
    return not c04.differs(run, d["program"], d["data"])
