"""C15 - scalar operators form a consistent arithmetic and ordering.

P: Props/C15.v over Gen/ScalarOps.v (regenerated from the live registry on every run).
C: every pair (and sampled triples `($a OP $b) OP2 $c`) of a boundary corpus under every
   binary and unary scalar operator, operands bound as variables; the real engine's result
   (canonical value, floats by bit pattern, or error class) and the payload function that
   actually ran are compared with Model/Scalars.v evaluated inside Coq over the regenerated
   table.
O: the property's own laws evaluated directly on the implementation (no model involved):
   order consistency, null least, booleans rejected, exact integers, floor division
   identity, mixed arithmetic is float arithmetic, exact int/float comparison, unrelated
   kinds -> no matching function, lexicographic strings, transitivity on triples."""
import collections.abc
import datetime
import fractions
import itertools
import json
import math
import os

import gal
import gen_scalarops as G
import yaql
from yaql.language import exceptions as yexc

GEN = ["scalarops"]
RULE = ("all ordered pairs of the boundary corpus (ints 0, +-1, 2, -7, 2^63-1, 2^63+1, 10^40 [+ -2, 7, 3, 2^53+1, 2^63, -(2^63)-1, "
        "-10^40 in thorough]; floats +-0.0, 1, -2.5, 1e308, 5e-324, 2^63, +-inf, nan [+ more]; strings '', ASCII, precomposed and "
        "decomposed spellings of the same text (e-acute, A-ring, ANGSTROM SIGN), Hangul jamo/syllable, astral, lone surrogate "
        "[+ OHM SIGN, ligature, flag, ...]; null, true, false; list/tuple) under each of the 12 binary operators, every value under "
        "each of the 3 unary operators, plus seeded random triples ($a OP $b) OP2 $c over scalars incl. seeded random "
        "ints/floats/strings; the pair grid is run in THREE configurations (default engine+context; engine option "
        "yaql.iterableDicts; legacy factory + legacy context - the two latter over an 18-value corpus in the quick tier); "
        "operands bound as variables AND, as a second delivery route, spelled as LITERALS in the expression text (20 "
        "spellable values incl. true/false/null, negative numbers, -0.0, big ints, strings; both operands, or one of "
        "them), and chains of unary operators (- -, -+, +-, ---, not -, - not, ...) over a variable and over a literal; "
        "string/sequence repetition additionally on engines WITH yaql.memoryQuota in {200, 1000, 5000, 20000} and "
        "yaql.limitIterators, counts swept around the true threshold getsizeof(result) = quota from both sides; "
        "the whole operator x kind grid (error rows and well-typed rows) again with operands that are expensive or "
        "impossible to render or compare: integers of 5028 and 102351 decimal digits (built as values, never printed: "
        "written to Coq by their formula, observed by sign/bit length/residues), and in the oracle also a 200000-character "
        "string, a 3000-deep nested list and a host object whose __repr__/__str__ raise; "
        "non-trivial = a payload ran or an operand is null/boolean; distinct = distinct "
        "(configuration, route, operators, operands)")
TRUSTED = ["Model/Scalars.v payload semantics are a hand transcription of math.py/strings.py/common.py/boolean.py and the "
           "repetition/membership overloads of collections.py; tied by this correspondence",
           "harness/gen_scalarops.py: acceptance rows come from the live value_type.check on representatives of each kind "
           "(all representatives of a kind must agree, else generation fails), tags from payload module+qualname",
           "executable float instance PF (Model/Scalars.v) over Coq's primitive binary64 floats (PrimFloat/Uint63 primitives): "
           "used by the correspondence only; theorems quantify over an abstract float type",
           "payload instrumentation for 'which overload ran': payload attribute of the FunctionDefinition objects of a "
           "separate create_context() wrapped; values are additionally observed on an untouched context"]
ASSUMPTIONS = ["operands reach the operators as variables of a child context; engine/context are one of the three configurations "
               "default, {'yaql.iterableDicts': True}, legacy factory + legacy context (no memory quota; other engine options "
               "do not reach value_type.check of the operator overloads)",
               "quota engines: strings are ASCII (the implementation's estimate is exact for them; for non-ASCII strings and for "
               "negative counts it over-estimates - observed, outside the sweep); a sequence result between 85% and 100% of the "
               "quota, or above 1000 items, may be returned or refused (output conversion copies it; yaql.limitIterators)",
               "sequences in the corpus hold integers only; repetition results of more than 10^5 items (below the 2^62 count at which Python fails at once) are not generated",
               "NaN is excluded from the order-consistency statements (C15_order_consistent_num premises; O corpus has no NaN)",
               "float laws of C15_order_consistent_num (three-way comparison antisymmetric, undefined exactly on NaN) are "
               "premises, not proved of IEEE arithmetic"]
EXPLANATION = ("proofs over the regenerated overload table (dispatch grid, booleans rejected, null overloads) and the payload model "
               "(exact integers, floor division, order laws incl. lexicographic strings) + all-pairs differential check of "
               "dispatch and value against the real engine + direct law oracle on the implementation")
ALLOWED_AXIOMS = []
HEADER = "From Coq Require Import PrimFloat.\nFrom YV Require Import Model.Scalars Gen.ScalarOps."
HEADER64 = "From YV Require Import Model.Scalars Model.ScalarsB64 Gen.ScalarOps."

HERE = os.path.dirname(os.path.dirname(os.path.dirname(os.path.abspath(__file__))))

# ----------------------------------------------------------------------------- corpus
INTS_CORE = [0, 1, -1, 2, -7, 2 ** 63 - 1, 2 ** 63 + 1, 10 ** 40]
INTS_MORE = [-2, 7, 3, 2 ** 53 + 1, 2 ** 63, -(2 ** 63) - 1, -(10 ** 40)]
FLOATS_CORE = [0.0, -0.0, 1.0, -2.5, 1e308, 5e-324, float(2 ** 63)]
FLOATS_MORE = [-1.0, 0.5, 2.5, float(2 ** 53), 1e40, -1e308, 1.7976931348623157e308, 2.2250738585072014e-308, 7.0]
FLOATS_SPECIAL = [float("inf"), float("-inf"), float("nan")]
STRS_CORE = ["", "a", "ab", "b", "\u00e9", "e\u0301", "a\U0001F600",
             "\u00c5", "A\u030a",                     # A-ring: precomposed, combining sequence
             "\ud800"]                                # lone surrogate
STRS_MORE = ["A", "aa", "z", "\U0001F600", "\uffff", "ababab", "1", "\x00", "\u03a9", "\u2126",   # OMEGA / OHM SIGN
             "\u212b",                                # ANGSTROM SIGN
             "\u1100\u1161", "\uac00",               # Hangul jamo / the syllable
             "\u00e9t\u00e9", "e\u0301te\u0301", "\U0001F1E9\U0001F1EA", "\ufb01", "\udc00\ud800", "e\u0301\u0300"]
OTHERS = [None, True, False]
SEQS = [[1, 2], (1, 2), [], ()]
SEQS_MORE = [[0], (7, 7, 7)]
SETS = [frozenset(), frozenset([1, 2]), frozenset([2, 3]), {1, 2}]      # the last one is a mutable set
DICTS = [{1: 10}, {1: 11, 2: 20}]
SETS_MORE = [frozenset([1]), frozenset([0, 1, 2, 3]), {7}, {}, {2: 20, 3: 30}]

BINARY = [(c, sp) for c, _, ar, sp in G.OPS if ar == 2]
UNARY = [(c, sp) for c, _, ar, sp in G.OPS if ar == 1]
CTOR_OF = {sp: c for c, sp in BINARY}
CTOR_OF_UNARY = {sp: c for c, sp in UNARY}
ARITH_ORDER = ["+", "-", "*", "/", "mod", "<", "<=", ">", ">="]
ORDER = ["<", "<=", ">", ">="]


def random_scalars(rng, n):
    """seeded random integers (1..200 bits), finite floats (random bit patterns) and short strings"""
    import struct
    out = []
    for _ in range(n):
        r = rng.random()
        if r < 0.4:
            v = rng.getrandbits(rng.choice([1, 3, 8, 31, 53, 54, 63, 64, 65, 130, 200]))
            out.append(-v if rng.random() < 0.5 else v)
        elif r < 0.75:
            f = struct.unpack("<d", struct.pack("<Q", rng.getrandbits(64)))[0]
            if f != f or f in (float("inf"), float("-inf")):
                f = float(rng.randrange(-5, 6)) / 4
            out.append(f if rng.random() < 0.7 else float(rng.randrange(-2 ** 54, 2 ** 54)))
        else:
            out.append("".join(rng.choice(["a", "b", "A", "\u00e9", "\U0001F600", "\x00", "z"]) for _ in range(rng.randrange(0, 5))))
    return out


CONFIGS = G.CONFIGS
# the configurations other than the default one run a pair grid over this smaller set
SMALL = [0, -7, 2 ** 63 + 1, 0.0, -2.5, "", "a", "e\u0301", None, True, False, [1, 2], (1, 2),
         frozenset([1]), frozenset([1, 2]), {1: 10}, {1: 11, 2: 20}]


def corpus_values(full, special):
    vals = INTS_CORE + FLOATS_CORE + STRS_CORE + OTHERS + SEQS + SETS + DICTS
    if full:
        vals = vals + INTS_MORE + FLOATS_MORE + STRS_MORE + SEQS_MORE + SETS_MORE
    if special:
        vals = vals + (FLOATS_SPECIAL if full else [float("inf"), float("nan")])
    return vals


# ----------------------------------------------------------------------------- value plumbing
BIG_BITS = 12000          # integers above this are never rendered in decimal (CPython refuses beyond 4300 digits)
BIG_M1, BIG_M2 = 2 ** 61 - 1, 10 ** 9 + 7


def show(x, depth=0):
    """repr that never fails and never renders what is expensive or impossible to render"""
    if depth > 6:
        return "..."
    if x is None or isinstance(x, bool):
        return repr(x)
    if isinstance(x, int):
        if x.bit_length() < BIG_BITS:
            return repr(x)
        return "<int %s bits=%d mod(2^61-1)=%d>" % ("-" if x < 0 else "+", x.bit_length(), abs(x) % BIG_M1)
    if isinstance(x, str):
        return repr(x) if len(x) < 200 else "<str len=%d %r...>" % (len(x), x[:20])
    if isinstance(x, (list, tuple)):
        body = ", ".join(show(e, depth + 1) for e in list(x)[:12]) + (", ..." if len(x) > 12 else "")
        return ("[%s]" if isinstance(x, list) else "(%s)") % body
    if isinstance(x, dict):
        return "{" + ", ".join("%s: %s" % (show(k, depth + 1), show(v, depth + 1)) for k, v in list(x.items())[:12]) + "}"
    try:
        return repr(x)
    except Exception:      # noqa - objects whose __repr__ raises are part of the corpus
        return "<%s object>" % type(x).__name__


def fp(x, depth=0):
    """fingerprint component that core may safely repr()"""
    if isinstance(x, int) and not isinstance(x, bool) and x.bit_length() >= BIG_BITS:
        return ("bigint", x < 0, x.bit_length(), abs(x) % BIG_M1)
    if isinstance(x, str) and len(x) > 200:
        return ("longstr", len(x), hash(x))
    if isinstance(x, tuple):
        return ("deep",) if depth > 20 else tuple(fp(e, depth + 1) for e in x)
    return x


class Evil:
    """a host object that cannot be rendered"""
    def __repr__(self):
        raise RuntimeError("this object cannot be rendered")
    __str__ = __repr__


def kind(v):
    if v is None:
        return "null"
    if isinstance(v, bool):
        return "bool"
    if isinstance(v, int):
        return "int"
    if isinstance(v, float):
        return "float"
    if isinstance(v, str):
        return "str"
    if isinstance(v, list):
        return "list"
    if isinstance(v, tuple):
        return "tuple"
    if isinstance(v, (set, frozenset)):
        return "set"
    if isinstance(v, collections.abc.Mapping):
        return "dict"
    if isinstance(v, datetime.datetime):
        return "datetime"
    if isinstance(v, datetime.timedelta):
        return "timespan"
    return "other"


def depth_of(v, cap=200):
    d = 0
    while isinstance(v, (list, tuple)) and len(v) == 1 and d < 10 ** 6:
        v = v[0]
        d += 1
    return d


def enc(v):
    """JSON-able, lossless"""
    if depth_of(v) > 100:
        return {"t": "deep", "n": depth_of(v)}
    k = kind(v)
    if k == "null":
        return {"t": "null"}
    if k == "bool":
        return {"t": "bool", "v": v}
    if k == "int":
        return {"t": "int", "v": hex(v)}
    if k == "float":
        return {"t": "float", "v": v.hex()}
    if k == "str":
        return {"t": "str", "v": [ord(c) for c in v]}
    if k in ("list", "tuple"):
        return {"t": k, "v": [enc(x) for x in v]}
    if k == "set":
        return {"t": "fset" if isinstance(v, frozenset) else "mset", "v": [enc(x) for x in sorted(v)]}
    if k == "dict":
        return {"t": "dict", "v": [[enc(a), enc(b)] for a, b in v.items()]}
    if k == "datetime":
        return {"t": "datetime", "v": v.isoformat()}
    if k == "timespan":
        return {"t": "timespan", "v": [v.days, v.seconds, v.microseconds]}
    return {"t": "evil" if isinstance(v, Evil) else "other", "v": type(v).__name__}


def dec(j):
    t = j["t"]
    if t == "null":
        return None
    if t == "bool":
        return bool(j["v"])
    if t == "int":
        return int(j["v"], 0)
    if t == "evil":
        return Evil()
    if t == "deep":
        return deep_list(j["n"])
    if t == "datetime":
        return datetime.datetime.fromisoformat(j["v"])
    if t == "timespan":
        return datetime.timedelta(*j["v"])
    if t == "float":
        return float.fromhex(j["v"])
    if t == "str":
        return "".join(chr(c) for c in j["v"])
    if t == "list":
        return [dec(x) for x in j["v"]]
    if t == "tuple":
        return tuple(dec(x) for x in j["v"])
    if t == "fset":
        return frozenset(dec(x) for x in j["v"])
    if t == "mset":
        return set(dec(x) for x in j["v"])
    if t == "dict":
        return {dec(a): dec(b) for a, b in j["v"]}
    raise ValueError(j)


def canon(v, depth=0):
    """canonical, hashable, type-exact form of a result (True != 1 != 1.0; floats by bit pattern)"""
    if depth > 40:
        return ("deep",)
    k = kind(v)
    if k == "float":
        return ("float", "nan" if v != v else v.hex())
    if k in ("list", "tuple"):
        return ("seq", tuple(canon(x, depth + 1) for x in v))
    if k == "set":
        return ("set", tuple(sorted(canon(x) for x in v)))
    if k == "dict":
        return ("dict", tuple(sorted((canon(a), canon(b)) for a, b in v.items())))
    if k == "other":
        return ("other", type(v).__name__)
    if k == "datetime":
        return (k, v.isoformat())
    if k == "timespan":
        return (k, v.total_seconds())
    return (k, v)


ERR_CLASSES = [
    (yexc.NoMatchingFunctionException, "ENoMatch"),
    (yexc.AmbiguousFunctionException, "EAmbiguous"),
    (ZeroDivisionError, "EZeroDiv"),
    (yexc.MemoryQuotaExceededException, "EQuota"),
    (OverflowError, "EResource"),
    (MemoryError, "EResource"),
]


def err_class(e):
    for cls, name in ERR_CLASSES:
        if isinstance(e, cls):
            return name
    return "Other:" + type(e).__name__


class Impl:
    """the real engine; one pristine context for values, one with recording payloads for
    'which overload ran'"""

    def __init__(self, cfg="CDefault", options=None):
        self.cfg = cfg
        self.ctx, self.engine = G.make_config(cfg)
        self.ictx, _ = G.make_config(cfg)
        if options is not None:
            self.engine = yaql.YaqlFactory().create(dict(options))
        self.ran = []
        self.cache = {}
        for _, name, arity, _ in G.OPS:
            layers, _spec = G.describe(self.ictx, self.engine, name, arity)
            for layer in layers:
                for d in layer:
                    d["fd"].payload = self._wrap(d["fd"].payload, d["tag"])

    def _wrap(self, orig, tag):
        ran = self.ran

        def payload(*a, **k):
            ran.append(tag)
            return orig(*a, **k)
        payload.__c15_original__ = orig
        return payload

    def expr(self, text):
        e = self.cache.get(text)
        if e is None:
            e = self.cache[text] = self.engine(text)
        return e

    def _eval(self, base, text, env):
        c = base.create_child_context()
        for k, v in env.items():
            c[k] = v
        try:
            return ("val", canon(self.expr(text).evaluate(context=c)))
        except Exception as e:        # noqa - every exception class is an observation
            return ("err", err_class(e))

    def run(self, text, **env):
        """observation on the untouched context"""
        return self._eval(self.ctx, text, env)

    def run_traced(self, text, **env):
        del self.ran[:]
        obs = self._eval(self.ictx, text, env)
        return obs, list(self.ran)


_impls = {}


def impl(cfg="CDefault"):
    if not _impls:
        G.generate()           # fixes the numbering of payloads outside the model (POther n)
    if cfg not in _impls:
        _impls[cfg] = Impl(cfg)
    return _impls[cfg]


def impl_quota(quota):
    key = ("quota", quota)
    if key not in _impls:
        impl()
        _impls[key] = Impl("CQuota", {"yaql.memoryQuota": quota, "yaql.limitIterators": 1000})
    return _impls[key]


def impl_of(case):
    return impl_quota(case["quota"]) if case.get("quota") else impl(cfg_of(case))


def cfg_of(case):
    return case.get("cfg", "CDefault")


# ---- the literal route: operands spelled in the expression text instead of bound as variables
def lit(v):
    """yaql spelling of a value, or None when it has none (exponent floats, inf/nan, surrogates, quotes)"""
    k = kind(v)
    if k == "null":
        return "null"
    if k == "bool":
        return "true" if v else "false"
    if k == "int":
        return str(v)
    if k == "float":
        if v != v or v in (float("inf"), float("-inf")):
            return None
        t = repr(v)
        if "e" in t:
            t = format(v, ".1f")
        try:
            back = float(t)
        except ValueError:
            return None
        return t if (back == v and math.copysign(1, back) == math.copysign(1, v) and len(t) < 400) else None
    if k == "str":
        if all(c.isprintable() and c not in "'\\" and not 0xD800 <= ord(c) <= 0xDFFF for c in v):
            return "'" + v + "'"
        return None
    if k == "tuple" and all(kind(x) == "int" for x in v):     # a yaql list literal denotes a tuple
        return "[" + ", ".join(str(x) for x in v) + "]"
    return None


def signed(v):
    t = lit(v)
    return t is not None and t.startswith("-")


def un(sp, x):
    return sp + (" " if sp[-1].isalpha() else "") + x


def text2(sp):
    return "$a %s $b" % sp


def text1(sp):
    return "%s $a" % sp


def text3(sp1, sp2):
    return "($a %s $b) %s $c" % (sp1, sp2)


# ----------------------------------------------------------------------------- Gallina printing
def gfloat(f):
    if f != f:
        return "PrimFloat.nan"
    if f == float("inf"):
        return "PrimFloat.infinity"
    if f == float("-inf"):
        return "PrimFloat.neg_infinity"
    h = f.hex()
    return "(%s)%%float" % h


def gfloat64(f):
    """Flocq binary64 literal: sign, integer mantissa, exponent (canonical), range proof by computation"""
    if f != f:
        return "B64.qnan"
    neg = "true" if math.copysign(1.0, f) < 0 else "false"
    if f in (float("inf"), float("-inf")):
        return "(B64.inf %s)" % neg
    if f == 0:
        return "(B64.zero %s)" % neg
    m, e = math.frexp(abs(f))
    mant, exp = int(m * 2 ** 53), e - 53
    if exp < -1074:
        sh = -1074 - exp
        assert mant % (1 << sh) == 0
        mant, exp = mant >> sh, -1074
    return "(B64.fin %s %d (%d) eq_refl)" % (neg, mant, exp)


_flt = [None]


# integers that cannot be written as literals are written by the formula that built them
HARD1 = (1 << 16700) + 977            # 5028 decimal digits: beyond CPython's int-to-str limit
HARD1N = 3 - (1 << 16700)
HARD2 = (1 << 340000) + 12345         # 102351 decimal digits
HARD_FORMULA = {HARD1: "(Z.shiftl 1 16700 + 977)%Z", HARD1N: "(3 - Z.shiftl 1 16700)%Z", HARD2: "(Z.shiftl 1 340000 + 12345)%Z"}
HARD_INTS = [HARD1, HARD1N, HARD2]


def gz(n):
    if abs(n).bit_length() < BIG_BITS:
        return gal.z(n)
    if n in HARD_FORMULA:
        return HARD_FORMULA[n]
    raise ValueError("integer with no Gallina spelling")


def gdict(items):
    items = list(items)
    if not items:
        return "(@nil (Z * Z))"
    return "[" + "; ".join("(%s, %s)" % (gz(a), gz(b)) for a, b in items) + "]"


def gval(v):
    k = kind(v)
    if k == "null":
        return "VNull"
    if k == "bool":
        return "(VBool %s)" % gal.boolean(v)
    if k == "int":
        return "(VInt %s)" % gz(v)
    if k == "float":
        return "(VFloat %s)" % (_flt[0] or gfloat)(v)
    if k == "str":
        return "(VStr %s)" % gal.s(v)
    if k in ("list", "tuple") and all(kind(x) == "int" for x in v):
        return "(%s %s)" % ("VList" if k == "list" else "VTuple", gal.zlist(v))
    if k == "set" and all(kind(x) == "int" for x in v):
        return "(VSet %s)" % gal.zlist(sorted(v))
    if k == "dict" and all(kind(a) == "int" and kind(b) == "int" for a, b in v.items()):
        return "(VDict %s)" % gdict(v.items())
    if k in ("datetime", "timespan"):      # dispatch only
        return "(VOpaque %s)" % ("KDateTime" if k == "datetime" else "KTimespan")
    raise ValueError("value outside the model: %r" % (v,))


def gcanon(c):
    """canonical observed value -> Gallina fval (None if outside the model's value universe)"""
    k = c[0]
    if k == "null":
        return "VNull"
    if k == "bool":
        return "(VBool %s)" % gal.boolean(c[1])
    if k == "int":
        return "(VInt %s)" % gz(c[1])
    if k == "float":
        return "(VFloat %s)" % (_flt[0] or gfloat)(float("nan") if c[1] == "nan" else float.fromhex(c[1]))
    if k == "str":
        return "(VStr %s)" % gal.s(c[1])
    if k == "seq" and all(x[0] == "int" for x in c[1]):
        return "(VList %s)" % gal.zlist([x[1] for x in c[1]])
    if k == "set" and all(x[0] == "int" for x in c[1]):
        return "(VSet %s)" % gal.zlist([x[1] for x in c[1]])
    if k == "dict" and all(a[0] == "int" and b[0] == "int" for a, b in c[1]):
        return "(VDict %s)" % gdict((a[1], b[1]) for a, b in c[1])
    return None


def gobs(obs, unchecked=False):
    if obs[0] == "err":
        return "(OErr %s)" % obs[1] if not obs[1].startswith("Other:") else "OOtherExc"
    if unchecked and obs[1][0] == "float":
        return "OFloatUnchecked"
    if obs[1][0] == "int" and abs(obs[1][1]).bit_length() >= BIG_BITS:
        z = abs(obs[1][1])
        return "(OBigInt %s %s %s %s)" % (gal.boolean(obs[1][1] < 0), gal.z(z.bit_length()), gal.z(z % BIG_M1), gal.z(z % BIG_M2))
    t = gcanon(obs[1])
    return "(OVal %s)" % t if t else "OOtherExc"


def nonfinite(v):
    return isinstance(v, float) and (v != v or v in (float("inf"), float("-inf")))


def case_term64(case, obs, ran, unchecked=False):
    """the same case for the Flocq binary64 instance"""
    _flt[0] = gfloat64
    try:
        return case_term(case, obs, ran, unchecked)
    finally:
        _flt[0] = None


def has_float(case, obs):
    return any(isinstance(v, float) for v in case["vals"]) or (obs[0] == "val" and obs[1][0] == "float")


def case_term(case, obs, ran, unchecked=False):
    ops, vals = case["ops"], case["vals"]
    if len(vals) <= 2:
        unchecked = "mod" in ops and any(nonfinite(v) for v in vals)
    if len(vals) == 1:
        op, args, then = CTOR_OF_UNARY[ops[0]], [vals[0]], "None"
    elif len(vals) == 2:
        op, args, then = CTOR_OF[ops[0]], vals, "None"
    else:
        op, args = CTOR_OF[ops[0]], vals[:2]
        then = "(Some (%s, %s))" % (CTOR_OF[ops[1]], gval(vals[2]))
    post = gal.lst(CTOR_OF_UNARY[sp] for sp in case.get("post", []))
    return "{| c_cfg := %s; c_op := %s; c_args := %s; c_then := %s; c_post := %s; c_ran := %s; c_obs := %s |}" % (
        cfg_of(case), op, gal.lst(gval(v) for v in args), then, post, gal.lst(ran), gobs(obs, unchecked))


def case_text(case):
    n = len(case["vals"])
    if case.get("route") != "lit" and not case.get("post"):
        return text1(case["ops"][0]) if n == 1 else text2(case["ops"][0]) if n == 2 else text3(*case["ops"])
    xs = [lit(v) for v in case["vals"]] if case.get("route") == "lit" else ["$a", "$b", "$c"][:n]
    if n == 1:
        t = un(case["ops"][0], xs[0])
        for sp in case.get("post", []):
            t = un(sp, t)
        return t
    assert n == 2 and not case.get("post")
    return "%s %s %s" % (xs[0], case["ops"][0], xs[1])


def case_env(case):
    return {} if case.get("route") == "lit" else dict(zip("abc", case["vals"]))


def enc_case(case):
    d = {"cfg": cfg_of(case), "ops": case["ops"], "vals": [enc(v) for v in case["vals"]]}
    for k in ("post", "route", "quota", "hard"):
        if case.get(k):
            d[k] = case[k]
    return d


def dec_case(j):
    d = {"cfg": j.get("cfg", "CDefault"), "ops": list(j["ops"]), "vals": [dec(v) for v in j["vals"]]}
    for k in ("post", "route", "quota", "hard"):
        if j.get(k):
            d[k] = j[k]
    return d


# ----------------------------------------------------------------------------- O: the laws
def family(v):
    k = kind(v)
    return "num" if k in ("int", "float") else k


def is_true(o):
    return o == ("val", ("bool", True))


def is_bool(o):
    return o[0] == "val" and o[1][0] == "bool"


NOMATCH = ("err", "ENoMatch")


class Laws:
    """each law: (name, arity, fn(*values) -> None | (what, observed, required))"""

    def __init__(self, im):
        self.im = im
        self.memo = {}

    def E(self, sp, a, b):
        key = (sp, canon(a), canon(b), kind(a), kind(b))
        r = self.memo.get(key)
        if r is None:
            r = self.memo[key] = self.im.run(text2(sp), a=a, b=b)
        return r

    def U(self, sp, a):
        return self.im.run(text1(sp), a=a)

    # --- order consistency ---------------------------------------------------------
    def order_mirror(self, a, b):
        for s1, s2 in ((">", "<"), (">=", "<=")):
            x, y = self.E(s1, a, b), self.E(s2, b, a)
            if x != y:
                return ("a %s b differs from b %s a" % (s1, s2), {"a %s b" % s1: x, "b %s a" % s2: y},
                        "a %s b iff b %s a (same value or same error class)" % (s1, s2))

    def order_total(self, a, b):
        fa, fb = family(a), family(b)
        comparable = (fa == fb and fa in ("num", "str")) or a is None or b is None
        lt, le, gt, ge = (self.E(s, a, b) for s in ORDER)
        eq, ne = self.E("=", a, b), self.E("!=", a, b)
        obs = {"<": lt, "<=": le, ">": gt, ">=": ge, "=": eq, "!=": ne}
        if not is_bool(eq) or not is_bool(ne) or is_true(eq) == is_true(ne):
            return ("= / != are not complementary booleans", obs, "a = b and a != b are booleans and exactly one holds")
        if not comparable:
            if fa in ("null", "bool", "num", "str") and fb in ("null", "bool", "num", "str"):
                bad = [s for s in ORDER if obs[s] != NOMATCH]
                if bad:
                    return ("ordering of unrelated scalar kinds does not give 'no matching function'", obs,
                            "%s on (%s, %s) raises NoMatchingFunctionException" % (bad, kind(a), kind(b)))
            return None
        if not all(is_bool(o) for o in (lt, le, gt, ge)):
            return ("an ordering operator on comparable operands did not give a boolean", obs, "booleans for < <= > >=")
        if is_true(le) != (is_true(lt) or is_true(eq)):
            return ("a <= b differs from (a < b or a = b)", obs, "a <= b iff a < b or a = b")
        if is_true(ge) != (is_true(gt) or is_true(eq)):
            return ("a >= b differs from (a > b or a = b)", obs, "a >= b iff a > b or a = b")
        if [is_true(lt), is_true(eq), is_true(gt)].count(True) != 1:
            return ("not exactly one of a < b, a = b, a > b", obs, "exactly one of <, =, > holds")

    def null_least(self, a, b):
        if a is None and b is not None:
            want = {"<": True, "<=": True, ">": False, ">=": False}
            got = {s: self.E(s, a, b) for s in ORDER}
            rev = {s: self.E(s, b, a) for s in ORDER}
            wantrev = {"<": False, "<=": False, ">": True, ">=": True}
            if any(got[s] != ("val", ("bool", want[s])) for s in ORDER) or \
                    any(rev[s] != ("val", ("bool", wantrev[s])) for s in ORDER):
                return ("null does not order below a non-null value", {"null OP x": got, "x OP null": rev},
                        "null < x, null <= x, x > null, x >= null are true; the four others false")
        if a is None and b is None:
            got = {s: self.E(s, a, b) for s in ORDER + ["="]}
            want = {"<": False, "<=": True, ">": False, ">=": True, "=": True}
            if any(got[s] != ("val", ("bool", want[s])) for s in want):
                return ("null is not equal-and-unordered with itself", got, str(want))

    # --- booleans are not numbers -----------------------------------------------------
    def bool_not_number(self, a, b):
        if not (isinstance(a, bool) or isinstance(b, bool)):
            return None
        for sp in ARITH_ORDER:
            if sp in ORDER and (a is None or b is None):
                continue
            o = self.E(sp, a, b)
            if o != NOMATCH:
                return ("a boolean operand was accepted by `%s`" % sp, {"a %s b" % sp: o},
                        "NoMatchingFunctionException for a boolean operand of an arithmetic, ordering or repetition operator")

    def bool_not_number_unary(self, a):
        if isinstance(a, bool):
            for sp in ("+", "-"):
                o = self.U(sp, a)
                if o != NOMATCH:
                    return ("a boolean operand was accepted by unary `%s`" % sp, {"%s a" % sp: o},
                            "NoMatchingFunctionException")

    # --- arithmetic --------------------------------------------------------------------
    def int_exact(self, a, b):
        if kind(a) != "int" or kind(b) != "int":
            return None
        for sp, want in (("+", a + b), ("-", a - b), ("*", a * b)):
            o = self.E(sp, a, b)
            if o != ("val", ("int", want)):
                return ("integer `%s` is not exact" % sp, {"a %s b" % sp: o}, {"exact": show(want)})
        q, r = self.E("/", a, b), self.E("mod", a, b)
        if b == 0:
            if q != ("err", "EZeroDiv") or r != ("err", "EZeroDiv"):
                return ("division by integer zero", {"a / b": q, "a mod b": r}, "ZeroDivisionError for both")
            return None
        if not (q[0] == "val" and q[1][0] == "int" and r[0] == "val" and r[1][0] == "int"):
            return ("`/` or `mod` on two integers is not an integer", {"a / b": q, "a mod b": r}, "integers")
        qv, rv = q[1][1], r[1][1]
        if a != qv * b + rv or not (0 <= rv < b or b < rv <= 0):
            return ("a = (a / b) * b + (a mod b) with a floored quotient fails", {"a / b": q, "a mod b": r},
                    "a = q*b + r and r between 0 and b")
        ident = self.im.run("($a / $b) * $b + ($a mod $b)", a=a, b=b)
        if ident != ("val", ("int", a)):
            return ("($a / $b) * $b + ($a mod $b) evaluated by yaql is not $a", {"value": ident}, {"a": str(a)})

    def mixed_is_float(self, a, b):
        ka, kb = kind(a), kind(b)
        if {ka, kb} != {"int", "float"} and (ka, kb) != ("float", "float"):
            return None
        try:
            fa, fb = float(a), float(b)
        except OverflowError:
            return None
        for sp, f in (("+", lambda: fa + fb), ("-", lambda: fa - fb), ("*", lambda: fa * fb), ("/", lambda: fa / fb)):
            try:
                want = ("val", canon(f()))
            except ZeroDivisionError:
                want = ("err", "EZeroDiv")
            o = self.E(sp, a, b)
            if o != want:
                return ("mixed int/float `%s` is not float arithmetic on the converted operands" % sp, {"a %s b" % sp: o}, want)

    def exact_compare(self, a, b):
        """numbers compare by exact value (no rounding of the integer to a float first)"""
        if family(a) != "num" or family(b) != "num" or any(isinstance(v, float) and v != v for v in (a, b)):
            return None

        def exact(v):
            if isinstance(v, float) and v in (float("inf"), float("-inf")):
                return None
            return fractions.Fraction(v)
        xa, xb = exact(a), exact(b)
        if xa is None or xb is None:
            lt, eq = (a < b), (a == b)
        else:
            lt, eq = xa < xb, xa == xb
        o1, o2 = self.E("<", a, b), self.E("=", a, b)
        if o1 != ("val", ("bool", lt)) or o2 != ("val", ("bool", eq)):
            return ("numeric comparison disagrees with the exact values", {"a < b": o1, "a = b": o2}, {"<": lt, "=": eq})

    def unrelated_nomatch(self, a, b):
        fa, fb = family(a), family(b)
        scal = ("null", "bool", "num", "str")
        if fa not in scal or fb not in scal:
            return None
        for sp in ("+", "-", "*", "/", "mod", "in"):
            if sp == "+":
                ok = (fa == fb and fa in ("num", "str"))
            elif sp == "*":
                ok = (fa == fb == "num") or {kind(a), kind(b)} == {"int", "str"}
            elif sp == "in":
                ok = fa == fb == "str"
            else:
                ok = fa == fb == "num"
            o = self.E(sp, a, b)
            if ok and o == NOMATCH:
                return ("`%s` has no overload for related operands" % sp, {"a %s b" % sp: o}, "a value (or an arithmetic error)")
            if not ok and o != NOMATCH:
                return ("`%s` on unrelated operand kinds did not give 'no matching function'" % sp, {"a %s b" % sp: o},
                        "NoMatchingFunctionException on (%s, %s)" % (kind(a), kind(b)))

    def strings(self, a, b):
        if kind(a) != "str" or kind(b) != "str":
            return None
        ca, cb = [ord(c) for c in a], [ord(c) for c in b]
        want = {"<": ca < cb, "<=": ca <= cb, ">": ca > cb, ">=": ca >= cb, "=": ca == cb}
        got = {s: self.E(s, a, b) for s in want}
        if any(got[s] != ("val", ("bool", want[s])) for s in want):
            return ("string ordering is not lexicographic by code point", got, want)
        o = self.E("+", a, b)
        if o != ("val", ("str", a + b)):
            return ("string concatenation", {"a + b": o}, a + b)

    def repetition(self, a, b):
        if kind(a) in ("str", "list", "tuple") and kind(b) == "int" and abs(b) < 50:
            want = ("val", canon(list(a) * b if kind(a) != "str" else a * b))
            o1, o2 = self.E("*", a, b), self.E("*", b, a)
            if o1 != want or o2 != want:
                return ("repetition by an integer", {"a * b": o1, "b * a": o2}, want)

    def sets_dicts(self, a, b):
        if kind(a) == "set" and kind(b) == "set":
            fa, fb = frozenset(a), frozenset(b)
            want = {"<": fa < fb, "<=": fa <= fb, ">": fa > fb, ">=": fa >= fb, "=": fa == fb, "!=": fa != fb}
            got = {s: self.E(s, a, b) for s in want}
            if any(got[s] != ("val", ("bool", want[s])) for s in want):
                return ("set ordering is not the subset relation", got, want)
            if is_true(got["<"]) != (is_true(got["<="]) and not is_true(got["="])) or \
                    (is_true(got["<="]) and is_true(got[">="])) != is_true(got["="]):
                return ("set ordering is not a partial order consistent with =", got, "a < b iff a <= b and not a = b; a <= b and a >= b iff a = b")
            d = self.E("-", a, b)
            if d != ("val", canon(fa - fb)):
                return ("set difference", {"a - b": d}, canon(fa - fb))
            for x in (0, 1, 2, 7):
                o = self.E("in", x, a)
                if o != ("val", ("bool", x in fa)):
                    return ("membership in a set", {"%d in a" % x: o}, x in fa)
        if kind(a) == "dict" and kind(b) == "dict":
            want = dict(a)
            want.update(b)
            o = self.E("+", a, b)
            if o != ("val", canon(want)):
                return ("dict + dict is not the merge in which the right operand wins", {"a + b": o}, canon(want))
            e = self.E("=", a, b)
            if e != ("val", ("bool", a == b)):
                return ("dict equality", {"a = b": e}, a == b)

    def string_is_string(self, a, b):
        """a string operand is a string whatever it looks like: against a real datetime / timespan every arithmetic and
        ordering operator gives 'no matching function', and it equals none of them"""
        if not (kind(a) == "str" and kind(b) in ("datetime", "timespan")):
            return None
        for x, y in ((a, b), (b, a)):
            for sp in ARITH_ORDER:
                o = self.E(sp, x, y)
                if o != NOMATCH:
                    return ("`%s` between a string and a %s did not give 'no matching function'" % (sp, kind(b)),
                            {"a %s b" % sp: o, "kinds": (kind(x), kind(y))}, "NoMatchingFunctionException")
            o = self.E("=", x, y)
            if o != ("val", ("bool", False)):
                return ("a string equals a %s" % kind(b), {"a = b": o}, False)

    def opaque_operand(self, a, b):
        """an operand that cannot be rendered / compared (host object, very deep nesting): ill-typed applications
        still give exactly 'no matching function'"""
        for x, y in ((a, b), (b, a)):
            for sp in ARITH_ORDER:
                if sp in ORDER and (x is None or y is None):
                    continue
                if sp == "+" and all(kind(v) in ("list", "tuple", "set", "dict") for v in (x, y)):
                    continue
                if sp == "*" and {kind(x), kind(y)} <= {"list", "tuple", "int"} and kind(x) != kind(y):
                    continue
                o = self.E(sp, x, y)
                if o != NOMATCH:
                    return ("`%s` with an operand that cannot be rendered did not give 'no matching function'" % sp,
                            {"a %s b" % sp: o, "kinds": (kind(x), kind(y))}, "NoMatchingFunctionException")
        for sp in ("+", "-"):
            o = self.U(sp, a)
            if o != NOMATCH:
                return ("unary `%s` on an operand that cannot be rendered" % sp, {"%s a" % sp: o}, "NoMatchingFunctionException")

    def unary(self, a):
        k = kind(a)
        pos, neg, nt = self.U("+", a), self.U("-", a), self.U("not", a)
        if k in ("int", "float"):
            if pos != ("val", canon(+a)) or neg != ("val", canon(-a)):
                return ("unary sign on a number", {"+a": pos, "-a": neg}, "exact +a and -a")
        elif pos != NOMATCH or neg != NOMATCH:
            return ("unary sign accepted a non-number", {"+a": pos, "-a": neg}, "NoMatchingFunctionException")
        if nt != ("val", ("bool", not a)):
            return ("`not` is not the negation of truthiness", {"not a": nt}, not a)

    def transitive(self, a, b, c):
        for sp in ("<", "<=", "="):
            x, y, z = self.E(sp, a, b), self.E(sp, b, c), self.E(sp, a, c)
            if is_true(x) and is_true(y) and not is_true(z):
                return ("`%s` is not transitive" % sp, {"a?b": x, "b?c": y, "a?c": z}, "a %s c" % sp)

    PAIR = ["order_mirror", "order_total", "null_least", "bool_not_number", "int_exact", "mixed_is_float",
            "exact_compare", "unrelated_nomatch", "strings", "repetition", "sets_dicts"]
    SINGLE = ["bool_not_number_unary", "unary"]
    TRIPLE = ["transitive"]


def check_laws(run, laws, names, vals, count=True):
    """-> list of (law, result) that fail"""
    out = []
    for n in names:
        r = getattr(laws, n)(*vals)
        if count:
            run.count("law:" + n)
        if r is not None:
            out.append((n, r))
    return out


def report_law(run, name, vals, res, cfg="CDefault"):
    what, observed, required = res
    run.fail("violation", "law %s%s: %s" % (name, "" if cfg == "CDefault" else " [configuration %s]" % cfg, what),
             {"law": name, "cfg": cfg, "vals": [enc(v) for v in vals], "values_readable": [show(v)[:80] for v in vals],
              "expression": "$a OP $b with a, b bound as variables (see 'observed' for the operators)",
              "observed": show(observed), "required": show(required)})


def load_corpus():
    path = os.path.join(HERE, "corpus", "C15.json")
    if not os.path.exists(path):
        return []
    return [dec_case(j) for j in json.load(open(path))]


def oracle(run, deep):
    fn_oracle(run)
    route_oracle(run, deep)
    quota_oracle(run)
    nev = 0
    for cfg in CONFIGS:
        nev += oracle_cfg(run, deep, cfg)
    run.note("O: %d distinct operator evaluations on the implementation (3 configurations)" % nev)


def oracle_cfg(run, deep, cfg):
    im = impl(cfg)
    laws = Laws(im)
    full = deep or not run.quick
    if cfg == "CDefault" or full:
        vals = corpus_values(full and cfg == "CDefault", special=False)
    else:
        vals = SMALL
    seen = set()

    def pair(a, b):
        for n, r in check_laws(run, laws, Laws.PAIR, (a, b)):
            if n not in seen:
                seen.add(n)
                report_law(run, n, (a, b), r, cfg)

    for c in load_corpus():
        if cfg == "CQuota" and c.get("hard"):
            continue            # operands that are themselves larger than the quota
        if len(c["vals"]) == 2 and not any(isinstance(v, float) and v != v for v in c["vals"]):
            pair(*c["vals"])
            pair(*reversed(c["vals"]))
    for a in vals:
        for n, r in check_laws(run, laws, Laws.SINGLE, (a,)):
            if n not in seen:
                seen.add(n)
                report_law(run, n, (a,), r, cfg)
    for a, b in itertools.product(vals, vals):
        pair(a, b)
    # strings that look like values of other kinds: the ordinary laws (lexicographic order together with =, no
    # match against other kinds, repetition), the literal route, and the rows against real datetimes / timespans
    strs = LOOKALIKE + (LOOKALIKE_MORE if full else [])
    extra_cfg = full or cfg in ("CDefault", "CLegacy")      # quick tier: the two extra corpora on two configurations
    for s_ in (strs if extra_cfg else []):
        for n, r in check_laws(run, laws, Laws.SINGLE, (s_,)):
            if n not in seen:
                seen.add(n)
                report_law(run, n, (s_,), r, cfg)
        for p_ in strs + LOOK_PARTNERS:
            pair(s_, p_)
            pair(p_, s_)
        for t_ in TEMPORAL:
            run.count("law:string_is_string")
            r = laws.string_is_string(s_, t_)
            if r and "string_is_string" not in seen:
                seen.add("string_is_string")
                report_law(run, "string_is_string", (s_, t_), r, cfg)
    if cfg == "CDefault":
        for _, sp in BINARY:
            for a, b in itertools.product(strs, strs + ["ab", 1, None]):
                c = {"cfg": cfg, "ops": [sp], "vals": [a, b]}
                run.count("law:route")
                r = route_check(c, "lit")
                if r and "route-lookalike" not in seen:
                    seen.add("route-lookalike")
                    report_special(run, "route", c, r, "lit")
    # operands that are expensive or impossible to render: the error rows must still be 'no matching function',
    # the well-typed rows exact
    for h in (HARD_INTS + [LONG_STR] if cfg != "CQuota" and extra_cfg else []):
        for n, r in check_laws(run, laws, Laws.SINGLE, (h,)):
            if n not in seen:
                seen.add(n)
                report_law(run, n, (h,), r, cfg)
        for p_ in [v for v in PARTNERS if v == v] + HARD_INTS + [LONG_STR]:
            pair(h, p_)
            pair(p_, h)
    for h in ((Evil(), deep_list()) if extra_cfg or cfg == "CIterDicts" else ()):
        for p_ in PARTNERS + (HARD_INTS if cfg != "CQuota" else []):
            run.count("law:opaque_operand")
            r = laws.opaque_operand(h, p_)
            if r and "opaque_operand" not in seen:
                seen.add("opaque_operand")
                report_law(run, "opaque_operand", (h, p_), r, cfg)
    scal = [v for v in corpus_values(True, special=True) if kind(v) not in ("list", "tuple", "set", "dict") and v == v]
    scal += random_scalars(run.rng, run.n(40, 400))
    ntri = 20000 if deep and run.quick else run.n(3000, 150000)
    if cfg != "CDefault":
        ntri //= 10
    for _ in range(ntri):
        fam = run.rng.choice(["num", "num", "str", "any"])
        pool = scal if fam == "any" else [v for v in scal if family(v) == fam or (v is None and run.rng.random() < 0.3)]
        t = tuple(run.rng.choice(pool) for _ in range(3))
        for n, r in check_laws(run, laws, Laws.TRIPLE, t):
            if n not in seen:
                seen.add(n)
                report_law(run, n, t, r, cfg)
    return len(laws.memo)


# ----------------------------------------------------------------------------- C
def gen_cases(run):
    full = not run.quick
    vals = corpus_values(full, special=True)
    cases = list(load_corpus())
    for sp in [s for _, s in UNARY]:
        for a in vals:
            cases.append({"ops": [sp], "vals": [a]})
    for _, sp in BINARY:
        for a, b in itertools.product(vals, vals):
            cases.append({"ops": [sp], "vals": [a, b]})
    scal = [v for v in corpus_values(True, special=True) if kind(v) not in ("list", "tuple", "set", "dict")]
    scal += random_scalars(run.rng, run.n(40, 400))
    bsp = [s for _, s in BINARY]
    for _ in range(run.n(700, 100000)):
        r = run.rng.random()
        if r < 0.5:
            pool = [v for v in scal if family(v) == "num"]
            ops = [run.rng.choice(["+", "-", "*", "/", "mod"]), run.rng.choice(bsp)]
        elif r < 0.7:
            pool = [v for v in scal if family(v) in ("str", "num")]
            ops = [run.rng.choice(["+", "*"]), run.rng.choice(bsp)]
        else:
            pool = scal
            ops = [run.rng.choice(bsp), run.rng.choice(bsp)]
        cases.append({"ops": ops, "vals": [run.rng.choice(pool) for _ in range(3)]})
    cases += route_cases(run) + quota_cases(run) + hard_cases(run) + lookalike_cases(run)
    # the configurations whose options touch dispatch: the whole grid again, over a smaller corpus in the quick tier
    for cfg in CONFIGS[1:3]:
        cvals = SMALL if run.quick else corpus_values(False, special=True)
        for c in load_corpus():
            cases.append(dict(c, cfg=cfg))
        for sp in [s for _, s in UNARY]:
            for a in cvals:
                cases.append({"cfg": cfg, "ops": [sp], "vals": [a]})
        for _, sp in BINARY:
            for a, b in itertools.product(cvals, cvals):
                cases.append({"cfg": cfg, "ops": [sp], "vals": [a, b]})
    return cases


# operands that are expensive or impossible to render or compare
LONG_STR = "ab" * 100000


def deep_list(n=3000):
    x = []
    for _ in range(n):
        x = [x]
    return x


PARTNERS = [None, True, 0, 1, -7, 2 ** 63 + 1, 2.5, float("nan"), float("inf"), "ab", [1, 2], (1, 2), frozenset([1]), {1: 10}]


def hard_slow(case):
    """arithmetic the model cannot do inside Coq in reasonable time: * / mod between the 102351-digit integer and
    another integer (the oracle checks those rows on the implementation alone)"""
    vals, ops = case["vals"], case["ops"]
    if ops[0] not in ("*", "/", "mod") or not all(kind(v) == "int" for v in vals):
        return False
    big = [v for v in vals if abs(v).bit_length() >= BIG_BITS]
    if any(abs(v).bit_length() > 100000 for v in big):
        return True
    return len(big) == 2 and vals[0] == vals[1]      # two different 5028-digit integers are multiplied / divided once each way


def hard_cases(run):
    """the dispatch grid (error rows and well-typed rows) with integers far beyond what can be printed"""
    out = []
    for cfg in ("CDefault", "CLegacy") if run.quick else CONFIGS[:3]:
        hs = HARD_INTS if cfg == "CDefault" else [HARD1]
        for h in hs:
            for sp in [s_ for _, s_ in UNARY]:
                out.append({"cfg": cfg, "hard": True, "ops": [sp], "vals": [h]})
            for _, sp in BINARY:
                for p_ in (PARTNERS + HARD_INTS if cfg == "CDefault" or not run.quick else [None, True, 1, 2.5, "ab", (1, 2)]):
                    for vals in ([h, p_], [p_, h]):
                        c = {"cfg": cfg, "hard": True, "ops": [sp], "vals": vals}
                        if not hard_slow(c):
                            out.append(c)
    return out


# strings that LOOK like values of other kinds: they are strings all the same
LOOKALIKE = ["1999-12-31", "2021-03-04", "2021-03-04T05:06:07", "20210304", "12", "1e3", "true", "null"]
LOOKALIKE_MORE = ["2021-03-04T05:06:07+02:00", "2021-03-04 05:06:07.250000", "0x10", " 7 ", "-1", "2.5", "false", "nan",
                  "P1D", "1 day, 0:00:00", "1:00:00", "[1, 2]", "2021-W09-4"]
TEMPORAL = [datetime.datetime(2021, 3, 4, 5, 6, 7, tzinfo=datetime.timezone.utc), datetime.timedelta(days=1)]
LOOK_PARTNERS = [None, True, 1, 2.5, "ab", (1, 2)]


def lookalike_cases(run):
    """every operator over strings that look like dates, numerals, keywords or durations - against each other,
    against a partner of every kind and against real datetime/timespan values - as variables and as literals"""
    out = []
    strs = LOOKALIKE + ([] if run.quick else LOOKALIKE_MORE)
    for cfg in (("CDefault",) if run.quick else CONFIGS[:3]):
        pairs = list(itertools.product(strs, strs))
        for s_ in strs:
            for p_ in LOOK_PARTNERS:
                pairs += [(s_, p_), (p_, s_)]
        for _, sp in BINARY:
            for a, b in pairs:
                out.append({"cfg": cfg, "ops": [sp], "vals": [a, b]})
                if cfg == "CDefault" and (not run.quick or (kind(a) == "str" and kind(b) == "str")):
                    out.append({"cfg": cfg, "route": "lit", "ops": [sp], "vals": [a, b]})
        for sp in ARITH_ORDER:      # = / != / in with an opaque operand have no modelled value
            for s_ in strs:
                for t_ in TEMPORAL:
                    out.append({"cfg": cfg, "ops": [sp], "vals": [s_, t_]})
                    out.append({"cfg": cfg, "ops": [sp], "vals": [t_, s_]})
        for sp in [u for _, u in UNARY]:
            for s_ in strs:
                out.append({"cfg": cfg, "ops": [sp], "vals": [s_]})
                out.append({"cfg": cfg, "route": "lit", "ops": [sp], "vals": [s_]})
    return out


LITS = [None, True, False, 0, 1, -1, 2, -7, 2 ** 63 + 1, -(10 ** 40), 0.0, -0.0, 2.5, -2.5, float(2 ** 63),
        "", "a", "ab", "\u00e9", (1, 2)]
CHAINS = [["-", "-"], ["-", "+"], ["+", "-"], ["+", "+"], ["-", "-", "-"], ["not", "-"], ["-", "not"], ["not", "not"], ["+", "not", "+"]]


def route_cases(run):
    """the same operators reached through other delivery routes: operands spelled as LITERALS in the text
    (sign-free spellings; signed ones are compared with the variable route by the oracle), and chains of
    unary operators over a variable and over a literal"""
    out = []
    vals = LITS + ([] if run.quick else [v for v in INTS_MORE + FLOATS_MORE + STRS_CORE + STRS_MORE if lit(v) is not None])
    plain = [v for v in vals if lit(v) is not None and not signed(v)]
    for cfg in ("CDefault", "CLegacy"):
        pv = plain if cfg == "CDefault" else [v for v in plain if kind(v) in ("null", "bool", "int", "str")][:9]
        for sp in [s_ for _, s_ in UNARY]:
            for a in pv:
                out.append({"cfg": cfg, "route": "lit", "ops": [sp], "vals": [a]})
        for _, sp in BINARY:
            for a, b in itertools.product(pv, pv):
                out.append({"cfg": cfg, "route": "lit", "ops": [sp], "vals": [a, b]})
        for ch in CHAINS:                       # ch is written outermost first
            inner, post = ch[-1], list(reversed(ch[:-1]))
            for a in pv:
                out.append({"cfg": cfg, "route": "lit", "ops": [inner], "post": post, "vals": [a]})
            for a in (vals if cfg == "CDefault" else pv):
                out.append({"cfg": cfg, "ops": [inner], "post": post, "vals": [a]})
    return out


QUOTAS = [200, 1000, 5000, 20000]
# operands whose repetition the implementation sizes exactly (ASCII strings, lists, tuples)
REP_OPERANDS = ["ab", "a", "ababab", [1, 2], (1, 2), [0]]


def quota_counts(a, quota):
    """counts around the true threshold getsizeof(a * n) = quota, from both sides, plus the small ones"""
    import sys
    n = 0
    while sys.getsizeof(a * (n + 1)) <= quota:
        n += 1
    m = 0
    while sys.getsizeof(a * (m + 1)) <= 0.85 * quota and len(a * (m + 1)) <= 1000:
        m += 1
    return sorted({c for c in (0, 1, 2, m - 1, m, n - 2, n - 1, n, n + 1, n + 2, n + 3, 2 * n + 5) if c >= 0})


def quota_cases(run):
    """string/sequence repetition on engines WITH yaql.memoryQuota (and yaql.limitIterators)"""
    out = []
    for q in QUOTAS:
        for a in REP_OPERANDS:
            for n in quota_counts(a, q):
                out.append({"cfg": "CQuota", "quota": q, "ops": ["*"], "vals": [a, n]})
                out.append({"cfg": "CQuota", "quota": q, "ops": ["*"], "vals": [n, a]})
    return out


def quota_fits(case):
    """('yes' | 'no' | 'either', the repeated value).  Strings are sized exactly by the implementation.  A
    sequence result is copied by the output conversion (an over-allocated list, ~1.1x) and is subject to
    yaql.limitIterators = 1000, so between 85% of the quota and the quota, and above 1000 items, either
    outcome is accepted."""
    import sys
    a, n = case["vals"] if kind(case["vals"][1]) == "int" else reversed(case["vals"])
    r = a * n
    size, q = sys.getsizeof(r), case["quota"]
    if kind(a) == "str":
        return ("yes" if size <= q else "no"), r
    if size > q:
        return "no", r
    return ("yes" if size <= 0.85 * q and len(r) <= 1000 else "either"), r


def too_big(case):
    """repetition results (also intermediate ones of a triple) larger than 10^5 items are not generated:
    the model would have to build them inside Coq; counts of 2^62 and more fail at once on both sides"""
    vals = case["vals"]
    if "+" in case["ops"] and any(kind(v) == "set" for v in vals) and not all(isinstance(v, frozenset) for v in vals):
        return True     # concatenation that iterates a set: the iteration order is not modelled
    if case["ops"] == ["in"] and len(vals) == 2 and kind(vals[1]) in ("set", "dict") and (
            kind(vals[0]) in ("list", "dict") or (kind(vals[0]) == "set" and not isinstance(vals[0], frozenset)
                                                  and kind(vals[1]) == "dict")):
        return True     # unhashable (non-scalar) left operand looked up in a set/dict: Python TypeError, outside C15
    prod = 1
    for v in vals:
        if kind(v) == "int" and 1 < v < 2 ** 62:
            prod *= v
    if any(kind(a) in ("str", "list", "tuple") and len(a) * prod > 10 ** 5 for a in vals):
        return True
    if len(vals) == 3 and case["ops"][1] == "*":
        # the count (or the repeated string) can be the RESULT of the first operator
        mid = py_mid(case["ops"][0], vals[0], vals[1])
        for x, y in ((mid, vals[2]), (vals[2], mid)):
            if kind(x) == "int" and kind(y) in ("str", "list", "tuple") and 10 ** 5 < len(y) * x < 2 ** 62:
                return True
    return False


def py_mid(sp, a, b):
    """value of the inner `a OP b` of a triple where it can matter for the size guard (ints, strings); else None"""
    ka, kb = kind(a), kind(b)
    try:
        if ka == kb == "int":
            return {"+": a + b, "-": a - b, "*": a * b}.get(sp) if sp in "+-*" else (a // b if sp == "/" else a % b if sp == "mod" else None)
        if ka == kb == "str" and sp == "+":
            return a + b
        if sp == "*" and {ka, kb} == {"int", "str"}:
            s_, n = (a, b) if ka == "str" else (b, a)
            return s_ * n if len(s_) * n <= 10 ** 5 else None
    except (ZeroDivisionError, OverflowError, MemoryError):
        return None
    return None


def observe(im, case):
    text, env = case_text(case), case_env(case)
    traced, ran = im.run_traced(text, **env)
    # the untouched context is observed as well, except for the repeated grids of the other configurations
    # and routes in the quick tier (their instrumented context is the same construction)
    light = _quick[0] and (cfg_of(case) != "CDefault" or case.get("route") or case.get("post")) and not case.get("quota")
    plain = traced if light else im.run(text, **env)
    return plain, traced, ran


_quick = [False]


def triple_mode(im, case):
    """'skip' | 'unchecked' | 'checked' for `($a OP $b) OP2 $c`: float `mod` with a non-finite operand
    has no modelled value"""
    ops, vals = case["ops"], case["vals"]
    if len(vals) != 3:
        return "checked"
    if ops[0] == "mod" and any(nonfinite(v) for v in vals[:2]):
        return "skip"
    if ops[1] == "mod":
        mid = im.run(text2(ops[0]), a=vals[0], b=vals[1])
        if nonfinite(vals[2]) or (mid[0] == "val" and mid[1][0] == "float" and mid[1][1] in ("nan", "inf", "-inf")):
            return "unchecked"
    return "checked"


def correspondence(run):
    _quick[0] = run.quick
    fn_correspondence(run)
    lawsof = {}
    terms, meta, terms64, idx64, tidx, hterms, hidx = [], [], [], [], [], [], []
    for i, case in enumerate(gen_cases(run)):
        im = impl_of(case)
        if case.get("quota"):
            fits, r = quota_fits(case)
            if fits != "yes" or len(r) > 3000:     # refusals and big results: checked by the oracle only
                run.cov["skipped"] += 1
                continue
        elif too_big(case):          # first: triple_mode evaluates the inner operator
            run.cov["skipped"] += 1
            continue
        mode = triple_mode(im, case)
        if mode == "skip":
            run.cov["skipped"] += 1
            continue
        plain, traced, ran = observe(im, case)
        ks = tuple(kind(v) for v in case["vals"])
        run.case((cfg_of(case), case.get("route"), tuple(case.get("post", [])), case.get("quota"),
                  tuple(case["ops"]), fp(tuple(canon(v) for v in case["vals"])), ks),
                 nontrivial=bool(ran) or any(k in ("null", "bool") for k in ks))
        run.count("op:" + " ".join(case["ops"]))
        run.count("cfg:" + cfg_of(case))
        if case.get("route") == "lit" or case.get("post") or case.get("quota"):
            run.count("route:" + ("literal" if case.get("route") == "lit" else "variable") +
                      (" chain" if case.get("post") else "") + (" quota" if case.get("quota") else ""))
        run.count("kinds:" + ",".join(ks))
        run.count("outcome:" + (plain[1] if plain[0] == "err" else "value:" + plain[1][0]))
        if i % 1201 == 0:
            run.sample({"expr": case_text(case), "vals": [show(v)[:60] for v in case["vals"]],
                        "observed": show(plain), "payloads_ran": ran})
        if plain != traced:
            run.fail("mismatch", "instrumented and untouched context disagree", {"case": enc_case(case), "plain": show(plain), "traced": show(traced)})
            continue
        try:
            term = case_term(case, plain, ran, mode == "unchecked")
        except ValueError:
            run.cov["skipped"] += 1
            continue
        if case.get("hard"):
            run.count("route:hard operands (unprintable integers)")
            hterms.append(term)
            hidx.append(len(meta))
        else:
            terms.append(term)
            tidx.append(len(meta))
        meta.append((case, plain, ran))
        if (has_float(case, plain) or (len(case["vals"]) == 3 and any(family(v) == "num" for v in case["vals"]))) \
                and (not run.quick or len(meta) % 2 == 0) and not case.get("hard"):
            terms64.append(case_term64(case, plain, ran, mode == "unchecked"))
            idx64.append(len(meta) - 1)
    bad = [tidx[j] for j in run.coq_mismatches(HEADER, "pcase", "case_ok registry_of", terms, shard=400)]
    # (the few expensive ones - products, quotients and residues of huge integers - are spread over the shards)
    perm = sorted(range(len(hterms)), key=lambda i: (i * 7919) % max(1, len(hterms)))
    bad += [hidx[perm[j]] for j in run.coq_mismatches(HEADER, "pcase", "case_ok registry_of", [hterms[i] for i in perm], shard=12)]
    # the same float cases on the Flocq binary64 instance (the one of C15_order_consistent_num_binary64)
    bad64 = [idx64[j] for j in run.coq_mismatches(HEADER64, "bcase", "bcase_ok registry_of", terms64, shard=400)]
    run.count("cases also run on the Flocq binary64 instance", len(terms64))
    for i in bad64:
        if i not in bad:
            case, plain, ran = meta[i]
            run.fail("mismatch", "%s on (%s) [%s]: the Flocq binary64 instance of the model differs from the implementation (%s) "
                     "while the PrimFloat instance agrees" % (case_text(case), ",".join(kind(v) for v in case["vals"]),
                                                            cfg_of(case), show(plain)), {"case": enc_case(case), "instance": "B64"})
    reported = set()
    for i in bad[:200]:
        case, plain, ran = meta[i]
        vals = case["vals"]
        cfg = cfg_of(case)
        if cfg not in lawsof:
            lawsof[cfg] = Laws(impl(cfg))
        laws = lawsof[cfg]
        fails, lvals = [], tuple(vals)
        if len(vals) == 2 and not any(isinstance(v, float) and v != v for v in vals):
            fails = check_laws(run, laws, Laws.PAIR, lvals, count=False)
            if not fails:
                lvals = tuple(reversed(vals))
                fails = check_laws(run, laws, Laws.PAIR, lvals, count=False)
        elif len(vals) == 1:
            fails = check_laws(run, laws, Laws.SINGLE, lvals, count=False)
        slaw, sres, sform = special_law(case)
        key = (cfg, case.get("route"), bool(case.get("post")), case.get("quota"), tuple(case["ops"]),
               tuple(kind(v) for v in vals), plain[0], fails[0][0] if fails else None)
        if key in reported:
            continue
        reported.add(key)
        if sres:
            report_special(run, slaw, case, sres, sform)
            continue
        data = {"case": enc_case(case), "expression": case_text(case), "values_readable": [show(v)[:80] for v in vals],
                "implementation": show(plain), "payloads_ran": ran, "model": model_says(run, case)}
        if fails:
            n, (what, observed, required) = fails[0]
            data.update({"law": n, "cfg": cfg, "vals": [enc(v) for v in lvals], "observed": show(observed), "required": show(required)})
            run.fail("violation", "%s on %s [%s]: implementation and model differ, and law %s fails: %s"
                     % (case_text(case), ",".join(kind(v) for v in vals), cfg, n, what), data)
        else:
            run.fail("mismatch", "%s on (%s) [%s]: implementation %s / payloads %s differ from the model"
                     % (case_text(case), ",".join(kind(v) for v in vals), cfg, show(plain), ran), data)


# ----------------------------------------------------------------------------- delivery routes and quota engines
def texts_of(case, form):
    """expression text of a 1/2-operand case in a delivery form: 'var' | 'lit' | 'lit-var' | 'var-lit'"""
    n = len(case["vals"])
    xs = []
    for i, v in enumerate(case["vals"]):
        use_lit = form == "lit" or (form == "lit-var" and i == 0) or (form == "var-lit" and i == 1)
        xs.append(lit(v) if use_lit else "$" + "abc"[i])
    if n == 1:
        t = un(case["ops"][0], xs[0])
        for sp in case.get("post", []):
            t = un(sp, t)
        return t
    return "%s %s %s" % (xs[0], case["ops"][0], xs[1])


def route_check(case, form):
    """the delivery-route law: the outcome (value or error class) does not depend on whether an operand is
    bound as a variable or spelled as a literal.  None = holds, else (what, observed, required)"""
    im = impl_of(case)
    env = dict(zip("abc", case["vals"]))
    ref = im.run(texts_of(case, "var"), **env)
    text = texts_of(case, form)
    got = im.run(text, **env)
    if got == ref:
        return None
    what = "`%s` gives another outcome than `%s` with the same values bound as variables" % (text, texts_of(case, "var"))
    if any(kind(v) == "bool" for v in case["vals"]) and got[0] == "val" and ref == NOMATCH:
        what = "a boolean LITERAL was accepted as a number: " + what
    return (what, {"literal route": got, "variable route": ref}, "the same outcome on both routes")


def quota_check(case):
    """on an engine with yaql.memoryQuota: a repetition whose result fits the quota is returned (and is the
    right value); one that does not fit may only raise MemoryQuotaExceededException"""
    fits, r = quota_fits(case)
    got = impl_of(case).run(text2("*"), a=case["vals"][0], b=case["vals"][1])
    if fits == "either":
        return None
    fits = fits == "yes"
    refusals = [("err", "EQuota")] + ([("err", "Other:CollectionTooLargeException")] if kind(r) != "str" and len(r) > 1000 else [])
    if fits and got != ("val", canon(r)):
        return ("a repetition whose result fits yaql.memoryQuota=%d (result size %d bytes) was not returned"
                % (case["quota"], __import__("sys").getsizeof(r)), {"a * b": got}, "the repeated value")
    if not fits and got not in refusals:
        return ("a repetition whose result exceeds yaql.memoryQuota=%d did not raise MemoryQuotaExceededException" % case["quota"],
                {"a * b": got}, "MemoryQuotaExceededException")
    return None


def special_law(case):
    if case.get("quota"):
        return "quota", quota_check(case), None
    if case.get("route") == "lit":
        return "route", route_check(case, "lit"), "lit"
    return None, None, None


def report_special(run, law, case, res, form=None):
    what, observed, required = res
    data = {"law": law, "case": enc_case(case), "expression": texts_of(case, form) if form else case_text(case),
            "values_readable": [show(v)[:80] for v in case["vals"]], "observed": show(observed), "required": show(required)}
    if form:
        data["form"] = form
    run.fail("violation", "law %s [%s%s]: %s" % (law, cfg_of(case), " quota %d" % case["quota"] if case.get("quota") else "", what), data)


def route_oracle(run, deep):
    seen = set()
    for cfg in ("CDefault", "CLegacy"):
        vals = [v for v in LITS if lit(v) is not None]
        if cfg != "CDefault" and run.quick and not deep:
            vals = [v for v in vals if kind(v) in ("null", "bool", "int", "str")][:10]
        cases = [{"cfg": cfg, "ops": [sp], "vals": [a]} for _, sp in UNARY for a in vals]
        cases += [{"cfg": cfg, "ops": [ch[-1]], "post": list(reversed(ch[:-1])), "vals": [a]} for ch in CHAINS for a in vals]
        for c in cases:
            run.count("law:route")
            r = route_check(c, "lit")
            if r and ("u", cfg) not in seen:
                seen.add(("u", cfg))
                report_special(run, "route", c, r, "lit")
        for _, sp in BINARY:
            for a, b in itertools.product(vals, vals):
                c = {"cfg": cfg, "ops": [sp], "vals": [a, b]}
                mixed = deep or not run.quick or any(kind(v) in ("bool", "null") or signed(v) for v in (a, b))
                for form in (("lit", "var-lit", "lit-var") if mixed else ("lit",)):
                    run.count("law:route")
                    r = route_check(c, form)
                    key = (form, cfg, r[0].startswith("a boolean") if r else None)
                    if r and key not in seen:
                        seen.add(key)
                        report_special(run, "route", c, r, form)


def quota_oracle(run):
    seen = set()
    for c in quota_cases(run):
        run.count("law:quota")
        r = quota_check(c)
        key = r[0][:40] if r else None
        if r and key not in seen:
            seen.add(key)
            report_special(run, "quota", c, r)


def model_says(run, case):
    try:
        t = case_term(case, ("err", "ENoMatch"), [])
        return run.coq_eval(HEADER, "prun_case (registry_of %s) %s" % (cfg_of(case), t))[-600:]
    except Exception as e:     # noqa - diagnostics only
        return "unavailable: %r" % (e,)


# ----------------------------------------------------------------------------- integer functions
FNS = {  # model constructor -> (yaql expression, arity)
    "FAbs": ("abs($a)", 1), "FSign": ("sign($a)", 1), "FRound": ("round($a)", 1), "FNot": ("bitwiseNot($a)", 1),
    "FMin": ("min($a, $b)", 2), "FMax": ("max($a, $b)", 2), "FAnd": ("bitwiseAnd($a, $b)", 2),
    "FOr": ("bitwiseOr($a, $b)", 2), "FXor": ("bitwiseXor($a, $b)", 2), "FPow": ("pow($a, $b)", 2),
    "FRoundN": ("round($a, $b)", 2), "FShl": ("shiftBitsLeft($a, $b)", 2), "FShr": ("shiftBitsRight($a, $b)", 2),
    "FPowMod": ("pow($a, $b, $c)", 3),
}
HEADERF = "From YV Require Import Model.ScalarsFns."


def fn_cases(run):
    ints = INTS_CORE + ([] if run.quick else INTS_MORE) + [run.rng.getrandbits(k) * run.rng.choice([1, -1]) for k in (5, 70, 140)]
    small = [0, 1, 2, 3, 7, 64, -1, -2]
    out = []
    for f, (_, ar) in FNS.items():
        if ar == 1:
            out += [(f, [a]) for a in ints]
        elif f == "FPow":      # (big integers are slow inside Coq: exponents stay small)
            out += [(f, [a, b]) for a in ints for b in [0, 1, 2, 3, 7, 16, -1, -2]]
        elif f in ("FShl", "FShr"):
            out += [(f, [a, b]) for a in ints for b in small + [100]]
        elif f == "FRoundN":
            out += [(f, [a, b]) for a in ints for b in [0, 1, 5, -1, -2, -3, -40, -41]]
        elif f == "FPowMod":
            out += [(f, [a, b, c]) for a in ints for b in [0, 1, 5, 16] for c in [1, -3, 7, 2 ** 63 + 1, 0]]
        else:
            out += [(f, [a, b]) for a in ints for b in ints]
    return out


def fn_observe(im, f, args):
    o = im.run(FNS[f][0], **dict(zip("abc", args)))
    return o[1][1] if o[0] == "val" and o[1][0] == "int" else None, o


def fn_correspondence(run):
    im = impl("CDefault")
    terms, meta = [], []
    for f, args in fn_cases(run):
        got, raw = fn_observe(im, f, args)
        run.case(("fn", f, fp(tuple(args))), nontrivial=True)
        run.count("fn:" + f)
        terms.append("(%s, %s, %s)" % (f, gal.zlist(args), gal.opt(got, gal.z)))
        meta.append((f, args, raw))
    for i in run.coq_mismatches(HEADERF, "fcase", "fcase_ok", terms, shard=600)[:20]:
        f, args, raw = meta[i]
        law = fn_law(im, f, args)
        kind_ = "violation" if law else "mismatch"
        run.fail(kind_, "%s with %s: implementation %r differs from the integer-function model%s"
                 % (FNS[f][0], args, raw, "; " + law if law else ""),
                 {"fn": f, "args": [hex(a) for a in args], "implementation": show(raw), "law": law})


def fn_law(im, f, args):
    """the specification of C15_int_functions_exact evaluated on the implementation; None = holds"""
    got, raw = fn_observe(im, f, args)
    a = args[0]
    b = args[1] if len(args) > 1 else None

    def need(cond, what):
        return None if cond else what
    if f == "FAbs":
        return need(got is not None and got >= 0 and got in (a, -a), "abs(a) is not |a|")
    if f == "FSign":
        return need(got in (-1, 0, 1) and got * abs(a) == a, "sign(a) * |a| is not a")
    if f in ("FMin", "FMax"):
        return need(got in (a, b) and (got >= max(a, b) if f == "FMax" else got <= min(a, b)), "min/max is not the smaller/larger operand")
    if f == "FPow":
        if b < 0:
            return need(got is None, "pow with a negative exponent gave an integer")
        r = 1
        for _ in range(b):
            r *= a
        return need(got == r, "pow(a, b) is not the b-fold product")
    if f == "FPowMod":
        c = args[2]
        if c == 0:
            return need(got is None, "pow modulo 0 gave a value")
        r = 1
        for _ in range(b):
            r *= a
        return need(got is not None and (r - got) % c == 0 and (0 <= got < c or c < got <= 0), "pow(a, b, c) is not congruent/in range")
    if f == "FRound":
        return need(got == a, "round(a) is not a")
    if f == "FRoundN":
        if b >= 0:
            return need(got == a, "round(a, n>=0) is not a")
        p = 10 ** (-b)
        return need(got is not None and got % p == 0 and 2 * abs(got - a) <= p and (2 * abs(got - a) != p or (got // p) % 2 == 0),
                    "round(a, -k) is not the nearest multiple of 10^k with ties to even")
    if f == "FNot":
        return need(got == -a - 1, "bitwiseNot(a) is not -a-1")
    if f in ("FAnd", "FOr", "FXor"):
        x, _ = fn_observe(im, "FAnd", args)
        o, _ = fn_observe(im, "FOr", args)
        e, _ = fn_observe(im, "FXor", args)
        ok = None not in (x, o, e) and x + o == a + b and e == o - x
        nb = max(a.bit_length(), b.bit_length()) + 2
        ok = ok and all(((x >> i) & 1) == (((a >> i) & 1) & ((b >> i) & 1)) for i in range(nb))
        return need(ok, "bitwise and/or/xor are not the bit-by-bit two's complement operations")
    if f in ("FShl", "FShr"):
        if b < 0:
            return need(got is None, "shift by a negative count gave a value")
        return need(got == (a * 2 ** b if f == "FShl" else a // 2 ** b), "shift is not multiplication / floor division by 2^n")
    return None


def fn_oracle(run):
    im = impl("CDefault")
    seen = set()
    for f, args in fn_cases(run):
        run.count("law:fn:" + f)
        law = fn_law(im, f, args)
        if law and f not in seen:
            seen.add(f)
            run.fail("violation", "integer function law: %s" % law,
                     {"fn": f, "args": [hex(a) for a in args], "expression": FNS[f][0], "observed": show(fn_observe(im, f, args)[1]), "required": law})


# ----------------------------------------------------------------------------- replay
def replay(run, data):
    d = data["data"]
    if "fn" in d:
        args = [int(a, 0) for a in d["args"]]
        got, _ = fn_observe(impl("CDefault"), d["fn"], args)
        if fn_law(impl("CDefault"), d["fn"], args):
            return False
        return not run.coq_mismatches(HEADERF, "fcase", "fcase_ok", ["(%s, %s, %s)" % (d["fn"], gal.zlist(args), gal.opt(got, gal.z))])
    if d.get("law") in ("route", "quota") and "case" in d:
        case = dec_case(d["case"])
        return (quota_check(case) if d["law"] == "quota" else route_check(case, d.get("form", "lit"))) is None
    im = impl(d.get("cfg") or (d.get("case") or {}).get("cfg") or "CDefault")
    if "law" in d and "vals" in d:
        laws = Laws(im)
        vals = tuple(dec(v) for v in d["vals"])
        if getattr(laws, d["law"])(*vals) is not None:
            return False
        if len(vals) == 2 and d["law"] in Laws.PAIR and getattr(laws, d["law"])(*reversed(vals)) is not None:
            return False
        if "case" not in d:
            return True
    if "case" in d:
        # the model is evaluated over the table regenerated from the current tree
        text = G.generate()
        import core
        with core.BuildLock():
            core.write_if_changed(os.path.join(core.COQ, "Gen", G.OUTPUT), text)
            core.refresh_makefile()
            rc, out, _ = core.make(["Gen/ScalarOps.vo"])
        if rc != 0:
            return False
        case = dec_case(d["case"])
        plain, traced, ran = observe(im, case)
        if plain != traced:
            return False
        if too_big(case):
            return True
        mode = triple_mode(im, case)
        if mode == "skip":
            return True
        return not run.coq_mismatches(HEADER, "pcase", "case_ok registry_of", [case_term(case, plain, ran, mode == "unchecked")])
    return False
