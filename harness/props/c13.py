"""C13 - collection and query functions agree with their reference model.

C: pipelines of <= 4 yaql collection functions over every container kind (tuples, one-shot iterators,
sets, dicts, range/repeat sources; nested, empty, duplicates, nulls; size <= 8) with every integer argument
in [-3, len+3]; the finalised result (or the error class) of evaluate() is compared inside Coq with
Model/Streams.v (lazy algebra) AND, for list->list pipelines, with the list semantics of Model/Queries.v
about which Props/C13.v proves ordering/grouping/the algebraic laws and streaming == list semantics.
O: the same laws evaluated directly on the implementation, and a tuple-vs-iterator differential."""
import functools
import itertools
import json
import os
import signal

import streams_common as sc

GEN = []
RULE = ("corpus; single-function boundary grid (lists of size 0..3(4), tuple and iterator receivers, every integer "
        "argument in [-3, len+3], every registered function of the two modules at least once); seeded random typed "
        "pipelines of 1..4 functions over tuple/iterator/set/dict/record/range/repeat/sequence/generate/generateMany sources "
        "(elements: ints in [-3,9], nulls, pairs, nested lists; duplicates likely; sizes 0..8); non-trivial = "
        "at least one function applied to a non-empty collection; distinct = distinct (source, stages); groupBy's aggregator "
        "protocol: [key, value] pairs with group sizes 1..3 in every order (values ints / strings / pairs / lists), aggregators in "
        "the new style, the pre-1.1.1 style and ones failing on a later group (IndexError, NoMatchingMethod), contexts with "
        "group_by_agg_fallback on and off, result or error class compared with the state machine gagg_run; collection.name over "
        "dict elements (key present / missing / null) in the standard context, in yaql.legacy contexts with the legacy engine and "
        "in child contexts with a host overload of `.` for mappings; every sixth case whose text has no `=>` once more in a "
        "yaql.legacy context; O: sum/aggregate/accumulate/min/max over binary64 floats with inexact partial sums and cancellation, "
        "tuple and iterator receivers, bit-exact (float.hex) against the left fold")
TRUSTED = ["Model/Queries.v + Model/Streams.v are hand transcriptions of queries.py / collections.py / utils.memorize; "
           "tied by this correspondence (vm_compute inside Coq)",
           "harness/streams_common.py: printers of values, lambdas and stages into yaql text and into Gallina"]
ASSUMPTIONS = ["lambda bodies come from the generated family and are only applied to elements on which they are defined "
               "(the generator tracks element shapes); errors raised by lambda bodies belong to C04/C15",
               "iteration order of Python sets is not modelled: set-valued results are compared as sets and a set is "
               "only turned into a sequence through orderBy / order-insensitive functions",
               "dict views (keys/values/items) are observed through toList() only (their finalisation is C10's F7)",
               "container-kind-sensitive followers (indexer, sequence * n, isList/..., insert at a negative position) are only "
               "applied to receivers whose kind is a documented fact (sources, toList, splitAt, dict views), so that a rewrite "
               "returning a tuple instead of an iterator is not reported",
               "dict elements are compared in insertion order (Python: order-free); generated dict elements are built with "
               "their keys in one order; groupBy aggregators are $ + a list->list pipeline + len/sum/first/toList (and the "
               "pre-1.1.1 spelling); strings are over [a-zA-Z]"]
EXPLANATION = ("Coq proofs about the list model (stable sort, grouping, algebraic laws, streaming == list semantics) + "
               "in-Coq differential check of the lazy model against queries.py/collections.py on boundary grids and random pipelines")
ALLOWED_AXIOMS = []
LEVEL_NOTE = "F18 (insert at a negative position on a one-shot iterator drops the value) is an open known finding"

HERE = os.path.dirname(os.path.dirname(os.path.dirname(os.path.abspath(__file__))))


# ------------------------------------------------------------------------------------------
# C
# ------------------------------------------------------------------------------------------
SELF_OPS = [("zip",), ("zipskip", 1), ("join", ("gt2",), ("pair2",)), ("join", ("eq2",), ("add2",)), ("selagg", 100, 0), ("selagg", 10, 2),
            ("selagg", 1, 5), ("selagg", 1, 1), ("wheremax",), ("selmany", 2), ("firstall",), ("countsum",)]


def boundary_grid(run):
    """single-function cases: every integer argument in [-3, len+3] on small lists"""
    maxn = run.n(3, 4)
    base = [1, 2, 3, 2][:maxn]
    lists = [tuple(base[:k]) for k in range(0, maxn + 1)] + [(1, 1), (None, 1)]
    out = []
    for l in lists:
        n = len(l)
        rng_pos = range(-3, n + 4)
        cnts = [None, -2, -1, 0, 1, 2, n + 1]
        sts = []
        for p in rng_pos:
            sts += [("skip", p), ("take", p), ("insert", p, 9), ("insertMany", p, (8, 9)), ("insertMany", p, ()),
                    ("slice", p), ("splitAt", p), ("enumerate", p), ("index", p), ("times", p)]
            for c in cnts:
                sts += [("delete", p, c), ("replace", p, 9, c), ("replaceMany", p, (8, 9), c)]
                if run.tier != "quick":
                    sts.append(("replaceMany", p, (), c))
        sts += [("zip", (tuple(range(k)),)) for k in range(0, n + 2)]
        sts += [("first", sc.NOSEED), ("first", 7), ("last", sc.NOSEED), ("last", None), ("single",), ("len",),
                ("sum", sc.NOSEED), ("sum", 0), ("min",), ("max",), ("aggregate", ("add2",), sc.NOSEED),
                ("accumulate", ("add2",), sc.NOSEED), ("accumulate", ("add2",), 5), ("reverse",), ("distinct", None),
                ("indexOf", 2), ("lastIndexOf", 2), ("indexOf", 7), ("any", None), ("all", None), ("toSet",),
                ("orderBy", ("id",), False), ("groupBy", ("mod", 2), None), ("dictFromItems",), ("cycle",),
                ("unpackNamed", n), ("unpackNamed", n + 1), ("unpackNamed", max(1, n - 1)), ("unpackIdx", (2, 3)), ("with",),
                ("zipLongest", ((7,),), sc.NOSEED), ("zipLongest", ((7, 8, 9, 10),), 0), ("zipLongest", (), sc.NOSEED), ("listOf", (7,)),
                ("groupByAgg", ("mod", 2), None, 0), ("groupByAgg", ("mod", 2), ("add", 1), 1),
                ("groupByLegacy", ("mod", 2), None, 1), ("groupByLegacy", ("mod", 2), ("add", 1), 0), ("groupByLegacy", ("const", 0), None, 2),
                ("max", 2), ("min", 2),
                ("flatten",), ("defaultIfEmpty", (7,)), ("joinRange", 1, 4, ("gt2",), ("pair2",)), ("join", (1, 2, 3), ("eq2",), ("add2",)), ("isList",), ("isIterable",), ("isSet",), ("isDict",), ("in", 2), ("in", None)]
        for s in sts:
            if None in l and s[0] in ("sum", "min", "max", "aggregate", "accumulate", "groupBy", "groupByAgg", "groupByLegacy"):
                continue
            if s[0] == "unpackNamed" and s[1] < 1:
                continue

            for kind in ("tuple", "iter"):
                if s[0] == "cycle":
                    out.append(((kind, l), [s, ("take", 5)]))
                else:
                    out.append(((kind, l), [s]))
        if None not in l:
            for op in SELF_OPS:
                out.append((("tuple", l), [("self", op, False)]))
                out.append((("tuple", l), [("self", op, True)]))
                out.append((("iter", l), [("self", op, True)]))
                out.append((("iter", l), [("where", ("gt", 0)), ("self", op, True)]))
                out.append((("tuple", l), [("orderBy", ("mul", -1), True), ("self", op, False)]))
                out.append((("iter", l), [("select", ("add", 1)), ("toList",), ("self", op, False)]))
        if len(l) >= 1:
            for kind in ("tuple", "iter"):
                out.append(((kind, l), [("unpackIdx", (1, 2))]))
                out.append((("recs", kind, l), [("attr",)]))
    out.append((("generate", 0, ("lt", 7), ("add", 2), None, False), []))
    out.append((("generate", 0, ("lt", 7), ("add", 2), ("mul", 10), False), []))
    out.append((("generate", 1, ("lt", 7), ("mod", 3), None, True), []))
    # strings and records as elements; deep merges; aggregator pipelines
    strs = ("b", "ab", "", "a", "b", "abc")
    recs = tuple({"a": a, "b": b} for a, b in [(2, "x"), (1, "y"), (2, "a"), (0, "x")])
    for kind in ("tuple", "iter"):
        for st in ([("orderBy", ("id",), True)], [("orderBy", ("strlen",), False), ("thenBy", ("id",), True)], [("distinct", None)],
                   [("where", ("strlt", "b"))], [("select", ("strcat", "z"))], [("groupBy", ("strlen",), None)], [("toDict", ("id",), ("strlen",))],
                   [("indexOf", "b")], [("sum", "")], [("toSet",)]):
            out.append(((kind, strs), st))
        for st in ([("orderBy", ("field", "b"), True), ("thenBy", ("field", "a"), False)], [("select", ("field", "a"))], [("where", ("fieldgt", "a", 1))],
                   [("groupBy", ("field", "a"), ("field", "b"))], [("toDict", ("field", "b"), ("field", "a"))], [("distinct", ("field", "a"))],
                   [("distinct", None)], [("indexOf", {"a": 1, "b": "y"})], [("toSet",)], [("toDict", ("id",), None)]):
            out.append(((kind, recs), st))
        for agg in ((), (("where", ("gt", 1)),), (("orderBy", ("id",), False), ("take", 1)), (("select", ("mul", 2)), ("skip", 1))):
            for term in range(4):
                out.append(((kind, (1, 2, 3, 4, 5, 2)), [("groupByAggP", ("mod", 2), None, agg, term)]))
    deep = ((1, {1: {1: 1, 2: (1,)}, 2: 5}), (2, (1, 2)), (3, 7))
    right = ((1, {1: {1: 9, 3: 4}, 2: {1: 1}, 3: 3}), (2, (2, 3)), (4, {1: 1}))
    for ml in (None, 0, 1, 2, 3):
        for lm in (None, ("add2",)):
            for im in (None, ("fst",)):
                out.append((("dict", deep), [("mergeWithX", right, lm, im, ml)]))
    out.append((("dict", ((1, 5),)), [("mergeWithX", ((1, {1: 1}),), None, None, None)]))
    out.append((("dict", ((1, {1: 1}),)), [("mergeWithX", ((1, 5),), None, None, None)]))
    out.append((("repeat", 1, -1), [("take", 3)]))
    out.append((("repeat", None, -1), [("skip", 2), ("take", 2)]))
    out.append((("sequence", 0), [("take", 4)]))
    out.append((("sequence", -2), [("where", ("modeq", 2, 0)), ("take", 3)]))
    out.append((("range", 0, 4, 1), []))
    out.append((("range", 2, 5, 1), []))
    for df in (False, True):
        out.append((("generateMany", 1, 12, None, False, df), []))
        out.append((("generateMany", 1, 9, ("add", 10), True, df), [("take", 4)]))
        out.append((("generateMany", 0, 6, None, True, df), []))
    return out


AGG_KINDS = ["idxpair", "idxlen", "idxsum", "third", "len", "sum", "first", "id"]
AGG_SIZES = [(3, 1), (2, 1), (1, 2), (1, 3), (2, 3, 1), (3, 2, 1), (2, 2, 1), (1, 1), (2, 2), (3, 3), (2, 1, 2), (1, 2, 3), (2, 3), (3, 2),
             (2, 2, 3, 1), (1,), (2,), (3,)]
AGG_VALUES = ["int", "str", "pair", "list"]


def agg_value(rng, kind, j):
    if kind == "int":
        return rng.randrange(0, 6) if rng else j
    if kind == "str":
        return rng.choice(sc.STRS[1:]) if rng else "abcxyz"[j % 6]
    if kind == "pair":
        return (rng.randrange(0, 4), rng.randrange(0, 4)) if rng else (j % 3, j)
    return tuple(rng.randrange(0, 4) for _ in range(rng.randrange(0, 4))) if rng else tuple(range(j % 4))


def agg_case(sizes, kind, agg, fb, rng=None, follow=None):
    """[key, value] pairs whose groups (in order of first appearance) have the given sizes; groupBy($[0], $[1], aggregator)
    in a context with / without the old-style aggregator fallback"""
    slots = [g + 1 for g, n in enumerate(sizes) for _ in range(n)]
    if rng is not None and rng.random() < 0.6:
        # interleave the groups, keeping the order in which they first appear
        rng.shuffle(slots)
        first = []
        for g in slots:
            if g not in first:
                first.append(g)
        slots = [first.index(g) + 1 for g in slots]
    pairs = tuple((g, agg_value(rng, kind, j)) for j, g in enumerate(slots))
    stages = [("groupByG", agg, fb)] + ([follow] if follow else [])
    return (("iter" if rng is not None and rng.random() < 0.3 else "tuple", pairs), stages)


def aggregator_grid(run):
    """groupBy's aggregator protocol: aggregators in the new style, in the old style and ones that fail on some LATER group
    (IndexError, NoMatchingMethod), group sizes 1, 2, 3 in every order, fallback on and off; result or error class"""
    out = []
    for j, sizes in enumerate(AGG_SIZES):
        for a, agg in enumerate(AGG_KINDS):
            for fb in (True, False):
                out.append(agg_case(sizes, AGG_VALUES[(j + a) % 4], agg, fb))
    for _ in range(run.n(400, 5000)):
        sizes = tuple(run.rng.choice([1, 2, 2, 3]) for _ in range(run.rng.randrange(1, 5)))
        follow = run.rng.choice([None, None, None, ("take", 1), ("take", 2), ("len",), ("first", sc.NOSEED)])
        out.append(agg_case(sizes, run.rng.choice(AGG_VALUES), run.rng.choice(AGG_KINDS), run.rng.random() < 0.6, run.rng, follow))
    return out


ACCESSES = [("std",), ("legacy",), ("host", -1), ("host", 7)]


def attribution_grid(run):
    """collection.name over dict elements (the key present everywhere / missing somewhere / null-valued), in the standard
    context, in yaql.legacy contexts (legacy engine) and in child contexts where the host overrides `.` for mappings"""
    out = []
    recsets = [({"a": 1}, {"a": 2, "b": 3}), ({"a": 1}, {"b": 2}), ({"b": 2}, {"a": 1}), (), ({"a": 1}, {"b": 2}, {"a": 3, "b": 4}),
               ({"a": None}, {"a": 2}), ({"b": 0, "a": 5}, {"a": 5, "b": 0}, {"a": 6})]
    follows = [None, ("take", 1), ("len",), ("distinct", None), ("toList",)]
    for recs in recsets:
        for acc in ACCESSES:
            for name in ("a", "b"):
                for j, follow in enumerate(follows):
                    out.append((("iter" if j % 2 else "tuple", recs), [("attrx", name, acc)] + ([follow] if follow else [])))
    for _ in range(run.n(300, 4000)):
        rng = run.rng
        recs = tuple({k: rng.choice([0, 1, 2, 5, None]) for k in rng.choice([("a",), ("a", "b"), ("b", "a"), ("b",), ("a", "c")])}
                     for _ in range(rng.randrange(0, 6)))
        stages = []
        if rng.random() < 0.4:
            stages.append(rng.choice([("skip", 1), ("take", 2), ("reverse",), ("take", 4), ("memorize",)]))
        stages.append(("attrx", rng.choice(["a", "a", "b", "c"]), rng.choice(ACCESSES)))
        if rng.random() < 0.5:
            stages.append(rng.choice([("take", 1), ("take", 2), ("len",), ("distinct", None), ("toList",), ("reverse",), ("skip", 1),
                                      ("first", sc.NOSEED), ("enumerate", None)]))
        out.append(((rng.choice(["tuple", "iter"]), recs), stages))
    return out


def legacy_ok(src, stages):
    """cases that mean the same in a yaql.legacy context (which redefines dicts as iterables, range, toList, tuples, `=>`)"""
    return src[0] in ("tuple", "iter") and not any(
        s[0] in ("self", "attrx", "groupByG", "toList", "dictFromItems", "toDict", "keysList", "valuesList", "itemsList", "isList",
                 "isDict", "isIterable", "joinRange", "unpackNamed", "unpackIdx", "with", "listOf", "in", "index", "indexDefault",
                 "zipLongest", "mergeWithX", "groupByAgg", "dictSetMany", "dictSetInline",
                 # legacy lists are Python lists and input tuples stay tuples: what is hashable differs by design
                 "toSet", "distinct", "groupBy", "groupByAggP", "groupByLegacy") for s in stages)


def hashed_grid():
    """EQUAL dicts with different insertion orders through every use of a hash: distinct (with and without selector),
    sets and set algebra, membership, groupBy / toDict keys, dict keys"""
    A, B = {"a": 1, "b": "x"}, {"b": "x", "a": 1}
    C, D = {"a": 2, "b": "y"}, {"b": "y", "a": 2}
    N1, N2 = {"a": A, "b": 0}, {"b": 0, "a": B}            # nested: equal at depth too
    out = []
    for vals in ((A, B), (A, C, B, D), (B, A, A), (N1, N2), (A,), (C, D, A, B, D)):
        for kind in ("tuple", "iter"):
            for st in ([("distinct", None)], [("distinct", ("id",))], [("distinct", ("pair",))], [("toSet",), ("len",)],
                       [("groupBy", ("id",), None), ("len",)], [("groupBy", ("id",), ("field", "b"))], [("toDict", ("id",), None), ("len",)],
                       [("indexOf", B)], [("lastIndexOf", A)], [("contains", D)], [("in", B)], [("toSet",), ("in", B)], [("toSet",), ("contains", A)],
                       [("select", ("pair",)), ("distinct", None)], [("self", ("join", ("eq2",), ("fst",)), True)],
                       [("toSet",), ("union", (B,)), ("len",)], [("toSet",), ("intersect", (B,)), ("len",)],
                       [("toSet",), ("difference", (B, D)), ("len",)], [("toSet",), ("symmetricDifference", (B,)), ("len",)],
                       [("toSet",), ("setAdd", (B, D)), ("len",)], [("toSet",), ("setRemove", (A,)), ("len",)],
                       [("zip", (vals[::-1],)), ("where", ("id",)), ("len",)]):
                out.append(((kind, tuple(vals)), st))
        out.append((("set", tuple(vals)), [("len",)]))
        out.append((("set", tuple(vals)), [("union", tuple(vals[::-1])), ("len",)]))
        out.append((("set", tuple(vals)), [("in", B)]))
    # dicts as dict keys
    out.append((("dict", ()), [("dictSet", A, 1), ("dictSet", B, 2), ("len",)]))
    out.append((("dict", ()), [("dictSet", A, 1), ("dictSet", B, 2), ("dictGet", A, sc.NOSEED)]))
    out.append((("dict", ((1, A), (2, B))), [("valuesList",), ("distinct", None)]))
    out.append((("dict", ((1, A), (2, B), (3, C))), [("containsValue", B)]))
    return out


def observe(src, stages, literal=False, aliases=None, conv="camel"):
    text, o = sc.run_pipeline(src, stages, literal=literal, aliases=aliases, conv=conv)
    return text, o


def correspondence(run):
    reg, mod = sc.coverage_report(run)
    print("[C13] registered names of queries.py/collections.py: %d, modelled: %d, NOT modelled (reported as uncovered): %s" % (
        len(reg), len([n for n in reg if n in mod]), ", ".join(sorted(n for n in reg if n not in mod)) or "-"), flush=True)
    todo = []
    for c in load_corpus():
        todo.append((c["src"], c["stages"], c.get("literal", False), None, c.get("conv", "camel")))
    for src, stages in boundary_grid(run):
        todo.append((src, stages, False, None, sc.CONVS[len(todo) % 3]))      # every grid case under one of the three conventions
    for src, stages in hashed_grid():
        for literal in (False, True):
            todo.append((src, stages, literal, None, sc.CONVS[len(todo) % 3]))
    for src, stages in attribution_grid(run):
        legacy = any(s[0] == "attrx" and s[2][0] == "legacy" for s in stages)
        todo.append((src, stages, False, None, "camel" if legacy else sc.CONVS[len(todo) % 3]))
    for src, stages in aggregator_grid(run):
        todo.append((src, stages, len(todo) % 5 == 0 and src[0] == "tuple", None, sc.CONVS[len(todo) % 3]))
    n = run.n(2500, 40000)
    for _ in range(n):
        src, stages = sc.gen_pipeline(run.rng, 4)
        literal = run.rng.random() < 0.4
        aliases = [run.rng.randrange(2) for _ in stages]
        todo.append((src, stages, literal, aliases, run.rng.choice(["camel", "camel", "camel", "python", "custom"])))
    # a slice of every stage family once more in a yaql.legacy context with the legacy engine (same model)
    for j, (src, stages, literal, aliases, conv) in enumerate(list(todo)):
        if j % 6 == 0 and legacy_ok(src, stages):
            if "=>" in sc.pipeline_text(sc.source_setup(src, False)[0], stages, aliases=aliases):
                continue            # `=>` builds a tuple in the legacy grammar (no keyword arguments, no dict literals)
            todo.append((src, stages, False, aliases, "camel" + sc.LEGACY))
    cases, meta = [], []
    for src, stages, literal, aliases, conv in todo:
        text, o = observe(src, stages, literal, aliases, conv)
        run.count("convention:" + sc.base_conv(conv))
        run.count("context:" + ("yaql.legacy" if sc.LEGACY in sc.fb_conv(stages, conv) else "host overload of ." if "!dot" in sc.fb_conv(stages, conv) else "standard"))
        nontriv = bool(stages) and not (src[0] in ("tuple", "iter", "set", "dict") and len(src[1]) == 0) or src[0] in ("generate", "generateMany", "sequence")
        run.case((src, sc.stages_json(stages)), nontrivial=nontriv)
        run.count("source:" + src[0])
        run.count("stages:%d" % len(stages))
        for s in stages:
            run.count("fn:" + s[0])
        run.count("result:" + (o[1] if o[0] == "err" else o[0]))
        if len(cases) % 499 == 0:
            run.sample({"yaql": text, "source": [src[0], sc.tojson(src[1]) if src[0] in ("tuple", "iter", "set") else repr(src[1:])],
                        "observed": repr(o)})
        cases.append(sc.case_term(src, stages, o))
        meta.append((src, stages, literal, aliases, text, o, conv))
    bad = run.coq_mismatches(sc.HEADER, "case", "case_ok", cases, shard=400)
    for i in bad[:8]:
        report_mismatch(run, *meta[i])
    limit_block(run)
    kinds_block(run, [t for j, t in enumerate(todo) if j % run.n(4, 2) == 0 or j >= len(todo) - run.n(700, 6000)])
    if len(bad) > 8:
        run.note("%d further disagreeing cases not reported individually" % (len(bad) - 8))


def limit_block(run):
    """yaql.limitIterators = n: the Limit stage of the model against the real limiter (values and CollectionTooLarge)"""
    cases, meta = [], []
    for _ in range(run.n(500, 6000)):
        n = run.rng.randrange(2, 7)
        vals = tuple(run.rng.choice(sc.INTS) for _ in range(run.rng.randrange(0, 9)))
        src = (run.rng.choice(["tuple", "iter"]), vals)
        stages = sc.gen_lim_stages(run.rng, n)
        text0, _ = sc.source_setup(src, False)
        text = sc.pipeline_text(text0, stages)
        o = sc.evaluate(text, sc.source_setup(src, False)[1], timeout=20, eng=sc.engine_with_limit(n))
        run.case(("limit", n, src, sc.stages_json(stages)), nontrivial=len(vals) > 0)
        run.count("limit:n=%d" % n)
        run.count("limit-result:" + (o[1] if o[0] == "err" else o[0]))
        oo = o if o[0] != "err" else ("err", o[1])
        cases.append("{| l_lim := %s; l_src := %s; l_stages := %s; l_obs := %s |}" % (
            sc.gal.nat(n), sc.source_gal(src), "[" + "; ".join(sc.stage_gal(x) for x in stages) + "]", sc.obs_gal(oo)))
        meta.append((n, src, stages, text, o))
    bad = run.coq_mismatches(sc.HEADER, "lcase", "lcase_ok", cases, shard=400)
    for i in bad[:4]:
        n, src, stages, text, o = meta[i]
        try:
            model = run.coq_eval(sc.HEADER, "snd (eval_case_lim %s %s %s)" % (sc.gal.nat(n), sc.source_gal(src), "[" + "; ".join(sc.stage_gal(x) for x in stages) + "]"))
        except Exception as e:       # pragma: no cover
            model = repr(e)
        run.fail("violation", "yaql.limitIterators=%d: %s: the implementation's result differs from the reference model" % (n, "/".join(x[0] for x in stages)),
                 {"kind": "limit", "limit": n, "yaql": text, "src": [src[0], sc.tojson(src[1])], "stages": sc.stages_json(stages),
                  "observed": repr(o), "model": model, "theorems": ["C14_limit"],
                  "requires": "values, or CollectionTooLarge exactly when a limited parameter / the result exceeds the limit"})


# ------------------------------------------------------------------------------------------
# raw kinds (yaql.convertOutputData = false): what the functions hand on, unconverted
# ------------------------------------------------------------------------------------------
class NestedLazy(Exception):
    pass


def raw_flagged(x, top=True):
    """raw result -> the same value with tuples, lists, FrozenDicts (sc.FD) and dicts kept apart; a lazy result is the tuple
    of its elements, a set ('set', frozen?, members)"""
    from yaql.language import utils
    if x is None or isinstance(x, (bool, int, str)):
        return x
    if isinstance(x, tuple):
        return tuple(raw_flagged(t, False) for t in x)
    if isinstance(x, list):
        return [raw_flagged(t, False) for t in x]
    if isinstance(x, utils.FrozenDict):
        return sc.FD((raw_flagged(k, False), raw_flagged(v, False)) for k, v in x.items())
    if isinstance(x, dict):
        return {raw_flagged(k, False): raw_flagged(v, False) for k, v in x.items()}
    if isinstance(x, (set, frozenset)):
        return ("set", isinstance(x, frozenset), tuple(raw_flagged(t, False) for t in x))
    if hasattr(x, "__iter__"):
        if not top:
            raise NestedLazy()
        return tuple(raw_flagged(t, False) for t in x)
    raise ValueError("result outside the modelled universe: %r" % (x,))


def python_containers(v, path="result"):
    """the Python lists / dicts / mutable sets inside a raw_flagged value, as (path, kind, value)"""
    out = []
    if isinstance(v, list):
        out.append((path, "list", v))
    if isinstance(v, dict) and not isinstance(v, sc.FD):
        out.append((path, "dict", v))
    if isinstance(v, tuple) and len(v) == 3 and v[0] == "set" and isinstance(v[1], bool):
        if not v[1]:
            out.append((path, "set", v[2]))
        for j, t in enumerate(v[2]):
            out += python_containers(t, "%s{%d}" % (path, j))
        return out
    if isinstance(v, (list, tuple)):
        for j, t in enumerate(v):
            out += python_containers(t, "%s[%d]" % (path, j))
    elif isinstance(v, dict):
        for k, t in v.items():
            out += python_containers(k, "%s.key(%r)" % (path, k)) + python_containers(t, "%s[%r]" % (path, k))
    return out


def evaluate_raw(text, data, conv="camel"):
    import signal
    old = signal.signal(signal.SIGALRM, sc._alarm)
    signal.alarm(20)
    try:
        r = sc.engine_opts(limit=2000, rawout=True)(text).evaluate(data=data, context=sc.context(conv))
        return raw_flagged(r)
    finally:
        signal.alarm(0)
        signal.signal(signal.SIGALRM, old)


def kinds_block(run, todo):
    """C: the raw result of every sampled case, container kinds included, against the model (Model/Streams.v raw_result);
    O: the census - no Python list / dict / mutable set anywhere in what a function of the two modules hands on"""
    cases, meta = [], []
    for src, stages, literal, aliases, conv in todo:
        if src[0] in ("recs",) or any(s[0] in ("self",) for s in stages) or sc.LEGACY in sc.fb_conv(stages, conv):
            continue            # (yaql.legacy contexts hand on Python lists by design: the census is about the standard library)
        text0, _ = sc.source_setup(src, literal)
        text = sc.conv_text(sc.pipeline_text(text0, stages, aliases=aliases), conv)
        try:
            v = evaluate_raw(text, sc.source_setup(src, literal)[1], sc.fb_conv(stages, conv))
        except NestedLazy:
            run.count("kinds:skipped (a lazy object inside the result)")
            continue
        except BaseException as e:
            if isinstance(e, (KeyboardInterrupt, SystemExit)):
                raise
            run.count("kinds:skipped (the pipeline raises)")
            continue
        run.case(("kinds", src, sc.stages_json(stages)), nontrivial=bool(stages))
        run.count("kinds:" + (type(v).__name__ if not (isinstance(v, tuple) and len(v) == 3 and v[0] == "set") else "set"))
        for path, kind, w in python_containers(v):
            fns = "/".join(s[0] for s in stages) or src[0]
            run.fail("violation", "%s hands on a Python %s (%s): every function of the two modules returns scalars, yaql lists (tuples), "
                                  "FrozenDicts, frozensets or lazy sequences" % (fns, kind, path.split("[")[0] + "..."),
                     {"kind": "kinds", "yaql": text, "src": [src[0]] + [sc.tojson(x) for x in src[1:]], "stages": sc.stages_json(stages),
                      "literal": literal, "conv": conv, "where": path, "python_kind": kind, "value": repr(w), "raw_result": repr(v),
                      "required": "no Python list / dict / mutable set at any depth of a raw (yaql.convertOutputData=false) result",
                      "theorems": ["C13_collection_kinds"]})
            break
        if isinstance(v, tuple) and len(v) == 3 and v[0] == "set" and isinstance(v[1], bool):
            continue
        cases.append("{| r_src := %s; r_stages := %s; r_val := %s |}" % (
            sc.source_gal(src), "[" + "; ".join(sc.stage_gal(x) for x in stages) + "]", sc.gval_kind(v)))
        meta.append((src, stages, literal, conv, text, v))
    bad = run.coq_mismatches(sc.HEADER, "rcase", "rcase_ok", cases, shard=400)
    seen = set()
    for i in bad:
        src, stages, literal, conv, text, v = meta[i]
        fns = "/".join(s[0] for s in stages)
        if fns in seen or len(seen) >= 4:
            continue
        seen.add(fns)
        run.fail("violation", "%s: the raw result (container kinds included) differs from the reference model" % fns,
                 {"kind": "kinds", "yaql": text, "src": [src[0]] + [sc.tojson(x) for x in src[1:]], "stages": sc.stages_json(stages),
                  "literal": literal, "conv": conv, "raw_result": repr(v), "theorems": ["C13_collection_kinds"],
                  "requires": "tuple / FrozenDict / frozenset / lazy sequence exactly where Model/Streams.v says so"})


# collection-valued results, one expression per function family (X is used as a value afterwards)
VALUE_USES = [
    ("insert (list)", "$.insert(1, 9)"), ("splitAt", "$.splitAt(1)"), ("toList", "$.where($ > 1).toList()"), ("toDict", "$.toDict($, $ + 1)"),
    ("dict(items)", "dict($.zip($))"), ("dict.set", "{a => 1}.set(b, 2)"), ("dict.set(dict)", "{a => 1}.set({b => 2})"), ("dict.delete", "{a => 1, b => 2}.delete(a)"),
    ("deleteAll", "{a => 1, b => 2}.deleteAll([a])"), ("dict +", "({a => 1} + {b => 2})"),
    ("mergeWith", "{a => {x => 1}, b => [1]}.mergeWith({a => {y => 2}, b => [2]})"), ("mergeWith maxLevels", "{a => {x => 1}}.mergeWith({a => {y => 2}}, maxLevels => 1)"),
    ("keys", "{a => 1}.keys().toList()"), ("values", "{a => [1]}.values().toList()"), ("items", "{a => 1}.items().toList()"), ("list +", "($ + [4])"),
    ("list()", "list(1, $)"), ("toSet", "$.toSet()"), ("set()", "set(1, 2)"), ("union", "set(1).union(set(2))"), ("difference", "(set(1, 2) - set(2))"),
    ("set.add", "set(1).add(2)"), ("slice", "$.slice(2).toList()"), ("zip", "$.zip($).toList()"), ("zipLongest", "$.zipLongest([1]).toList()"),
    ("splitWhere", "$.splitWhere($ = 2).toList()"), ("sliceWhere", "$.sliceWhere($ = 2).toList()"), ("selectMany", "$.selectMany([$, $]).toList()"),
    ("join", "$.join([1, 2], $1 = $2, [$1, $2]).toList()"), ("accumulate", "$.accumulate([$1, $2]).toList()"), ("reverse", "$.reverse().toList()"),
    ("orderBy", "$.orderByDescending($).toList()"), ("memorize", "$.memorize()"), ("defaultIfEmpty", "[].defaultIfEmpty([7])"), ("replace", "$.replace(1, 9).toList()"),
    ("replaceMany", "$.replaceMany(1, [8, 9]).toList()"), ("delete", "$.delete(1).toList()"), ("insertMany", "$.insertMany(1, [8, 9]).toList()"),
    ("distinct", "$.distinct().toList()"), ("flatten", "[[1, [2]], 3].flatten().toList()"), ("list * n", "($ * 2)"), ("groupBy aggregator", "$.groupBy($ mod 2, $, $.sum()).toList()"),
    ("groupBy pipeline aggregator", "$.groupBy($ mod 2, $, $.where($ > 1).toList()).toList()"), ("unpack", "($.take(2).unpack(a, b) -> [$b, $a])"),
    ("select [..]", "$.select([$, $]).toList()"), ("append", "$.append([4]).toList()"), ("concat", "$.concat([[4]]).toList()"), ("take", "$.take(2).toList()"),
    ("range", "range(3).toList()"), ("repeat", "[1].repeat(2).toList()"), ("cycle", "$.cycle().take(4).toList()"), ("generate", "generate(0, $ < 3, $ + 1).toList()"),
    ("generateMany", "generateMany(1, [$ * 2].where($ < 5)).toList()"), ("with", "(with($) -> $1)"), ("assert", "$.assert($.any())"),
    ("enumerate", "$.enumerate().toList()"), ("groupBy", "$.groupBy($ mod 2).toList()"),
]


def value_use_laws(run, extra=()):
    """every collection-valued result is a first-class yaql value: hashable (distinct, toSet, groupBy key, dict key) and equal to
    the literal spelling of what it denotes"""
    data = [1, 2, 3, 2]
    for name, x in list(extra) + VALUE_USES:
        shown = sc.evaluate(x, list(data))
        if shown[0] == "err":
            law_fail(run, "value use: the expression evaluates", x, tuple(data), "tuple", shown, "a value")
            continue
        lit = sc.set_text(shown[1]) if shown[0] == "set" else sc.vtext(dict(shown[1]) if shown[0] == "dict" else shown[1])
        laws = [("[%s].distinct().len()" % x, 1), ("[%s, %s].toSet().len()" % (x, x), 1), ("[%s].groupBy($).len()" % x, 1),
                ("dict().set(%s, 1).len()" % x, 1), ("%s = %s" % (x, lit), True), ("[%s].indexOf(%s)" % (x, lit), 0)]
        for text, want in laws:
            a = sc.evaluate(text, list(data))
            run.case(("value-use", text))
            run.count("value-use")
            if a != ("val", want):
                law_fail(run, "value use (%s): a collection-valued result is a first-class yaql value - usable as element of distinct / toSet, "
                              "as groupBy and dict key, and equal to its literal spelling" % name, text, tuple(data), "tuple", a, repr(want))
                break


def model_result(run, src, stages):
    try:
        return run.coq_eval(sc.HEADER, "snd (eval_case %s %s)" % (sc.source_gal(src), "[" + "; ".join(sc.stage_gal(s) for s in stages) + "]"))
    except Exception as e:        # pragma: no cover
        return "model evaluation failed: %r" % (e,)


def shrink(run, src, stages, literal, aliases, conv="camel"):
    """one round of candidates (drop a stage / shorten the source), all evaluated in one Coq call"""
    cands = []
    # set iteration order is outside the model: pipelines that go through a set keep their stages
    unordered = src[0] == "set" or any(s[0] == "toSet" for s in stages)
    for j in range(len(stages) if not unordered else 0):
        cands.append((src, stages[:j] + stages[j + 1:]))
    for j in range(1, len(stages) if not unordered else 0):
        cands.append((src, stages[:j]))
    keep_nonempty = any(s[0] == "unpackIdx" and 1 in s[1] for s in stages)     # $1 of an empty unpack is the outer $
    if src[0] in ("tuple", "iter", "set", "dict") and not (keep_nonempty and len(src[1]) <= 1):
        for k in range(len(src[1])):
            cands.append(((src[0], src[1][:k] + src[1][k + 1:]), stages))
    terms, keep = [], []
    for s2, st2 in cands:
        try:
            if any(s[0] == "cycle" for s in st2) and not any(a[0] == "cycle" and b[0] == "take" for a, b in zip(st2, st2[1:])):
                continue          # endless without its take: not a case of the property
            _, o = observe(s2, st2, literal, None, conv)
            if o[0] == "err" and o[1] == "EOther":
                continue
            terms.append(sc.case_term(s2, st2, o))
            keep.append((s2, st2))
        except Exception:
            pass
    if not terms:
        return src, stages
    try:
        bad = run.coq_mismatches(sc.HEADER, "case", "case_ok", terms, shard=400)
    except Exception:
        return src, stages
    best = (src, stages)
    for i in bad:
        s2, st2 = keep[i]
        if len(st2) + len(s2[1] if s2[0] in ("tuple", "iter", "set", "dict") else ()) < \
                len(best[1]) + len(best[0][1] if best[0][0] in ("tuple", "iter", "set", "dict") else ()):
            best = (s2, st2)
    return best


def report_mismatch(run, src, stages, literal, aliases, text, o, conv="camel"):
    for _ in range(4):
        s2, st2 = shrink(run, src, stages, literal, aliases, conv)
        if (s2, st2) == (src, stages):
            break
        src, stages, aliases = s2, st2, None
    text, o = observe(src, stages, literal, aliases, conv)
    fns = "/".join(s[0] for s in stages) + ("" if conv == "camel" else " [context with the %s naming convention]" % conv)
    run.fail("violation", "collection function(s) %s: the implementation's result differs from the reference model" % fns,
             {"kind": "pipeline", "yaql": text, "conv": conv, "src": [src[0]] + [sc.tojson(x) for x in src[1:]],
              "stages": sc.stages_json(stages), "literal": literal,
              "observed": repr(o), "model": model_result(run, src, stages),
              "theorems": ["C13_stream_is_list", "C13_order_by", "C13_group_by"],
              "requires": "finalised evaluate() result (or error class) equal to Model/Streams.v eval_case on the same input"})


def load_corpus():
    path = os.path.join(HERE, "corpus", "C13.json")
    if not os.path.exists(path):
        return []
    out = []
    for c in json.load(open(path)):
        if c.get("kind", "pipeline") != "pipeline":
            continue
        out.append({"src": src_from_json(c["src"]), "stages": sc.stages_from_json(c["stages"]), "literal": c.get("literal", False)})
    return out


def src_from_json(j):
    k = j[0]
    if k in ("tuple", "iter", "set"):
        return (k, sc.fromjson(j[1]))
    if k == "dict":
        return (k, tuple((sc.fromjson(a), sc.fromjson(b)) for a, b in j[1]))
    return tuple([k] + [sc.fromjson(x) for x in j[1:]])


# ------------------------------------------------------------------------------------------
# O: the laws, evaluated on the implementation
# ------------------------------------------------------------------------------------------
def ev(text, l, kind="tuple"):
    return sc.evaluate_fresh(text, lambda: list(l) if kind == "tuple" else iter(list(l)))


def val(o):
    return o[1] if o[0] == "val" else ("!", o)


def py_apply(l, v):
    k = l[0]
    if k == "id":
        return v
    if k == "mod":
        return v % l[1]
    if k == "add":
        return v + l[1]
    if k == "mul":
        return v * l[1]
    if k == "const":
        return l[1]
    if k == "idx":
        return v[l[1]]
    if k == "gt":
        return v is not None and v > l[1]
    if k == "lt":
        return v is None or v < l[1]
    if k == "eq":
        return v == l[1]
    if k == "neq":
        return v != l[1]
    if k == "modeq":
        return v % l[1] == l[2]
    if k == "isnull":
        return v is None
    if k == "pairmod":
        return (v % l[1], v)
    if k == "pair":
        return (v, v)
    raise ValueError(l)


def key_rank(v):
    return (0, 0) if v is None else (1, int(v))


PREDS = [("gt", 1), ("lt", 3), ("modeq", 2, 0), ("neq", 2), ("eq", 1)]
FUNS = [("add", 1), ("mul", 2), ("mod", 2), ("const", 4), ("id",)]
KEYS = [("id",), ("mod", 2), ("mod", 3), ("mul", -1), ("const", 0)]
F18 = {"function": "insert", "receiver": "one-shot iterator", "position": "negative"}


def law_fail(run, law, text, l, kind, observed, required, extra=None):
    d = {"kind": "law", "law": law, "yaql": text, "input": sc.tojson(l), "receiver": kind,
         "observed": repr(observed), "required": required}
    if extra:
        d.update(extra)
    run.fail("violation", "law '%s' fails on the implementation" % law, d)


def small_lists(run, deep):
    elems = [1, 2, 3]
    out = [()]
    for n in range(1, run.n(3, 4) + 1 + (1 if deep else 0)):
        out += list(itertools.product(elems, repeat=n))
    return out


def check_laws_on(run, l, rng=None):
    n = len(l)
    L = list(l)
    for kind in ("tuple", "iter"):
        # --- where-where / select-select fusion
        for p, q in ([(PREDS[0], PREDS[2]), (PREDS[1], PREDS[3])] if rng is None else [(rng.choice(PREDS), rng.choice(PREDS))]):
            a = ev("$.where(%s).where(%s)" % (sc.lam_body(p), sc.lam_body(q)), l, kind)
            b = ev("$.where((%s) and (%s))" % (sc.lam_body(p), sc.lam_body(q)), l, kind)
            run.case(("ww", l, kind, p, q))
            if a != b:
                law_fail(run, "where p (where q l) = where (q and p) l", "$.where(P).where(Q) with P=%s Q=%s" % (sc.lam_body(p), sc.lam_body(q)), l, kind, a, repr(b))
        for f, g in ([(FUNS[0], FUNS[1]), (FUNS[2], FUNS[0])] if rng is None else [(rng.choice(FUNS), rng.choice(FUNS))]):
            a = ev("$.select(%s).select(%s)" % (sc.lam_body(f), sc.lam_body(g)), l, kind)
            b = ev("$.select(%s)" % sc.lam_body(g, "(" + sc.lam_body(f) + ")"), l, kind)
            run.case(("ss", l, kind, f, g))
            if a != b:
                law_fail(run, "select g (select f l) = select (g . f) l", "$.select(%s).select(%s)" % (sc.lam_body(f), sc.lam_body(g)), l, kind, a, repr(b))
        # --- reverse, distinct
        a = ev("$.reverse().reverse()", l, kind)
        run.case(("rev", l, kind))
        if val(a) != tuple(L):
            law_fail(run, "reverse (reverse l) = l", "$.reverse().reverse()", l, kind, a, repr(L))
        a, b = ev("$.distinct()", l, kind), ev("$.distinct().distinct()", l, kind)
        firsts = tuple(x for i, x in enumerate(L) if x not in L[:i])
        run.case(("distinct", l, kind))
        if a != b or val(a) != firsts:
            law_fail(run, "distinct is idempotent and keeps first occurrences in order", "$.distinct()", l, kind, (a, b), repr(firsts))
        # --- accumulate / aggregate
        if n:
            a, b = ev("$.accumulate($1 + $2).last()", l, kind), ev("$.aggregate($1 + $2)", l, kind)
            run.case(("acc", l, kind))
            if a != b or val(b) != sum(L):
                law_fail(run, "last (accumulate f l) = aggregate f l", "$.accumulate($1 + $2).last()", l, kind, a, repr(b))
        # --- indexOf / lastIndexOf
        for v in (1, 2, 7):
            a, b = val(ev("$.indexOf(%d)" % v, l, kind)), val(ev("$.lastIndexOf(%d)" % v, l, kind))
            ra = L.index(v) if v in L else -1
            rb = (n - 1 - L[::-1].index(v)) if v in L else -1
            run.case(("idx", l, kind, v))
            if a != ra or b != rb:
                law_fail(run, "indexOf/lastIndexOf: first/last position of an equal element, else -1", "$.indexOf(%d), $.lastIndexOf(%d)" % (v, v), l, kind, (a, b), repr((ra, rb)))
        # --- integer-argument laws on the whole range [-3, len+3]
        for i in range(-3, n + 4):
            if i >= 0:
                a = ev("$.take(%d).toList()" % i, l, kind) if kind == "tuple" else None
                t, s = ev("$.take(%d)" % i, l, kind), ev("$.skip(%d)" % i, l, kind)
                run.case(("takeskip", l, kind, i))
                if val(t) + val(s) != tuple(L) or len(val(t)) != min(i, n):
                    law_fail(run, "take n l ++ skip n l = l", "$.take(%d), $.skip(%d)" % (i, i), l, kind, (t, s), repr(L))
            a = ev("$.splitAt(%d)" % i, l, kind)
            run.case(("splitAt", l, kind, i))
            ok = a[0] == "val" and len(a[1]) == 2 and a[1][0] + a[1][1] == tuple(L)
            if not ok:
                law_fail(run, "splitAt i l: the two parts concatenate to l", "$.splitAt(%d)" % i, l, kind, a, repr(L))
            a = ev("$.insert(%d, 9).len()" % i, l, kind)
            run.case(("insert-len", l, kind, i))
            if val(a) != n + 1:
                law_fail(run, "len (insert l i v) = len l + 1", "$.insert(%d, 9).len()" % i, l, kind, a, str(n + 1),
                         {"finding_class": F18} if (kind == "iter" and i < 0 and val(a) == n) else None)
            if 0 <= i <= n:
                a = ev("$.insert(%d, 9).delete(%d, 1)" % (i, i), l, kind)
                run.case(("insdel", l, kind, i))
                if val(a) != tuple(L):
                    law_fail(run, "delete (insert l i v) i 1 = l for 0 <= i <= len l", "$.insert(%d, 9).delete(%d, 1)" % (i, i), l, kind, a, repr(L))
            if i >= 1:
                a = ev("$.slice(%d)" % i, l, kind)
                run.case(("slice", l, kind, i))
                parts = val(a)
                ok = a[0] == "val" and tuple(x for p in parts for x in p) == tuple(L) and \
                    all(len(p) == i for p in parts[:-1]) and all(1 <= len(p) <= i for p in parts[-1:])
                if not ok:
                    law_fail(run, "slice n l: parts concatenate to l, all of length n but the last", "$.slice(%d)" % i, l, kind, a, "chunks of %d" % i)
        for k in range(0, n + 2):
            a = ev("$.zip(%s)" % sc.vtext(tuple(range(k))), l, kind)
            run.case(("zip", l, kind, k))
            if a[0] != "val" or len(a[1]) != min(n, k) or any(p != (L[j], j) for j, p in enumerate(a[1])):
                law_fail(run, "zip length = min of the lengths, pairs positionally", "$.zip(%s)" % sc.vtext(tuple(range(k))), l, kind, a, "length %d" % min(n, k))
        # --- ordering: permutation, sorted, stable (with thenBy and descending flags)
        combos = [[(KEYS[1], True)], [(KEYS[1], False)], [(KEYS[1], False), (KEYS[0], False)], [(KEYS[2], True), (KEYS[1], False)]]
        if rng is not None:
            combos = [[(rng.choice(KEYS), rng.random() < 0.5) for _ in range(rng.randrange(1, 4))]]
        for keys in combos:
            # elements are tagged with their input position so that stability is observable
            tagged = [(x, j) for j, x in enumerate(L)]
            expr = "$.enumerate().select([$[1], $[0]])"
            for j, (kf, asc) in enumerate(keys):
                body = sc.lam_body(kf, "$[0]")
                expr += ".%s(%s)" % (("orderBy" if asc else "orderByDescending") if j == 0 else ("thenBy" if asc else "thenByDescending"), body)
            a = ev(expr, l, kind)

            def cmpf(x, y, keys=keys):
                for kf, asc in keys:
                    kx, ky = key_rank(py_apply(kf, x[0])), key_rank(py_apply(kf, y[0]))
                    if kx < ky:
                        return -1 if asc else 1
                    if kx > ky:
                        return 1 if asc else -1
                return 0
            want = tuple(sorted(tagged, key=functools.cmp_to_key(cmpf)))
            run.case(("order", l, kind, tuple(keys)))
            if val(a) != want:
                got = val(a)
                why = "not a permutation" if a[0] != "val" or sorted(got) != sorted(tagged) else \
                    ("not sorted for the key order" if any(cmpf(got[j], got[j + 1]) > 0 for j in range(len(got) - 1)) else "not stable")
                law_fail(run, "orderBy/thenBy: output is a stable sort (permutation, sorted, equal keys keep input order): " + why,
                         expr, l, kind, a, repr(want))
        # --- a let-bound re-iterable collection: every traversal sees all elements from the start,
        #     also while another traversal of the same collection is suspended
        if kind == "tuple":
            binders = [("$", L), ("$.memorize()", L), ("$.orderBy($)", sorted(L))]
        else:
            binders = [("$.memorize()", L), ("$.select($ + 1).memorize()", [x + 1 for x in L])]
        if rng is not None:
            binders = [rng.choice(binders)]
        for bind, c in binders:
            exps = [("$m.zip($m)", tuple((x, x) for x in c)),
                    ("$m.select($m.count())", tuple(len(c) for _ in c)),
                    ("$m.select($ * 100 + $m.sum(0))", tuple(x * 100 + sum(c) for x in c)),
                    ("$m.join($m, $1 < $2, [$1, $2])", tuple((a, b) for a in c for b in c if a < b)),
                    ("$m.zip($m.skip(1))", tuple(zip(c, c[1:]))),
                    ("[$m.count(), $m.sum(0), $m.count()]", (len(c), sum(c), len(c))),
                    ("$m.selectMany($m.select($ + 0).limit(2))", tuple(y for _ in c for y in c[:2]))]
            if c:
                exps += [("$m.where($ < $m.max())", tuple(x for x in c if x < max(c))),
                         ("[$m.first(), $m.toList(), $m.last()]", (c[0], tuple(c), c[-1]))]
            for body, want in exps:
                text = "let(m => %s) -> %s" % (bind, body)
                a = ev(text, l, kind)
                run.case(("rebind", l, kind, text))
                if val(a) != want:
                    law_fail(run, "a let-bound re-iterable collection (tuple, list, OrderingIterable, memorized iterator) shows all its elements "
                                  "to every traversal, nested or simultaneous ones included", text, l, kind, a, repr(want))
        # --- assert hands its (memorized) receiver on unchanged - also when the receiver was memorized before (F24, fixed)
        if kind == "iter" and n and rng is None:
            for text in ("$.memorize().assert($.any())", "$.assert($.any()).assert($.any())", "$.defaultIfEmpty([0]).assert($.any())"):
                a = ev(text, l, kind)
                run.case(("memo-assert", l, text))
                if val(a) != tuple(L):
                    law_fail(run, "x.assert(condition) returns x: all its elements, each once", text, l, kind, a, repr(L))
        # --- grouping
        for kf in ([KEYS[1], KEYS[2]] if rng is None else [rng.choice(KEYS)]):
            a = ev("$.groupBy(%s)" % sc.lam_body(kf), l, kind)
            ks = []
            for x in L:
                if py_apply(kf, x) not in ks:
                    ks.append(py_apply(kf, x))
            want = tuple((k, tuple(x for x in L if py_apply(kf, x) == k)) for k in ks)
            run.case(("group", l, kind, kf))
            if val(a) != want:
                law_fail(run, "groupBy: groups partition the input in encounter order, keys distinct in first-occurrence order",
                         "$.groupBy(%s)" % sc.lam_body(kf), l, kind, a, repr(want))


DIFF_FUNS = ["$.insert(%(i)d, 9)", "$.insertMany(%(i)d, [8, 9])", "$.delete(%(i)d, 2)", "$.replace(%(i)d, 9, 2)",
             "$.replaceMany(%(i)d, [8, 9], 2)", "$.splitAt(%(i)d)", "$.skip(%(i)d)", "$.take(%(i)d)", "$.slice(%(i)d)",
             "$.enumerate(%(i)d)", "$.last()", "$.first()", "$.reverse()", "$.len()", "$.indexOf(%(i)d)",
             "$.distinct()", "$.orderBy($)", "$.sum()", "$.contains(%(i)d)", "$ + [%(i)d]", "$.memorize()", "$.single()",
             "$.defaultIfEmpty([7])", "$.toList()", "$.accumulate($1 + $2)", "$.count()",
             "$.unpack() -> [$2, $3]", "$.zipLongest([7])", "$.flatten()", "$.groupBy($ mod 2, aggregator => $.len())"]


def differential(run, lists):
    for l in lists:
        for f in DIFF_FUNS:
            for i in (range(-3, len(l) + 4) if "%(i)d" in f else [0]):
                text = f % {"i": i}
                a, b = ev(text, l, "tuple"), ev(text, l, "iter")
                run.case(("diff", l, text))
                run.count("differential")
                if a[:2] != b[:2]:
                    is_f18 = text.startswith("$.insert(") and i < 0
                    run.fail("violation", "a tuple and a one-shot iterator of the same elements give different results for %s" % text.split("(")[0][2:],
                             {"kind": "differential", "yaql": text, "input": sc.tojson(l), "tuple_result": repr(a), "iterator_result": repr(b),
                              "required": "the same finalised result for both receivers",
                              "finding_class": F18 if is_f18 else None})


# ---- fold-like functions over binary64: the model's fold is over an abstract `+`; here it is instantiated with Python floats
FLOAT_LISTS = [(0.1, 0.2, 0.3), (1e16, 1.0, -1e16), (0.1,) * 10, (1, 0.1, 2, 0.2), (1e100, 1.0, -1e100, 1.0), (0.1, 0.7, 0.2), (3.5,),
               (1e-16, 1.0, 1e-16, -1.0), (2 ** 53, 1.0, 1.0), (0.3, 0.2, 0.1), (7, 0.1, 0.2), (0.1, 0.2, 7)]
FLOAT_POOL = [0.1, 0.2, 0.3, 0.7, 1e16, -1e16, 1.0, -1.0, 1e-3, 2.5, 3, 7, 1e100, -1e100, 2 ** 53, 1e-16]


def fhex(v):
    if isinstance(v, float):
        return v.hex()
    if isinstance(v, (list, tuple)):
        return tuple(fhex(x) for x in v)
    return v


def raw_eval(text, data, ctx=None, eng=None):
    old = signal.signal(signal.SIGALRM, sc._alarm)
    signal.alarm(20)
    try:
        return ("val", fhex((eng or sc.engine_opts(limit=2000))(text).evaluate(data=data, context=ctx if ctx is not None else sc.context())))
    except BaseException as e:
        if isinstance(e, (KeyboardInterrupt, SystemExit)):
            raise
        return ("err", sc.err_class(e), "%s: %s" % (type(e).__name__, str(e)[:100]))
    finally:
        signal.alarm(0)
        signal.signal(signal.SIGALRM, old)


def float_fold_laws(run):
    """sum / aggregate / accumulate / min / max over floats whose partial sums are inexact or cancel: BIT-EXACTLY the left
    fold of Python's `+` (resp. of the comparison), for tuple and iterator receivers, with and without an initial value"""
    import functools
    import itertools
    import operator
    lists = list(FLOAT_LISTS)
    for _ in range(run.n(40, 600)):
        lists.append(tuple(run.rng.choice(FLOAT_POOL) for _ in range(run.rng.randrange(1, 9))))
    add = operator.add
    for l in lists:
        fold = functools.reduce(add, l)
        req = [("$.sum()", fold), ("$.sum(0.5)", functools.reduce(add, l, 0.5)), ("$.sum(0)", functools.reduce(add, l, 0)),
               ("$.aggregate($1 + $2)", fold), ("$.aggregate($1 + $2, 0.25)", functools.reduce(add, l, 0.25)),
               ("$.accumulate($1 + $2)", tuple(itertools.accumulate(l))), ("$.toList().sum()", fold),
               ("$.select($).sum()", fold), ("$.reverse().sum()", functools.reduce(add, l[::-1])),
               ("$.memorize().sum(0.5)", functools.reduce(add, l, 0.5)), ("$.append(0.1).sum()", functools.reduce(add, l + (0.1,))),
               ("$.min()", functools.reduce(lambda a, b: a if b > a else b, l)), ("$.max()", functools.reduce(lambda a, b: b if b > a else a, l))]
        for text, want in req:
            for kind in ("tuple", "iter"):
                o = raw_eval(text, list(l) if kind == "tuple" else iter(list(l)))
                run.case(("float", l, text, kind))
                run.count("float fold:" + text.split("(")[0][2:])
                if o != ("val", fhex(want)):
                    law_fail(run, "float fold: %s is the left fold over the elements in order" % text, text, [repr(x) for x in l], kind, o,
                             "bit-exactly %r = %r (left fold of Python's binary64 `+` / comparison)" % (fhex(want), want),
                             {"theorems": ["C13_accumulate_aggregate"]})
                    return


def attribution_laws(run):
    """collection.name == collection.select($.name) == the map of the context's member access: standard context (d[key]),
    yaql.legacy (d.get(key)) with the legacy engine, a child context with a host overload of `.` for mappings"""
    datas = [({"a": 1}, {"a": 2, "b": 3}), ({"a": 1}, {"b": 2}), ({"b": 2}, {"a": 1}, {"a": 3}), (), ({"a": None},)]
    for _ in range(run.n(20, 300)):
        datas.append(tuple({k: run.rng.randrange(0, 5) for k in run.rng.choice([("a",), ("a", "b"), ("b",), ("b", "a")])}
                           for _ in range(run.rng.randrange(0, 5))))
    ctxs = [("the standard context", "camel", False, lambda d, k: d[k]),
            ("a yaql.legacy context (legacy engine)", "camel" + sc.LEGACY, True, lambda d, k: d.get(k)),
            ("a child context whose host overloads `.` for mappings with d.get(key, -1)", "camel!dot-1", False, lambda d, k: d.get(k, -1)),
            ("a yaql.legacy context with a host overload of `.` on top", "camel" + sc.LEGACY + "!dot7", True, lambda d, k: d.get(k, 7))]
    for data in datas:
        for what, conv, legacy, access in ctxs:
            for name in ("a", "b"):
                try:
                    want = ("val", tuple(access(d, name) for d in data))
                except KeyError:
                    want = ("err", "EKey")
                for kind in ("tuple", "iter"):
                    mk = (lambda: [dict(d) for d in data]) if kind == "tuple" else (lambda: iter([dict(d) for d in data]))
                    eng = sc.engine_opts(limit=2000, legacy=legacy)
                    a = raw_eval("$.%s" % name, mk(), sc.context(conv), eng)
                    b = raw_eval("$.select($.%s)" % name, mk(), sc.context(conv), eng)
                    run.case(("attribution", data and tuple(tuple(d.items()) for d in data), conv, name, kind))
                    run.count("attribution law")
                    if a[:2] != want or b[:2] != want:
                        law_fail(run, "attribution: collection.name = collection.select($.name) = map of the context's member access",
                                 "$.%s  /  $.select($.%s)  in %s" % (name, name, what), [sorted(d.items()) for d in data], kind, (a, b),
                                 "both %r" % (want,), {"theorems": ["C13_collection_attribution"]})
                        return


def oracle(run, deep):
    float_fold_laws(run)
    attribution_laws(run)
    path = os.path.join(HERE, "corpus", "C13.json")
    if os.path.exists(path):
        for c in json.load(open(path)):
            if c.get("kind") == "law":
                check_laws_on(run, sc.fromjson(c["input"]))
            elif c.get("kind") == "differential":
                differential(run, [sc.fromjson(c["input"])])
    value_use_laws(run, [(c.get("note", "corpus"), c["expr"]) for c in (json.load(open(path)) if os.path.exists(path) else []) if c.get("kind") == "valueuse"])
    lists = small_lists(run, deep)
    for l in lists:
        check_laws_on(run, l)
    differential(run, [l for l in lists if len(l) <= 3][: run.n(25, 60)] + [(1, 1, 2), (None, 1)])
    for _ in range(run.n(60, 1500) * (4 if deep else 1)):
        l = tuple(sc.gen_values(run.rng, "int", run.rng.randrange(0, 9)))
        check_laws_on(run, l, run.rng)


def classify(failure, known):
    fc = failure.data.get("finding_class")
    for k in known:
        if fc and fc == k.get("class"):
            return k["line"]
    return None


# ------------------------------------------------------------------------------------------
def replay(run, data):
    d = data["data"]
    kind = d.get("kind", "pipeline")
    if kind == "kinds":
        src, stages = src_from_json(d["src"]), sc.stages_from_json(d["stages"])
        before = len(run.failures)
        kinds_block(run, [(src, stages, d.get("literal", False), None, d.get("conv", "camel"))])
        return len(run.failures) == before
    if kind == "limit":
        n, src, stages = d["limit"], src_from_json(d["src"]), sc.stages_from_json(d["stages"])
        text0, data = sc.source_setup(src, False)
        o = sc.evaluate(sc.pipeline_text(text0, stages), data, timeout=20, eng=sc.engine_with_limit(n))
        oo = o if o[0] != "err" else ("err", o[1])
        term = "{| l_lim := %s; l_src := %s; l_stages := %s; l_obs := %s |}" % (
            sc.gal.nat(n), sc.source_gal(src), "[" + "; ".join(sc.stage_gal(x) for x in stages) + "]", sc.obs_gal(oo))
        return not run.coq_mismatches(sc.HEADER, "lcase", "lcase_ok", [term])
    if kind == "pipeline":
        src, stages = src_from_json(d["src"]), sc.stages_from_json(d["stages"])
        _, o = observe(src, stages, d.get("literal", False), None, d.get("conv", "camel"))
        return not run.coq_mismatches(sc.HEADER, "case", "case_ok", [sc.case_term(src, stages, o)])
    if kind == "law" and d.get("law", "").startswith(("float fold", "attribution")):
        before = len(run.failures)
        float_fold_laws(run)
        attribution_laws(run)
        return len(run.failures) == before
    if kind == "law" and d.get("law", "").startswith("value use"):
        before = len(run.failures)
        value_use_laws(run)
        return len(run.failures) == before
    l = sc.fromjson(d["input"])
    before = len(run.failures)
    if kind == "law":
        check_laws_on(run, l)
    else:
        differential(run, [l])
    new = [f for f in run.failures[before:] if f.kind == "violation"]
    known = [{"class": F18, "line": "F18"}]
    return not [f for f in new if not classify(f, known)]
