"""C14 - streaming operators consume only what they need from their source.

C: pipelines of <= 4 streaming functions over an INSTRUMENTED endless source (a Python iterator counting
its pulls, passed as data) with lambdas wrapped in a registered tick(id, v) probe; the first k results are
asked for through take(k) (or the pipeline ends in a short-circuit search); (prefix, pulls, lambda
applications) is compared inside Coq with Model/Streams.v, the model about which Props/C14.v proves the
per-operator demand lemmas and the composed bound.
O: pulls <= need + 1 and applications per lambda <= need + 1 with a Python twin of `need`; the searches pull
exactly up to the deciding element.  Watchdog: the source raises after CAP pulls and every evaluation runs
under an alarm, so a non-streaming rewrite is REPORTED instead of hanging."""
import collections.abc
import json
import os
import time

import gal
import streams_common as sc

GEN = []
RULE = ("the source reaches the query in 15 ways (one-shot iterator, RE-ITERABLE lazy object, or lazy SEQUENCE - a "
        "collections.abc.Sequence of 10**6 elements fetched and counted in __getitem__, delivered unconverted; as $ / inside the data document / "
        "context variable / result of a registered host function; yaql.convertInputData on and off), a fixed set of pipelines "
        "through all of them and every other case through one of them in rotation; every pipeline also in SPLIT form (a prefix of "
        "the chain - the source itself or the result of any streaming operator - bound by let (keyword, positional, several "
        "bindings) / with / a def'd function / lambda(..)(..) / a lambda held in a variable, 1..3 bindings chained, and the chain "
        "continued through the variable: values, pulls and lambda applications must be those of the unsplit chain); selectMany "
        "with LAZY groups (sequence($), range($), $.repeat(), a second instrumented host iterator in a context variable bare or "
        "under select / where - its pulls and lambda applications are counted too); yaql.limitIterators = 2..6, 40, 120 over the "
        "one-shot iterator and over re-iterable sources (only __iter__, a fresh generator per call; endless and finite) that reach "
        "the operators unconverted, pulls summed over all iterators handed out; corpus; per-function grid (each streaming function alone over the endless source, every integer argument in "
        "[-3, 6], k in 0..5); seeded random typed pipelines of 1..4 streaming functions, start value in [-3, 3], "
        "k in 0..8; pipelines ending in first/any/all/indexOf/indexWhere/contains; non-trivial = at least one result "
        "requested and at least one function; distinct = distinct (start, stages, k)")
TRUSTED = ["Model/Streams.v: hand transcription of the lazy objects of queries.py / collections.py / utils.py; tied by this "
           "correspondence (values, pulls and lambda applications compared by vm_compute inside Coq)",
           "the instrumented source and the tick probe of harness/props/c14.py (counting is by the harness)"]
ASSUMPTIONS = ["the way a lazy source is handed to the query (data, document member, context variable, host function result, "
               "with or without input conversion, iterator or re-iterable) does not enter the model: the consumption must be the same",
               "lambda bodies come from the generated family and are applied to integers / pairs they are defined on",
               "insert on a lazy SEQUENCE is the (eager) list function by overload resolution: pipelines with insert are fed the "
               "re-iterable object instead; Python range objects cannot be instrumented and are not used",
               "after an endless group that is not instrumented (sequence($), $.repeat()) only operators that hand every element "
               "on are generated (a filter that never matches would spin without touching any instrumented source); such cases run "
               "under an address-space ceiling so that a materialising implementation ends in MemoryError",
               "a pipeline needing more than CAP = 200 source elements for its first k results is recorded as such on both "
               "sides and not compared further"]
EXPLANATION = ("Coq proofs of the demand of each streaming operator and of their composition along a pipeline (exact pull and "
               "lambda-application counts, fuel-monotone small-step model) + in-Coq differential check of "
               "(prefix, pulls, ticks) against the real operators over an instrumented endless source")
ALLOWED_AXIOMS = []

HERE = os.path.dirname(os.path.dirname(os.path.dirname(os.path.abspath(__file__))))
CAP = 200


class PullCap(Exception):
    pass


class Source:
    """k0, k0+1, ... counting every pull; refuses to be drained"""

    def __init__(self, k0, records=False):
        self.k0, self.pulls, self.records = k0, 0, records

    def __iter__(self):
        return self

    def __next__(self):
        self.pulls += 1
        if self.pulls > CAP:
            raise PullCap()
        v = self.k0 + self.pulls - 1
        return {"a": v, "b": 0} if self.records else v


class Feed:
    """the same endless source as a RE-ITERABLE object (a cursor / paginated result): no __next__, every
    __iter__ starts a fresh lazy generator; all pulls are counted on the one object and capped"""

    def __init__(self, k0, records=False, length=None):
        self.k0, self.pulls, self.records, self.length = k0, 0, records, length
        self.iters, self.ended = 0, 0          # iterators handed out / of them run to the end (finite feeds)

    def __iter__(self):
        self.iters += 1
        i = 0
        while self.length is None or i < self.length:
            self.pulls += 1
            if self.pulls > CAP:
                raise PullCap()
            v = self.k0 + i
            i += 1
            yield {"a": v, "b": 0} if self.records else v
        self.ended += 1


class LazySeq(collections.abc.Sequence):
    """a lazy / virtual SEQUENCE (paged result set, memory-mapped column): a million elements k0, k0+1, ... that exist only
    when __getitem__ fetches them; every fetch is counted and capped like a pull"""

    def __init__(self, k0, records=False):
        self.k0, self.pulls, self.records = k0, 0, records

    def __len__(self):
        return 10 ** 6

    def __getitem__(self, i):
        if isinstance(i, slice):
            return [self[j] for j in range(*i.indices(len(self)))]
        if i < 0:
            i += len(self)
        if not 0 <= i < len(self):
            raise IndexError(i)
        self.pulls += 1
        if self.pulls > CAP:
            raise PullCap()
        v = self.k0 + i
        return {"a": v, "b": 0} if self.records else v


class MemoryGuard:
    """an endless group that is not instrumented (sequence($), $.repeat()) can only be stopped by the address space: an
    implementation that materialises it builds the tuple inside one C call, which no alarm interrupts.  While such a case
    is evaluated the address space of the process is capped at its size at the first such case + 1.5 GB (one fixed
    ceiling: memory the allocator keeps after a MemoryError must not raise it); the MemoryError is then an (unexpected)
    observation."""
    ceiling = None

    def __enter__(self):
        import resource
        self.res = resource
        self.old = resource.getrlimit(resource.RLIMIT_AS)
        try:
            if MemoryGuard.ceiling is None:
                MemoryGuard.ceiling = int(open("/proc/self/statm").read().split()[0]) * resource.getpagesize() + (3 << 29)
            cap = MemoryGuard.ceiling
            if self.old[1] != resource.RLIM_INFINITY:
                cap = min(cap, self.old[1])
            resource.setrlimit(resource.RLIMIT_AS, (cap, self.old[1]))
        except Exception:       # pragma: no cover - no /proc: unguarded
            self.old = None

    def __exit__(self, *a):
        if self.old is not None:
            self.res.setrlimit(self.res.RLIMIT_AS, self.old)
        return False


class NoGuard:
    def __enter__(self):
        pass

    def __exit__(self, *a):
        return False


class Both:
    """the instrumented source and the instrumented group iterator of a selectMany: pulls of the two together"""

    def __init__(self, main, grp):
        self.main, self.grp = main, grp

    @property
    def pulls(self):
        return self.main.pulls + self.grp.pulls


# how the source reaches the query: (root expression, iterator or re-iterable, where it is put, input conversion)
MODES = {
    "data-iter": ("$", "iter", "data", True),            # one-shot iterator as $ (default conversion)
    "data-feed": ("$", "feed", "data", True),            # re-iterable lazy object as $ (default conversion)
    "doc-iter": ("$.src", "iter", "doc", True),          # inside the data document
    "doc-feed": ("$.src", "feed", "doc", True),
    "var-iter": ("$feed", "iter", "var", True),          # context variable
    "var-feed": ("$feed", "feed", "var", True),
    "fn-iter": ("feed()", "iter", "fn", True),           # result of a registered host function
    "fn-feed": ("feed()", "feed", "fn", True),
    "raw-iter": ("$", "iter", "data", False),            # yaql.convertInputData = False
    "raw-feed": ("$", "feed", "data", False),
    "rawdoc-feed": ("$.src", "feed", "doc", False),
    # a lazy SEQUENCE, delivered unconverted (input conversion legitimately copies a Sequence into a yaql list)
    "var-seq": ("$feed", "seq", "var", True),
    "fn-seq": ("feed()", "seq", "fn", True),
    "raw-seq": ("$", "seq", "data", False),
    "rawdoc-seq": ("$.src", "seq", "doc", False),
}
MODE_NAMES = sorted(MODES)


# a pipeline may be written in SPLIT form: a prefix of the chain is bound by a binding form and the chain continues
# through the variable.  The delivery mode then reads "<mode>|<form>@<position>,<form>@<position>,..."; a binding
# form hands a lazy value on untouched, so values, pulls and lambda applications are those of the unsplit chain.
SPLIT_FORMS = ("let", "letp", "with", "def", "lam", "letkw2", "lamv")
DELEGATE_FORMS = ("lam", "lamv")        # lambda(..)(..) and $fn(..) need a context and an engine with delegates enabled


def split_mode(mode):
    """-> (delivery mode, ((form, position), ...))"""
    base, _, sp = mode.partition("|")
    splits = []
    for part in filter(None, sp.split(",")):
        f, _, j = part.partition("@")
        splits.append((f, int(j)))
    return base, tuple(sorted(splits, key=lambda x: x[1]))


def join_mode(base, splits):
    return base if not splits else base + "|" + ",".join("%s@%d" % s for s in splits)


def gen_splits(rng, nstages, terminal):
    top = nstages - (1 if terminal else 0)
    n = rng.choice([1, 1, 1, 2, 2, 3])
    return tuple(sorted(((rng.choice(SPLIT_FORMS), rng.randrange(0, top + 1)) for _ in range(n)), key=lambda x: x[1]))


def fix_mode(stages, mode):
    """assert / defaultIfEmpty look at the first element and hand the collection on: a RE-ITERABLE object that reaches
    them unconverted is legitimately traversed from the start a second time, so these two are fed one-shot iterators"""
    base, splits = split_mode(mode)
    if any(s[0] in ("assertAny", "defaultIfEmpty") for s in stages) and base in ("var-feed", "fn-feed", "raw-feed", "rawdoc-feed",
                                                                                 "var-seq", "fn-seq", "raw-seq", "rawdoc-seq"):
        base = base.replace("rawdoc-feed", "doc-iter").replace("rawdoc-seq", "doc-iter").replace("-feed", "-iter").replace("-seq", "-iter")
    if base.endswith("-seq") and any(s[0] == "insert" for s in stages):
        base = base.replace("-seq", "-feed")      # insert on a Sequence receiver is the (eager) LIST function, not the streaming one
    return join_mode(base, splits)


def text_of(stages, k, mode="data-iter", conv="camel"):
    base, splits = split_mode(mode)
    pr = sc.Probe(True)
    top = len(stages) - (1 if k is None and stages else 0)          # a final search stays attached to its receiver
    cuts = [(f, min(j, top)) for f, j in splits]
    segs, expr, pos = [], MODES[base][0], 0                          # segs: (form, bound expression)
    for n, (f, j) in enumerate(cuts):
        for sg in stages[pos:j]:
            expr = sc.stage_apply_text(expr, sg, pr)
        pos = j
        segs.append((f, expr, n + 1))
        expr = {"let": "$v%d" % (n + 1), "letkw2": "$v%d" % (n + 1), "letp": "$1", "with": "$1", "def": "$", "lam": "$", "lamv": "$"}[f]
    for sg in stages[pos:]:
        expr = sc.stage_apply_text(expr, sg, pr)
    t = expr if k is None else "%s.take(%d)" % (expr, k)
    for f, bound, n in reversed(segs):
        if f == "let":
            t = "let(v%d => %s) -> (%s)" % (n, bound, t)
        elif f == "letkw2":        # several bindings in one form, the lazy one among them
            t = "let(w%d => %d, v%d => %s) -> (%s)" % (n, n, n, bound, t)
        elif f == "letp":
            t = "let(%s) -> (%s)" % (bound, t)
        elif f == "with":
            t = "with(%s) -> (%s)" % (bound, t)
        elif f == "def":       # a def'd name goes through the context's naming convention like a decorator-given one
            t = "def(f%d, %s) -> %s%d(%s)" % (n, t, "F" if sc.base_conv(conv) == "custom" else "f", n, bound)
        elif f == "lam":       # the lazy value as the argument of an anonymous function
            t = "lambda(%s)(%s)" % (t, bound)
        else:                  # ... of one held in a variable
            t = "let(fn%d => lambda(%s)) -> $fn%d(%s)" % (n, t, n, bound)
    return sc.conv_text(t, conv)


def _run_once(k0, stages, k, mode, timeout, conv="camel"):
    root, shape, where, convert = MODES[split_mode(mode)[0]]
    recs = bool(stages) and stages[0][0] == "attr"      # member projection: the source yields records {a: n, b: 0}
    src = {"iter": Source, "feed": Feed, "seq": LazySeq}[shape](k0, recs)
    sc.TICKS.clear()
    text = text_of(stages, k, mode, conv)
    delegates = any(f in DELEGATE_FORMS for f, _ in split_mode(mode)[1])
    ctx = sc.context(conv + sc.DLG if delegates else conv).create_child_context()
    hosts = [s[1][1] for s in stages if s[0] == "selectManyG" and s[1][0].startswith("host")]
    if hosts:              # the lazy group of a selectMany: a SECOND instrumented host iterator, its pulls counted too
        src = Both(src, Source(hosts[0]))
        ctx["grp"] = src.grp
    data = None
    if where == "data":
        data = getattr(src, "main", src)
    elif where == "doc":
        data = {"src": getattr(src, "main", src), "other": [1, 2]}
    elif where == "var":
        ctx["feed"] = getattr(src, "main", src)
    else:
        main = getattr(src, "main", src)
        ctx.register_function(lambda: main, name="feed")
    # engines with a generous yaql.memoryQuota must consume exactly what engines without one do: sizing is pull-free
    quota = (k0 + len(text)) % 2 == 0
    free = any(s[0] == "selectManyG" and s[1] in (("seq",), ("repeat", None)) for s in stages)
    with (MemoryGuard() if free else NoGuard()):
        o = sc.evaluate(text, data, timeout=timeout, ctx=ctx, eng=sc.engine_opts(quota=quota, noconv=not convert, delegates=delegates))
    return o, src, text


def observe(k0, stages, k, mode="data-iter", conv=None):
    """-> (observation, pulls, ticks total, ticks per lambda, yaql text)"""
    if conv is None:           # the naming convention of the context rotates with the case (the model does not know it)
        conv = sc.CONVS[(len(stages) + (k or 0) + k0) % 3]
    patient = sc.WATCHDOG_HITS[0] < 3
    o, src, text = _run_once(k0, stages, k, mode, 30 if patient else 4, conv)
    if patient and o[0] == "err" and o[1] == "EOther" and o[2].startswith("watchdog") and src.pulls <= CAP:
        # no answer although the source was barely touched: machine load, not the pipeline - once more
        o, src, text = _run_once(k0, stages, k, mode, 60, conv)
        if o[0] == "err" and o[1] == "EOther" and o[2].startswith("watchdog"):
            sc.WATCHDOG_HITS[0] += 1
    ticks = dict(sc.TICKS)
    if (o[0] == "err" and ("PullCap" in o[2] or "watchdog" in o[2])) or src.pulls > CAP:
        return ("cap",), src.pulls, sum(ticks.values()), ticks, text
    return o, src.pulls, sum(ticks.values()), ticks, text


def kcase_term(k0, stages, k, o, pulls, ticks):
    ob = "OCap" if o[0] == "cap" else sc.obs_gal(o if o[0] != "err" else ("err", o[1]))
    return "{| k_start := %s; k_stages := %s; k_take := %s; k_vals := %s; k_pulls := %s; k_ticks := %s |}" % (
        gal.z(k0), gal.lst(sc.stage_gal(s) for s in stages), gal.opt(k, gal.nat), ob,
        gal.nat(min(pulls, 4000)), gal.nat(min(ticks, 4000)))


# ------------------------------------------------------------------------------------------
# generation
# ------------------------------------------------------------------------------------------
def grid(run):
    out = []
    ks = range(0, run.n(4, 6))
    P, F = ("modeq", 3, 0), ("add", 1)
    for k in ks:
        for n in range(-1, run.n(5, 7)):
            for sg in (("skip", n), ("take", n), ("insert", n, 9), ("insertMany", n, (8, 9)), ("delete", n, 2), ("delete", n, 0),
                       ("replace", n, 9, 2), ("replaceMany", n, (8, 9), 1), ("slice", n), ("enumerate", n)):
                out.append((0, [sg], k))
        for sg in (("where", P), ("where", ("gt", 2)), ("select", F), ("selectMany", ("pair",)), ("takeWhile", ("lt", 3)),
                   ("skipWhile", ("lt", 3)), ("append", (7, 8)), ("concat", ((7,), (8,))), ("distinct", None), ("distinct", ("mod", 3)),
                   ("zip", ((5, 6, 7),)), ("zip", ((), )), ("accumulate", ("add2",), sc.NOSEED), ("accumulate", ("add2",), 10),
                   ("memorize",), ("join", (1, 2), ("gt2",), ("add2",)), ("plus", (7,)), ("defaultIfEmpty", (7,)), ("assertAny",)):
            out.append((0, [sg], k))
    for k in ks:
        out.append((0, [("attr",)], k))
        out.append((1, [("attr",), ("where", P), ("select", F)], k))
    for t in (("first", sc.NOSEED), ("any", None), ("any", ("gt", 3)), ("all", ("lt", 3)), ("indexOf", 4), ("indexWhere", ("modeq", 4, 3)),
              ("contains", 5)):
        out.append((0, [t], None))
        out.append((-2, [("where", P), t], None))
        out.append((1, [("select", F), ("skip", 2), t], None))
    return out


def delivery_grid(run):
    """the same few pipelines through EVERY way a source can reach a query: the consumption must not depend on it"""
    P, F = ("modeq", 2, 0), ("mul", 10)
    pipes = [([("take", 3)], 3), ([("where", P), ("select", F)], 3), ([("skip", 2), ("enumerate", None)], 2),
             ([("takeWhile", ("lt", 4))], 6), ([("select", ("add", 1)), ("first", sc.NOSEED)], None),
             ([("indexWhere", ("gt", 6))], None), ([("any", ("eq", 3))], None),
             ([("distinct", None), ("skipWhile", ("lt", 2))], 2), ([("attr",), ("where", ("gt", 1))], 2),
             ([("memorize",), ("accumulate", ("add2",), sc.NOSEED)], 3), ([], 2)]
    out = []
    for mode in MODE_NAMES:
        for n, (stages, k) in enumerate(pipes):
            out.append((0, list(stages), k, mode))
            # ... and with the chain split by every binding form: at the source itself and after the first operator
            f = SPLIT_FORMS[(n + len(out)) % len(SPLIT_FORMS)]
            out.append((0, list(stages), k, join_mode(mode, ((f, 0),))))
            if len(stages) > 1 or (stages and k is not None):
                out.append((0, list(stages), k, join_mode(mode, ((SPLIT_FORMS[(n + 1) % len(SPLIT_FORMS)], 1),))))
    return out


# operators that hand on every element they receive (after an endless uninstrumented group nothing else is generated:
# a filter that never matches would spin without touching the instrumented source, which no pull cap can stop)
PASS_THROUGH = ("select", "enumerate", "skip", "take", "slice", "insert", "insertMany", "memorize", "accumulate", "zip",
                "selectMany", "append", "concat", "plus")


def gen_group(rng):
    r = rng.randrange(8)
    if r == 0:
        return ("seq",)
    if r == 1:
        return ("range",)
    if r == 2:
        return ("repeat", rng.choice([None, 0, 1, 2, 3]))
    if r in (3, 4):
        return ("host", rng.randrange(-3, 20))
    if r in (5, 6):
        return ("hostmap", rng.randrange(-3, 20), rng.choice([("mul", 2), ("add", 1), ("add", -3), ("mod", 3), ("id",)]))
    return ("hostfilter", rng.randrange(-3, 20), rng.choice([("modeq", 2, 0), ("modeq", 3, 1), ("gt", 4), ("lt", 50)]))


def lazy_grid():
    """selectMany with LAZY groups, alone and followed by operators that take a prefix of the flattened stream"""
    out = []
    groups = [("seq",), ("range",), ("repeat", None), ("repeat", 2), ("repeat", 0), ("host", 10), ("host", -2),
              ("hostmap", 10, ("mul", 2)), ("hostfilter", 5, ("modeq", 2, 0)), ("hostfilter", 0, ("gt", 3))]
    for g in groups:
        for k in (0, 1, 3, 5):
            out.append((3, [("selectManyG", g)], k))
            out.append((1, [("where", ("modeq", 2, 1)), ("selectManyG", g), ("select", ("add", 1))], k))
        out.append((2, [("selectManyG", g), ("skip", 2), ("takeWhile", ("lt", 30))], 2))
        out.append((2, [("selectManyG", g), ("first", sc.NOSEED)], None))
        out.append((4, [("selectManyG", g), ("indexWhere", ("gt", 2))], None))
    return out


def gen_case(rng):
    k0 = rng.randrange(-3, 4)
    stages, kind, shape, n = [], "iter", "int", 6
    if rng.random() < 0.1:
        stages.append(("attr",))
    lazy = rng.random() < 0.15          # one selectMany whose selector returns a LAZY group
    free = False                        # an endless group that is NOT instrumented went in: nothing may search it in vain
    for _ in range(rng.randrange(1, 5)):
        if lazy and shape == "int" and rng.random() < 0.5:
            g = gen_group(rng)
            stages.append(("selectManyG", g))
            lazy, free = False, g in (("seq",), ("repeat", None))
            continue
        sg, kind, shape, n = sc.gen_stage(rng, kind, shape, n, allow_terminal=False, streaming_only=True)
        if sc.memo_clash(stages, sg) or (free and sg[0] not in PASS_THROUGH):
            continue
        stages.append(sg)
    if free:
        return k0, stages, rng.randrange(0, 9)
    if rng.random() < 0.15:
        t = rng.choice(["first", "any", "all", "indexOf", "indexWhere", "contains"])
        if t == "first":
            stages.append(("first", sc.NOSEED))
        elif t in ("any", "all"):
            stages.append((t, sc.gen_lam(rng, shape, "pred")))
        elif t in ("indexOf", "contains"):
            stages.append((t, sc.gen_value(rng, shape if shape != "other" else "int")))
        else:
            stages.append((t, sc.gen_lam(rng, shape, "pred")))
        return k0, stages, None
    return k0, stages, rng.randrange(0, 9)


# ------------------------------------------------------------------------------------------
# the Python twin of `need` (closed forms over the list semantics of a long source prefix)
# ------------------------------------------------------------------------------------------
def py_apply(l, v):
    import props.c13 as c13
    return c13.py_apply(l, v)


def truthy(x):
    return bool(x)


def twin(stage, xs):
    """-> (outs, need, lam_count) where outs is the output list determined by the prefix xs, need(k) the number of
    elements of xs the first k outputs depend on (k <= len(outs)); None if the function has no closed form here"""
    k = stage[0]
    if k == "select":
        return [py_apply(stage[1], x) for x in xs], (lambda j: j), 1
    if k == "where":
        hits = [i for i, x in enumerate(xs) if truthy(py_apply(stage[1], x))]
        return [xs[i] for i in hits], (lambda j: 0 if j == 0 else hits[j - 1] + 1), 1
    if k == "skip" and stage[1] >= 0:
        return xs[stage[1]:], (lambda j, n=stage[1]: 0 if j == 0 else n + j), 0
    if k == "take" and stage[1] >= 0:
        return xs[:stage[1]], (lambda j: j), 0
    if k == "takeWhile":
        out = []
        for x in xs:
            if not truthy(py_apply(stage[1], x)):
                break
            out.append(x)
        return out, (lambda j: j), 1
    if k == "skipWhile":
        d = 0
        while d < len(xs) and truthy(py_apply(stage[1], xs[d])):
            d += 1
        return xs[d:], (lambda j, d=d: 0 if j == 0 else d + j), 1
    if k == "enumerate":
        s0 = 0 if stage[1] is None else stage[1]
        return [(s0 + i, x) for i, x in enumerate(xs)], (lambda j: j), 0
    if k in ("memorize", "attr"):
        return list(xs), (lambda j: j), 0
    if k in ("append", "concat", "plus"):
        return list(xs), (lambda j: j), 0          # the endless first part is never left
    if k == "distinct":
        seen, idx = [], []
        for i, x in enumerate(xs):
            key = x if stage[1] is None else py_apply(stage[1], x)
            if key not in seen:
                seen.append(key)
                idx.append(i)
        return [xs[i] for i in idx], (lambda j: 0 if j == 0 else idx[j - 1] + 1), (0 if stage[1] is None else 1)
    if k == "accumulate" and stage[1][0] == "add2":
        out, tot = [], None
        if stage[2] is not sc.NOSEED:
            tot = stage[2]
            out.append(tot)
        for x in xs:
            tot = x if tot is None else tot + x
            out.append(tot)
        seeded = stage[2] is not sc.NOSEED
        return out, (lambda j, s=seeded: max(0, j - 1) if s else j), 1
    if k == "delete" and stage[2] is not None and stage[2] >= 0:
        p, c = stage[1], stage[2]
        keep = [i for i in range(len(xs)) if not (p <= i < p + c)]
        return [xs[i] for i in keep], (lambda j: 0 if j == 0 else keep[j - 1] + 1), 0
    if k == "insert":
        p = stage[1]
        if p < 0:
            return list(xs), (lambda j: j), 0
        out = list(xs[:p]) + [stage[2]] + list(xs[p:]) if p < len(xs) else list(xs)
        return out, (lambda j, p=p: j if j <= p else (p + 1 if j == p + 1 else j - 1)), 0
    if k == "slice" and stage[1] > 0:
        n = stage[1]
        return [tuple(xs[i:i + n]) for i in range(0, len(xs) - n + 1, n)], (lambda j, n=n: n * j), 0
    return None


def need_of(k0, stages, k):
    """-> (need, [per-lambda-stage input demand]) or None when the pipeline has no closed form / ends early"""
    xs = [k0 + i for i in range(CAP)]
    layers = []
    for sg in stages:
        t = twin(sg, xs)
        if t is None:
            return None
        layers.append(t)
        xs = t[0]
    if k > len(xs) - 2:            # stay clear of what the inspected prefix does not determine
        return None
    demand, per = k, []
    for outs, need, nl in reversed(layers):
        demand = need(demand)
        per.append((nl, demand))
    return demand, list(reversed(per))


# ------------------------------------------------------------------------------------------
def load_corpus():
    path = os.path.join(HERE, "corpus", "C14.json")
    if not os.path.exists(path):
        return []
    return [(c["k0"], sc.stages_from_json(c["stages"]), c["k"], c.get("mode", "data-iter")) for c in json.load(open(path))]


def describe(k0, stages, k, o, pulls, ticks, text, mode="data-iter"):
    base, splits = split_mode(mode)
    root, shape, where, conv = MODES[base]
    return {"yaql": text, "split": "; ".join("%s after %d stage(s)" % s for s in splits) or "single dotted chain",
            "source": "instrumented endless %s %d, %d, ... handed over as %s (%s), yaql.convertInputData=%s" % (
                "one-shot iterator" if shape == "iter" else "lazy SEQUENCE (collections.abc.Sequence of 10**6 elements fetched by __getitem__)"
                if shape == "seq" else "RE-ITERABLE lazy object (no __next__; __iter__ starts a fresh generator)",
                k0, k0 + 1, root, {"data": "the query data", "doc": "a member of the data document", "var": "a context variable",
                                   "fn": "the result of a registered host function"}[where], conv),
            "mode": mode, "k0": k0,
            "stages": sc.stages_json(stages), "k": k, "observed": repr(o), "pulls": pulls, "ticks": ticks}


def model_of(run, k0, stages, k):
    try:
        return run.coq_eval(sc.HEADER, "eval_kcase %s" % kcase_term(k0, stages, k, ("val", ()), 0, 0))
    except Exception as e:      # pragma: no cover
        return "model evaluation failed: %r" % (e,)


# the streaming functions named by the property -> the stage kinds that exercise them
SCOPE = {"select": "select", "where": "where", "selectMany": "selectMany", "skip": "skip", "take": "take",
         "takeWhile": "takeWhile", "skipWhile": "skipWhile", "append": "append", "concat": "concat", "distinct": "distinct",
         "enumerate": "enumerate", "zip": "zip", "accumulate": "accumulate", "insert": "insert", "insertMany": "insertMany",
         "delete": "delete", "replace": "replace", "replaceMany": "replaceMany", "slice": "slice", "memorize": "memorize",
         "first": "first", "any": "any", "all": "all", "indexOf": "indexOf", "indexWhere": "indexWhere", "join": "join",
         "contains": "contains", "#operator_+": "plus", "defaultIfEmpty (memorizes its source)": "defaultIfEmpty",
         "assert (memorizes its source)": "assertAny", "#operator_. (member projection over a collection)": "attr",
         "limit": "take", "filter": "where", "map": "select",
         "selectMany (selector returning a lazy group)": "selectManyG", "let / with / def / lambda (binding a lazy value)": "select"}


def correspondence(run):
    sc.context()
    reg = sc.registered_names()
    unc = [n for n, k in SCOPE.items() if k is None]
    unc += ["%s (registered since the model was written)" % n for n in sorted(reg) if n not in sc.modelled_names() and n not in sc.KNOWN_UNMODELLED]
    run.cov["uncovered"] = unc
    print("[C14] streaming functions in scope: %d, exercised: %d, NOT modelled (reported as uncovered): %s" % (
        len(SCOPE), len([k for k in SCOPE.values() if k]), ", ".join(unc) or "-"), flush=True)
    todo = list(load_corpus()) + delivery_grid(run)
    for j, (k0, stages, k) in enumerate(grid(run)):
        mode = MODE_NAMES[j % len(MODE_NAMES)]
        todo.append((k0, stages, k, mode))
        if j % 3 == 0:          # the same case once more, the chain split by a binding form after each possible prefix
            top = len(stages) - (1 if k is None else 0)
            todo.append((k0, stages, k, join_mode(mode, ((SPLIT_FORMS[(j // 3) % len(SPLIT_FORMS)], (j // 3) % (top + 1)),))))
    for j, (k0, stages, k) in enumerate(lazy_grid()):
        mode = MODE_NAMES[j % len(MODE_NAMES)]
        todo.append((k0, stages, k, mode if j % 4 else join_mode(mode, ((SPLIT_FORMS[j % len(SPLIT_FORMS)], j % 2),))))
    for _ in range(run.n(2500, 40000)):
        k0, stages, k = gen_case(run.rng)
        mode = run.rng.choice(MODE_NAMES)
        if run.rng.random() < 0.4:
            mode = join_mode(mode, gen_splits(run.rng, len(stages), k is None))
        todo.append((k0, stages, k, mode))
    cases, meta = [], []
    nfixed = len(todo) - run.n(2500, 40000)
    for j, (k0, stages, k, mode) in enumerate(todo):
        mode = fix_mode(stages, mode)
        t0 = time.time()
        o, pulls, ticks, per, text = observe(k0, stages, k, mode)
        if time.time() - t0 > 5:
            run.note("slow case (%.0fs): %s [%s] -> %r" % (time.time() - t0, text, mode, o[:2]))
        if j >= nfixed and o[0] == "cap" and run.rng.random() < 0.8:
            run.count("dropped:most pipelines that never produce k results (cap) are not kept")
            continue
        run.case((k0, sc.stages_json(stages), k, mode), nontrivial=bool(stages) and (k is None or k > 0))
        run.count("delivery:" + split_mode(mode)[0])
        for f, _ in split_mode(mode)[1]:
            run.count("split:" + f)
        run.count("split forms in the chain:%d" % len(split_mode(mode)[1]))
        run.count("stages:%d" % len(stages))
        run.count("k:%s" % k)
        for s in stages:
            run.count("fn:" + s[0])
        run.count("result:" + (o[1] if o[0] == "err" else o[0]))
        run.count("pulls:%s" % ("0" if pulls == 0 else "1-5" if pulls <= 5 else "6-20" if pulls <= 20 else ">20"))
        if len(cases) % 397 == 0:
            run.sample({"yaql": text, "start": k0, "delivery": mode, "observed": repr(o), "pulls": pulls, "ticks": ticks})
        cases.append(kcase_term(k0, stages, k, o, pulls, ticks))
        meta.append((k0, stages, k, o, pulls, ticks, per, text, mode))
    run.meta = meta
    bad = run.coq_mismatches(sc.HEADER, "kcase", "kcase_ok", cases, shard=400)
    seen = set()
    for i in bad:
        k0, stages, k, o, pulls, ticks, per, text, mode = meta[i]
        fns = "/".join(s[0] for s in stages) + " [source delivered as %s]" % mode
        if fns in seen or len(seen) >= 6:
            continue
        seen.add(fns)
        k0, stages, k = shrink(run, k0, stages, k, mode)
        o, pulls, ticks, per, text = observe(k0, stages, k, mode)
        fns = "/".join(s[0] for s in stages) + " [source delivered as %s]" % mode
        d = describe(k0, stages, k, o, pulls, ticks, text, mode)
        d["model (state, result)"] = model_of(run, k0, stages, k)
        nd = need_of(k0, [s for s in stages], k) if k is not None else None
        d["need"] = None if nd is None else nd[0]
        d["requires"] = "first k results, pulls and lambda applications as Model/Streams.v computes them (pulls <= need + 1)"
        d["theorems"] = ["C14_bound", "C14_bound_partial", "C14_take_k", "C14_short_circuit"]
        what = "watchdog: the pipeline did not produce its first results within %d pulls of the endless source" % CAP if o[0] == "cap" else \
            "consumption of the source / lambda applications differ from the reference model"
        run.fail("violation", "%s: %s" % (fns, what), d)
    if len(bad) > len(seen):
        run.note("%d disagreeing cases in total" % len(bad))
    limit_block(run)


LIMIT_SOURCES = ["iter", "iter", "feed-var", "feed-raw", "feed-fn", "finite-var", "finite-raw", "finite-fn"]


def limit_observe(n, k0, stages, k, kind):
    """yaql.limitIterators = n; the source: the one-shot iterator as $, or a RE-ITERABLE object (only __iter__, a fresh
    generator per call; endless, or finite with FINITE elements) delivered unconverted: context variable / $ with
    convertInputData=false / host function result.  Pulls are summed over ALL iterators the source handed out."""
    shape, _, where = kind.partition("-")
    src = Source(k0) if shape == "iter" else Feed(k0, length=FINITE if shape == "finite" else None)
    sc.TICKS.clear()
    root = {"": "$", "var": "$feed", "raw": "$", "fn": "feed()"}[where]
    text = "%s.take(%d)" % (sc.pipeline_text(root, stages, probe=True), k)
    ctx = sc.context().create_child_context()
    if where == "var":
        ctx["feed"] = src
    elif where == "fn":
        ctx.register_function(lambda: src, name="feed")
    o = sc.evaluate(text, src if where in ("", "raw") else None, timeout=30, ctx=ctx,
                    eng=sc.engine_opts(limit=n, quota=(k0 + k) % 2 == 0, noconv=where == "raw"))     # the limit alone and with a quota
    return o, src, sum(sc.TICKS.values()), text


FINITE = 150


def lk_term(n, k0, stages, k, o, pulls, ticks):
    cap = o[0] == "err" and ("PullCap" in o[2] or "watchdog" in o[2])
    ob = "OCap" if cap else sc.obs_gal(o if o[0] != "err" else ("err", o[1]))
    return "{| lk_lim := %s; lk_start := %s; lk_stages := %s; lk_take := %s; lk_vals := %s; lk_pulls := %s; lk_ticks := %s |}" % (
        gal.nat(n), gal.z(k0), gal.lst(sc.stage_gal(x) for x in stages), gal.nat(k), ob, gal.nat(min(pulls, 4000)), gal.nat(min(ticks, 4000)))


def limit_block(run):
    """yaql.limitIterators = n over the instrumented endless source: the limiter is lazy (one pull per element, the
    (n+1)-th pulled and refused) - values, pulls and lambda applications against Model/Streams.v eval_case_lim; the source
    is a one-shot iterator or a re-iterable lazy object (endless / finite) that reaches the operators unconverted"""
    cases, meta = [], []
    for j in range(run.n(400, 5000)):
        n = run.rng.choice([2, 3, 4, 5, 6, 6, 40, 120])
        k0 = run.rng.randrange(-3, 4)
        stages = sc.gen_lim_stages(run.rng, min(n, 6), terminal=False)
        k = run.rng.randrange(0, min(n, 6) + 2)
        kind = LIMIT_SOURCES[j % len(LIMIT_SOURCES)]
        o, src, ticks, text = limit_observe(n, k0, stages, k, kind)
        if kind.startswith("finite") and src.ended and src.iters == 1:
            run.count("dropped:the finite source was legitimately read to its end in one pass (the model's source is endless)")
            continue
        run.case(("limit", n, k0, sc.stages_json(stages), k, kind), nontrivial=k > 0)
        run.count("limit:n=%d" % n)
        run.count("limit-source:" + kind)
        cap = o[0] == "err" and ("PullCap" in o[2] or "watchdog" in o[2])
        run.count("limit-result:" + ("cap" if cap else o[1] if o[0] == "err" else o[0]))
        cases.append(lk_term(n, k0, stages, k, o, src.pulls, ticks))
        meta.append((n, k0, stages, k, text, o, src.pulls, ticks, kind))
    bad = run.coq_mismatches(sc.HEADER, "lkcase", "lkcase_ok", cases, shard=400)
    for i in bad[:3]:
        n, k0, stages, k, text, o, pulls, ticks, kind = meta[i]
        run.fail("violation", "yaql.limitIterators=%d: %s [source: %s]: values / pulls / lambda applications differ from the reference model" % (
            n, "/".join(x[0] for x in stages), kind),
                 {"kind": "limit", "limit": n, "yaql": text, "k0": k0, "stages": sc.stages_json(stages), "k": k, "observed": repr(o),
                  "source": kind, "pulls": pulls, "ticks": ticks, "theorems": ["C14_limit"],
                  "requires": "the limiter passes elements through one for one and refuses the (n+1)-th; a re-iterable source is "
                              "opened once and read only as far as the results need (pulls summed over all its iterators)"})


def shrink(run, k0, stages, k, mode="data-iter"):
    for _ in range(3):
        cands = [(k0, stages[:j] + stages[j + 1:], k) for j in range(len(stages)) if len(stages) > 1
                 and not (j == 0 and stages[0][0] == "attr") and not (k is None and j == len(stages) - 1)]
        if k is not None and k > 1:
            cands += [(k0, stages, 1), (k0, stages, k - 1)]
        if not cands:
            break
        terms = []
        for c in cands:
            o, pulls, ticks, per, text = observe(c[0], c[1], c[2], mode)
            terms.append(kcase_term(c[0], c[1], c[2], o, pulls, ticks))
        try:
            bad = run.coq_mismatches(sc.HEADER, "kcase", "kcase_ok", terms, shard=400)
        except Exception:
            break
        if not bad:
            break
        k0, stages, k = cands[bad[0]]
    return k0, stages, k


def oracle(run, deep):
    """pulls <= need + 1, applications per lambda <= its operator's input demand + 1 (Python twin of `need`)"""
    meta = getattr(run, "meta", None) or []
    extra = []
    if deep:
        for _ in range(run.n(1500, 10000)):
            k0, stages, k = gen_case(run.rng)
            mode = run.rng.choice(MODE_NAMES)
            if run.rng.random() < 0.4:
                mode = join_mode(mode, gen_splits(run.rng, len(stages), k is None))
            mode = fix_mode(stages, mode)
            o, pulls, ticks, per, text = observe(k0, stages, k, mode)
            extra.append((k0, stages, k, o, pulls, ticks, per, text, mode))
    checked = 0
    for k0, stages, k, o, pulls, ticks, per, text, mode in list(meta) + extra:
        if o[0] == "err":
            continue            # an error was raised (and agreed with the model in C): the twin of `need` is about results
        if k is None:
            # searches: the deciding element, computed on the prefix
            nd = search_need(k0, stages)
            if nd is None:
                continue
            checked += 1
            run.count("oracle:search")
            if o[0] == "cap" or pulls != nd:
                d = describe(k0, stages, k, o, pulls, ticks, text, mode)
                d.update({"required": "the source is pulled exactly up to the deciding element: %d pulls" % nd})
                run.fail("violation", "%s: short-circuit search consumed %s elements instead of exactly %d" % (
                    stages[-1][0], "more than %d" % CAP if o[0] == "cap" else pulls, nd), d)
            continue
        nd = need_of(k0, stages, k)
        if nd is None:
            continue
        need, perl = nd
        checked += 1
        run.count("oracle:bound")
        if o[0] == "cap" or pulls > need + 1:
            d = describe(k0, stages, k, o, pulls, ticks, text, mode)
            d.update({"need": need, "required": "pulls <= need + 1 = %d" % (need + 1)})
            run.fail("violation", "%s: %s source elements consumed for the first %d results, need is %d" % (
                "/".join(s[0] for s in stages), "more than %d" % CAP if o[0] == "cap" else pulls, k, need), d)
            continue
        # lambdas are numbered in stage order by the probe
        lam_id = 0
        for (nl, dem), sg in zip(perl, stages):
            for _ in range(nl):
                lam_id += 1
                if per.get(lam_id, 0) > dem + 1:
                    d = describe(k0, stages, k, o, pulls, ticks, text, mode)
                    d.update({"lambda": lam_id, "applications": per.get(lam_id, 0), "required": "<= %d" % (dem + 1)})
                    run.fail("violation", "%s: lambda applied %d times, its operator consumed only %d elements" % (
                        sg[0], per.get(lam_id, 0), dem), d)
    run.note("oracle checked %d cases against the Python twin of need" % checked)


def search_need(k0, stages):
    xs = [k0 + i for i in range(CAP)]
    layers = []
    for sg in stages[:-1]:
        t = twin(sg, xs)
        if t is None:
            return None
        layers.append(t)
        xs = t[0]
    t = stages[-1]
    xs = xs[:-2]
    pos = None
    for i, x in enumerate(xs):
        if t[0] == "first" or (t[0] == "any" and t[1] is None):
            ok = True
        elif t[0] in ("any", "indexWhere"):
            ok = truthy(py_apply(t[1], x))
        elif t[0] == "all":
            ok = not (truthy(py_apply(t[1], x)) if t[1] is not None else truthy(x))
        elif t[0] in ("indexOf", "contains"):
            ok = (x == t[1])
        else:
            return None
        if ok:
            pos = i
            break
    if pos is None:
        return None
    demand = pos + 1
    for outs, need, nl in reversed(layers):
        demand = need(demand)
    return demand


def replay(run, data):
    d = data["data"]
    if d.get("kind") == "limit":
        n, k0, stages, k = d["limit"], d["k0"], sc.stages_from_json(d["stages"]), d["k"]
        sc.context()
        o, src, ticks, text = limit_observe(n, k0, stages, k, d.get("source", "iter"))
        return not run.coq_mismatches(sc.HEADER, "lkcase", "lkcase_ok", [lk_term(n, k0, stages, k, o, src.pulls, ticks)])
    k0, stages, k, mode = d["k0"], sc.stages_from_json(d["stages"]), d["k"], d.get("mode", "data-iter")
    sc.context()
    o, pulls, ticks, per, text = observe(k0, stages, k, mode)
    if run.coq_mismatches(sc.HEADER, "kcase", "kcase_ok", [kcase_term(k0, stages, k, o, pulls, ticks)]):
        return False
    run.meta = [(k0, stages, k, o, pulls, ticks, per, text, mode)]
    before = len(run.failures)
    oracle(run, False)
    return len(run.failures) == before
