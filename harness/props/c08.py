"""C08 - iterator limit and memory quota bound every evaluation.

P: Props/C08.v over Model/Limits.v and the regenerated Gen/LimitFacts.v
   (registry rows: what each parameter's live type accepts / whether its convert limits;
   sys.getsizeof constants of the running interpreter).
C: limiter, finaliser, quota, `*` and growth steps run on the real code (utils.limit_iterable,
   convert_output_data, limit_memory_usage, '#iter' / '#finalize', whole-engine evaluation with
   the options set) and compared with the model evaluated inside Coq: (outcome, yielded items,
   pulls), (finalised value, pulls), raised?, (raised, product computed?, product size).
O: (a) the property's predicates evaluated directly on larger random shapes; (b) the instrumented
   sweep: every registered function x every parameter that takes an iterator (and every lambda
   parameter, fed by a lambda that returns one) with an endless counting source under
   yaql.limitIterators = N, each call in a subprocess worker with a watchdog; (c) the committed
   corpus of expressions; (d) quota: repetition must refuse with peak traced memory far below the
   would-be allocation, growth chains must raise rather than hand on / return an over-quota value.
"""
import json
import os
import queue
import select
import subprocess
import sys
import threading
import time

import gal
import yaql
from yaql.language import exceptions, utils, yaqltypes

import c08_worker
import gen_limitfacts
from c08_worker import CountInt, PullCap, Src

GEN = ["limitfacts"]
RULE = ("limiter: N in [-1,12] x sources of length 0..N+3 (finite / endless) x 4 routes (utils.limit_iterable with an int, "
        "with an engine, yaqltypes.Iterable().convert, the '#iter' function); finaliser: values nested <= 3 deep over "
        "tuple/list/dict/set/frozen forms/one-shot iterators with widths N-1, N, N+1 at a random level, 3 routes "
        "(convert_output_data, '#finalize', whole engine with input conversion) x 4 option settings; quota: count/size "
        "lists with Q at every prefix sum +-1 and Q <= 0; `*`: 6 operand kinds x n 0..6 x count -2..9 and large x Q around "
        "operand size, estimate and product size; growth steps with Q around argument, joint and result sizes. "
        "non-trivial = the source/shape reaches the boundary (some width >= N) or Q lies within the sizes involved; "
        "distinct = distinct (kind, parameters)")
TRUSTED = ["Model/Limits.v is a hand transcription of utils.limit_iterable / limit_memory_usage / convert_output_data and of "
           "the two `*` payloads; tied by this correspondence",
           "instrumented sources count delivered items; CountInt (an int subclass) observes whether the product was computed",
           "sys.getsizeof obeys base + item*n for fresh tuple/list/str values (fitted and verified by gen_limitfacts.py on every run)",
           "the sweep calls each FunctionDefinition through ContextBase.__call__ with a function_filter selecting exactly it; "
           "other arguments come from a small typed corpus accepted by the live value_type.check"]
ASSUMPTIONS = ["quota = sys.getsizeof own size (shallow) as the property says; values handed in by the host and returned "
               "untouched are not created by the evaluation and are outside the quota statement",
               "a lazy parameter (lambda) is exercised with host callables, which the engine accepts wherever it accepts a yaql lambda"]
EXPLANATION = ("proofs for all N, Q, sources and shapes on the model + registry obligation over regenerated facts + "
               "differential check of the model against utils/yaqltypes/runner + endless-source sweep of the whole library")
LEVEL_NOTE = ("object-typed parameters (accept anything) are outside C08_typed_params_limited by construction; they are listed "
              "in the evidence and covered by the sweep only")
ALLOWED_AXIOMS = []

HEADER = "From YV Require Import Model.Limits Gen.LimitFacts."
CASE_TY = "case"
CASE_OK = "case_ok_with gen_sizeof"
HERE = os.path.dirname(os.path.abspath(__file__))
VERIF = os.path.dirname(os.path.dirname(HERE))
CAP = 3000          # in-process sources give up after this many pulls


# --------------------------------------------------------------------------
# engines / contexts (cached)
# --------------------------------------------------------------------------
_engines = {}
_base_ctx = []


def engine(**opts):
    key = tuple(sorted(opts.items()))
    if key not in _engines:
        if None not in _engines:          # one parser; YaqlEngine.copy gives an engine with other options
            _engines[None] = yaql.YaqlFactory().create()
        _engines[key] = _engines[None].copy({"yaql." + k: v for k, v in opts.items()})
    return _engines[key]


# the public ways of configuring the two limits: an engine made with the options (YaqlEngine.copy /
# YaqlFactory.create), and PER-EXPRESSION options `engine(text, options=...)` laid over a plain engine or
# over an engine whose own limits are laxer
OPT_ROUTES = ["copy", "per-expression", "per-expression-over-lax"]
LAX = {"yaql.limitIterators": 1000, "yaql.memoryQuota": 10 ** 8}
_bases = {}
_engine_of = {}


def _base(how):
    if how not in _bases:
        _bases[how] = yaql.YaqlFactory().create(options=dict(LAX) if how == "per-expression-over-lax" else {})
    return _bases[how]


def statement(expr, how="copy", **opts):
    if how == "copy" or not opts:
        return engine(**opts)(expr)
    return _base(how)(expr, options={"yaql." + k: v for k, v in opts.items()})


def engine_of(how="copy", **opts):
    """The engine object an evaluation configured that way really runs with."""
    if how == "copy" or not opts:
        return engine(**opts)
    key = (how, tuple(sorted(opts.items())))
    if key not in _engine_of:
        _engine_of[key] = getattr(statement("$", how, **opts), "engine", None) or engine(**opts)
    return _engine_of[key]


def how_of(i, stride=1):
    return OPT_ROUTES[(i // stride) % len(OPT_ROUTES)]


def fresh_ctx():
    if not _base_ctx:
        _base_ctx.append(yaql.create_context())
    return _base_ctx[0].create_child_context()


def res_term(outcome, payload):
    if outcome == "Ok":
        return "(Ok %s)" % payload
    return {"TooLarge": "TooLarge", "Diverges": "Diverges", "Unhashable": "Unhashable"}[outcome]


# --------------------------------------------------------------------------
# C1: the limiter
# --------------------------------------------------------------------------
LIMIT_ROUTES = ["int", "engine", "convert", "#iter"]


_combinators = []


def combinators():
    """[(label, smart type)] accepting a generator, built from yaqltypes by gen_limitfacts."""
    if not _combinators:
        eng, ctx = engine(), fresh_ctx()
        for label, vt in gen_limitfacts.combinator_instances():
            if vt.check((x for x in ()), ctx, eng):
                _combinators.append((label, vt))
    return _combinators


def run_limit(N, items, endless, route, how="copy", srckind="iterator"):
    obj, src = c08_worker.make_source(srckind, items, endless, CAP)
    eng = engine_of(how, limitIterators=N)
    ctx = fresh_ctx()
    out, got = "Ok", []
    try:
        if route.startswith("combinator:"):
            vt = dict(combinators())[route[len("combinator:"):]]
            w = vt.convert(obj, utils.NO_VALUE, ctx, None, eng)
        elif route == "int":
            w = utils.limit_iterable(obj, N)
        elif route == "engine":
            w = utils.limit_iterable(obj, eng)
        elif route == "convert":
            w = yaqltypes.Iterable().convert(obj, utils.NO_VALUE, ctx, None, eng)
        else:
            w = ctx("#iter", eng)(obj)
        for x in w:
            got.append(x)
    except exceptions.CollectionTooLargeException:
        out = "TooLarge"
    except PullCap:
        out = "Diverges"
    return out, got, src.pulls


def limit_predicate(N, items, endless, out, got, pulls):
    """The property's own statement, evaluated directly. -> None or text."""
    if N < 0:
        if endless:
            return None
        return None if (out == "Ok" and got == list(items)) else "negative limit is not the identity"
    if pulls > N + 1:
        return "pulled %d items from the source, allowed %d" % (pulls, N + 1)
    more = endless or len(items) > N
    if more and out != "TooLarge":
        return "source has more than %d items but no CollectionTooLargeException (%s)" % (N, out)
    if not more and (out != "Ok" or got != list(items)):
        return "source with <= %d items was not passed through unchanged (%s)" % (N, out)
    return None


def gen_limit_cases(run, n):
    cases = []
    for N in range(-1, 13):                      # the boundary grid, every N
        for L in sorted({0, max(N - 1, 0), max(N, 0), N + 1, N + 2}):
            cases.append((N, list(range(100, 100 + L)), False))
        if N >= 0:
            cases.append((N, [], True))
            cases.append((N, list(range(50, 50 + max(N - 1, 0))), True))
    while len(cases) < n:
        N = run.rng.randrange(-1, 13)
        L = run.rng.choice([0, 1, max(N - 1, 0), max(N, 0), N + 1, N + 2, N + 3, run.rng.randrange(0, 16)])
        endless = N >= 0 and run.rng.random() < 0.3
        cases.append((N, [run.rng.randrange(-50, 50) for _ in range(L)], endless))
    return cases


def c_limit(run, n, terms, meta):
    for i, (N, items, endless) in enumerate(gen_limit_cases(run, n)):
        route = LIMIT_ROUTES[i % 4]
        if i % 8 >= 4:               # the same protocol through a parameter type declared with a combinator
            combs = combinators()
            route = "combinator:" + combs[(i // 8) % len(combs)][0]
        how = how_of(i, 4)
        srckind = c08_worker.SOURCE_KINDS[(i // 2) % 3]      # every lazy shape a host can supply
        if route.startswith("combinator:") and srckind == "reiterable" and \
                not dict(combinators())[route[len("combinator:"):]].check(c08_worker.ReIter(), fresh_ctx(), engine()):
            srckind = "iterator"                             # e.g. Chain(Iterable(), Iterator()) takes iterators only
        out, got, pulls = run_limit(N, items, endless, route, how, srckind)
        run.count("limit-source:%s" % srckind)
        run.case(("limit", N, tuple(items), endless, route, how, srckind), nontrivial=endless or len(items) >= N)
        run.count("limit:%s" % out)
        run.count("limit-route:%s" % route.split(":")[0])
        run.count("options-route:%s" % how)
        if i % 41 == 0:
            run.sample({"kind": "limit", "N": N, "items": items, "endless": endless, "route": route,
                        "outcome": out, "yielded": got, "pulls": pulls})
        terms.append("CLimit %s %s %s %s %s" % (gal.z(N), gal.zlist(items), gal.boolean(endless),
                                               res_term(out, gal.zlist(got)), gal.nat(min(pulls, 4000))))
        meta.append(("limit", {"N": N, "items": items, "endless": endless, "route": route, "options_route": how,
                               "source": srckind},
                     {"outcome": out, "yielded": got, "pulls": pulls},
                     limit_predicate(N, items, endless, out, got, pulls)))


def run_prefix(N, items, endless, k, route, how="copy"):
    """k calls of next() on the limited source, then the consumer walks away."""
    src = Src(items, endless, cap=CAP)
    eng = engine_of(how, limitIterators=N)
    ctx = fresh_ctx()
    got, ending = [], 0
    try:
        if route == "int":
            w = utils.limit_iterable(src, N)
        elif route == "engine":
            w = utils.limit_iterable(src, eng)
        elif route == "convert":
            w = yaqltypes.Iterable().convert(src, utils.NO_VALUE, ctx, None, eng)
        else:
            w = ctx("#iter", eng)(src)
        it = iter(w)
        for _ in range(k):
            got.append(next(it))
    except StopIteration:
        ending = 1
    except exceptions.CollectionTooLargeException:
        ending = 2
    return got, ending, src.pulls


def prefix_predicate(N, items, endless, k, got, ending, pulls):
    if N < 0:
        return "CollectionTooLargeException with a negative limit" if ending == 2 else None
    if pulls > min(k, N + 1):
        return "asked for %d items under limit %d: %d items pulled from the source, allowed %d" % (k, N, pulls, min(k, N + 1))
    more = endless or len(items) > N
    if (ending == 2) != (k > N and more):
        return "asked for %d items under limit %d, source %s more than %d items: raised=%s" % (
            k, N, "has" if more else "does not have", N, ending == 2)
    if got != (list(items) + list(range(len(items), len(items) + k)))[:len(got)] or len(got) > min(k, N):
        return "the consumer received items that are not the first items of the source"
    return None


def c_prefix(run, n, terms, meta):
    for i in range(n):
        N = run.rng.randrange(-1, 13)
        L = run.rng.choice([0, 1, max(N - 1, 0), max(N, 0), N + 1, N + 2, run.rng.randrange(0, 16)])
        endless = run.rng.random() < 0.35
        k = run.rng.choice([0, 1, 2, max(N - 1, 0), max(N, 0), N + 1, N + 2, N + 4, L, L + 1])
        items = [run.rng.randrange(-50, 50) for _ in range(L)]
        route, how = LIMIT_ROUTES[i % 4], how_of(i, 4)
        got, ending, pulls = run_prefix(N, items, endless, k, route, how)
        run.case(("prefix", N, tuple(items), endless, k, route, how), nontrivial=k >= N or L >= N)
        run.count("prefix:%s" % ["asked", "ended", "raised"][ending])
        if i % 53 == 0:
            run.sample({"kind": "prefix", "N": N, "items": items, "endless": endless, "asked": k, "got": got,
                        "ending": ["asked", "ended", "raised"][ending], "pulls": pulls})
        terms.append("CPrefix %s %s %s %s %s %s %s" % (gal.z(N), gal.zlist(items), gal.boolean(endless), gal.nat(k),
                                                     gal.zlist(got), gal.z(ending), gal.nat(min(pulls, 4000))))
        meta.append(("prefix", {"N": N, "items": items, "endless": endless, "k": k, "route": route, "options_route": how},
                     {"got": got, "ending": ending, "pulls": pulls},
                     prefix_predicate(N, items, endless, k, got, ending, pulls)))


SIZED_MAKERS = [("tuple", tuple), ("list", list), ("set", set), ("frozenset", frozenset),
                ("dict", lambda l: {x: x for x in l}), ("FrozenDict", lambda l: utils.FrozenDict((x, x) for x in l)),
                ("items-view", lambda l: {x: x for x in l}.items()), ("range", lambda l: range(len(l))),
                ("deque", lambda l: __import__("collections").deque(l)), ("keys-view", lambda l: {x: x for x in l}.keys())]


def c_sized(run, n, terms, meta):
    k = 0
    for N in range(-1, 13):
        for L in sorted({0, max(N - 1, 0), max(N, 0), N + 1, N + 2, 15}):
            name, mk = SIZED_MAKERS[k % len(SIZED_MAKERS)]
            k += 1
            obj = mk(list(range(L)))
            raised, same = False, True
            try:
                r = utils.limit_iterable(obj, N if k % 2 else engine(limitIterators=N))
                same = r is obj
            except exceptions.CollectionTooLargeException:
                raised = True
            run.case(("sized", N, L, name), nontrivial=L >= N)
            run.count("sized:%s" % ("raise" if raised else "pass"))
            pred = None
            if raised != (0 <= N < L):
                pred = "sized %s of %d items under limit %d: raised=%s" % (name, L, N, raised)
            elif not raised and not same:
                pred = "sized collection not returned unchanged"
            terms.append("CSized %s %s %s" % (gal.z(N), gal.zlist(range(L)), gal.boolean(raised)))
            meta.append(("sized", {"N": N, "len": L, "type": name}, {"raised": raised, "same_object": same}, pred))


# --------------------------------------------------------------------------
# C2: the finaliser
# --------------------------------------------------------------------------
def gen_key(rng, N, wide, host):
    """A dictionary key that is itself a collection or a lazy sequence (yaql values are immutable, hence
    hashable): tuple (possibly nested), frozenset, FrozenDict, one-shot iterator."""
    if wide and N >= 0:
        w = rng.choice([max(N - 1, 0), N, N + 1, N + 1])
    else:
        w = rng.choice([0, 1, 2, 2, 3])
    kind = rng.choice(["tuple", "tuple", "tuple", "iter", "dict"] if host else ["tuple", "tuple", "tuple", "set", "dict", "iter"])
    if kind == "tuple":
        items = [("int", rng.randrange(0, 50)) for _ in range(w)]
        if items and rng.random() < 0.3:
            items[rng.randrange(len(items))] = ("tuple", [("int", rng.randrange(0, 9)) for _ in range(rng.choice([0, 1, 2, max(N, 0) + 1]))])
        return ("tuple", items)
    if kind == "set":
        return ("set", rng.sample(range(0, 31), min(w, 30)), True)
    if kind == "dict":
        return ("dict", [(("int", k), ("int", k)) for k in rng.sample(range(0, 40), min(w, 39))], True)
    return ("iter", [("int", rng.randrange(0, 50)) for _ in range(w)], N >= 0 and rng.random() < 0.3)


def gen_shape(rng, N, depth, wide_level, level=0, host=False, ckeys=True):
    """spec: ('null',) ('int', z) ('str', s) ('tuple', [..]) ('list', [..]) ('dict', [(k, v)..], frozen)
             ('set', [ints], frozen) ('iter', [..], endless)"""
    if depth == 0 or rng.random() < 0.25:
        r = rng.random()
        if r < 0.1:
            return ("null",)
        if r < 0.7:
            return ("int", rng.randrange(-9, 100))
        return ("str", rng.choice(["", "a", "ab", "éx"]))
    if level == wide_level and N >= 0:
        w = rng.choice([max(N - 1, 0), N, N, N + 1, N + 1])
    else:
        w = rng.choice([0, 1, 1, 2, 2, 3])
        if N >= 0 and rng.random() < 0.05:
            w = N + 1
    kind = rng.choice(["tuple", "list", "dict", "set", "iter", "iter", "tuple"])
    if kind == "set":
        return ("set", rng.sample(range(0, 31), min(w, 30)), rng.random() < 0.5)
    if kind == "dict":
        keys = rng.sample(range(0, 40), min(w, 39))
        keys = [k if rng.random() < 0.7 else "k%d" % k for k in keys]
        kspecs = [("int", k) if isinstance(k, int) else ("str", k) for k in keys]
        if ckeys and rng.random() < 0.45:
            seen = set()
            for j in range(len(kspecs)):
                if rng.random() < 0.5:
                    ks = gen_key(rng, N, rng.random() < 0.4 or level + 1 == wide_level, host)
                    sig = repr(sorted(ks[1])) if ks[0] == "set" else repr(ks)
                    if ks[0] != "iter" and sig in seen:
                        continue
                    seen.add(sig)
                    kspecs[j] = ks
        return ("dict", [(ks, gen_shape(rng, N, depth - 1, wide_level, level + 1, host, ckeys)) for ks in kspecs],
                rng.random() < 0.5)
    items = [gen_shape(rng, N, depth - 1, wide_level, level + 1, host, ckeys) for _ in range(w)]
    if kind == "iter":
        return ("iter", items, N >= 0 and rng.random() < 0.2)
    return (kind, items)


def build(spec, srcs, host=False):
    """host=True: the value is handed in as host data (convert_input_data turns a frozenset
    into a lazy map, so only mutable sets are used there)."""
    t = spec[0]
    if t == "null":
        return None
    if t in ("int", "str"):
        return spec[1]
    if t == "tuple":
        return tuple(build(x, srcs, host) for x in spec[1])
    if t == "list":
        return [build(x, srcs, host) for x in spec[1]]
    if t == "dict":
        d = {build(k, srcs, host): build(v, srcs, host) for k, v in spec[1]}
        return utils.FrozenDict(d) if spec[2] else d
    if t == "set":
        return frozenset(spec[1]) if (spec[2] and not host) else set(spec[1])
    if t == "iter":
        s = Src([build(x, srcs, host) for x in spec[1]], spec[2], cap=CAP)
        srcs.append(s)
        return s
    raise ValueError(spec)


def spec_term(spec, lists_as_tuples=False):
    t = spec[0]
    if t == "null":
        return "VNull"
    if t == "int":
        return "(VInt %s)" % gal.z(spec[1])
    if t == "str":
        return "(VStr %s)" % gal.s(spec[1])
    if t in ("tuple", "list"):
        c = "VTuple" if (t == "tuple" or lists_as_tuples) else "VList"
        return "(%s %s)" % (c, gal.lst(spec_term(x, lists_as_tuples) for x in spec[1]))
    if t == "dict":
        return "(VDict %s)" % gal.lst(gal.pair(spec_term(k), spec_term(v, lists_as_tuples)) for k, v in spec[1])
    if t == "set":      # printed in the iteration order of the very set the implementation walks
        if lists_as_tuples:      # host data: convert_input_data rebuilds a mutable set as a frozenset
            order = list(frozenset(t for t in set(spec[1])))
        else:
            order = list(frozenset(spec[1])) if spec[2] else list(set(spec[1]))
        return "(VSet %s)" % gal.lst("(VInt %s)" % gal.z(x) for x in order)
    if t == "iter":
        return "(VIter %s %s)" % (gal.lst(spec_term(x, lists_as_tuples) for x in spec[1]), gal.boolean(spec[2]))
    raise ValueError(spec)


class Unprintable(Exception):
    pass


def value_term(v):
    if v is None:
        return "VNull"
    if isinstance(v, bool):
        raise Unprintable(v)
    if isinstance(v, int):
        return "(VInt %s)" % gal.z(v)
    if isinstance(v, str):
        return "(VStr %s)" % gal.s(v)
    if isinstance(v, list):
        return "(VList %s)" % gal.lst(value_term(x) for x in v)
    if isinstance(v, tuple):
        return "(VTuple %s)" % gal.lst(value_term(x) for x in v)
    if isinstance(v, dict):
        return "(VDict %s)" % gal.lst(gal.pair(value_term(k), value_term(x)) for k, x in v.items())
    if isinstance(v, (set, frozenset)):
        return "(VSet %s)" % gal.lst(value_term(x) for x in sorted(v))
    raise Unprintable(v)


def shape_nodes(spec):
    yield spec
    t = spec[0]
    if t in ("tuple", "list", "iter"):
        for x in spec[1]:
            yield from shape_nodes(x)
    elif t == "dict":
        for k, v in spec[1]:
            yield from shape_nodes(k)          # keys are nodes of the value like any other
            yield from shape_nodes(v)


def conv_hashable(spec, t2l):
    """Is the FINALISED form of this key still hashable?  (tuple -> list, frozenset -> set / list,
    FrozenDict -> dict, iterator -> list are not: known finding F8 of C10)"""
    if spec[0] in ("null", "int", "str"):
        return True
    if spec[0] == "tuple":
        return (not t2l) and all(conv_hashable(x, t2l) for x in spec[1])
    return False


def spec_unhashable_key(spec, t2l):
    return any(nd[0] == "dict" and any(not conv_hashable(k, t2l) for k, _ in nd[1]) for nd in shape_nodes(spec))


def spec_too_wide(spec, N):
    if N < 0:
        return False
    for nd in shape_nodes(spec):
        if nd[0] in ("tuple", "list", "dict", "set", "iter") and (len(nd[1]) > N or (nd[0] == "iter" and nd[2])):
            return True
    return False


def value_widths_ok(v, N):
    if isinstance(v, (list, tuple, set, frozenset)):
        return len(v) <= N and all(value_widths_ok(x, N) for x in v)
    if isinstance(v, dict):
        return len(v) <= N and all(value_widths_ok(k, N) and value_widths_ok(x, N) for k, x in v.items())
    return v is None or isinstance(v, (int, str, float))


FINAL_ROUTES = ["convert_output_data", "#finalize", "engine"]


def run_final(N, t2l, s2l, spec, route, how="copy"):
    srcs = []
    obj = build(spec, srcs, host=(route == "engine"))
    opts = dict(limitIterators=N, convertTuplesToLists=t2l, convertSetsToLists=s2l)
    eng = engine_of(how, **opts)
    out, val = "Ok", None
    try:
        if route == "convert_output_data":
            val = utils.convert_output_data(obj, lambda it: utils.limit_iterable(it, N), eng)
        elif route == "#finalize":
            val = fresh_ctx()("#finalize", eng)(obj)
        else:
            val = statement("$", how, **opts).evaluate(data=obj, context=fresh_ctx())
    except exceptions.CollectionTooLargeException:
        out = "TooLarge"
    except PullCap:
        out = "Diverges"
    except TypeError:
        out = "Unhashable"
    return out, val, sum(s.pulls for s in srcs), max([s.pulls for s in srcs] or [0])


def final_predicate(N, spec, out, val, maxpulls, t2l=True):
    if N < 0:
        return None
    if maxpulls > N + 1:
        return "a source inside the result was pulled %d times, allowed %d" % (maxpulls, N + 1)
    wide = spec_too_wide(spec, N)
    unhashable = spec_unhashable_key(spec, t2l)
    if out == "Ok" and not value_widths_ok(val, N):
        return "finalised result contains a collection with more than %d elements or a non-plain value (dictionary keys included)" % N
    if wide and not (out == "TooLarge" or (unhashable and out == "Unhashable")):
        return "a collection with more than %d elements inside the value (dictionary keys included) did not raise (%s)" % (N, out)
    if not wide and not (out == "Ok" or (unhashable and out == "Unhashable")):
        return "no collection exceeds %d elements but finalisation gave %s" % (N, out)
    return None


def c_final(run, n, terms, meta, corpus):
    shapes = [(c["N"], c["t2l"], c["s2l"], totuple(c["spec"]), c["route"]) for c in corpus if c.get("kind") == "final"]
    i = 0
    while len(shapes) < n:
        N = run.rng.randrange(-1, 13) if i % 3 else run.rng.choice([0, 1, 2, 3])
        depth = run.rng.choice([1, 2, 3, 3])
        route = FINAL_ROUTES[i % 3]
        spec = gen_shape(run.rng, N, depth, run.rng.randrange(0, depth), host=(route == "engine"))
        if spec[0] in ("null", "int", "str") and run.rng.random() < 0.8:
            continue
        shapes.append((N, run.rng.random() < 0.5, run.rng.random() < 0.5, spec, route))
        i += 1
    for i, (N, t2l, s2l, spec, route) in enumerate(shapes):
        if N < 0 and any(nd[0] == "iter" and nd[2] for nd in shape_nodes(spec)):
            continue
        how = how_of(i, 3)
        out, val, pulls, maxpulls = run_final(N, t2l, s2l, spec, route, how)
        try:
            vt = value_term(val) if out == "Ok" else None
        except Unprintable:
            run.cov["skipped"] += 1
            continue
        nodes = list(shape_nodes(spec))
        run.case(("final", N, t2l, s2l, repr(spec), route),
                 nontrivial=any(nd[0] in ("tuple", "list", "dict", "set", "iter") and len(nd[1]) >= N for nd in nodes))
        run.count("final:%s" % out)
        run.count("final-route:%s" % route)
        run.count("options-route:%s" % how)
        if any(nd[0] == "dict" and any(k[0] not in ("int", "str") for k, _ in nd[1]) for nd in nodes):
            run.count("final:with-collection-or-iterator-keys")
        if i % 67 == 0:
            run.sample({"kind": "final", "N": N, "spec": spec, "route": route, "outcome": out, "pulls": pulls})
        terms.append("CFinal %s {| tuples_to_lists := %s; sets_to_lists := %s |} %s %s %s" % (
            gal.z(N), gal.boolean(t2l), gal.boolean(s2l), spec_term(spec, lists_as_tuples=(route == "engine")),
            res_term(out, vt), gal.nat(min(pulls, 4000))))
        meta.append(("final", {"N": N, "t2l": t2l, "s2l": s2l, "spec": spec, "route": route, "options_route": how},
                     {"outcome": out, "value": repr(val)[:300], "pulls": pulls},
                     final_predicate(N, spec, out, val, maxpulls, t2l)))


def totuple(x):
    if isinstance(x, list):
        if x and isinstance(x[0], str) and x[0] in ("null", "int", "str", "tuple", "list", "dict", "set", "iter"):
            t = x[0]
            if t in ("tuple", "list"):
                return (t, [totuple(y) for y in x[1]])
            if t == "iter":
                return (t, [totuple(y) for y in x[1]], x[2])
            if t == "dict":
                return (t, [(totuple(k), totuple(v)) for k, v in x[1]], x[2])
            if t == "set":
                return (t, list(x[1]), x[2])
            return tuple(x)
    return x


# --------------------------------------------------------------------------
# C3: limit_memory_usage
# --------------------------------------------------------------------------
def sample_pool():
    grown = []
    for i in range(9):
        grown.append(i)
    return ["", "a", "abc" * 5, "é" * 4, "Δ" * 3, (), (1,), tuple(range(7)), [], [1, 2], grown,
            {}, {"a": 1}, set(), frozenset([1, 2, 3]), None, 7, 2 ** 70, 1.5, utils.FrozenDict({1: 2})]


def c_quota(run, n, terms, meta):
    pool = sample_pool()
    for i in range(n):
        k = run.rng.choice([1, 1, 2, 2, 3, 4])
        args = [(run.rng.choice([1, 1, 1, 2, 3, 0, -1, -3, 6]), run.rng.choice(pool)) for _ in range(k)]
        sized = [(c, sys.getsizeof(o, 0)) for c, o in args]
        sums, t = [], 0
        for c, s in sized:
            t += c * s
            sums.append(t)
        Q = run.rng.choice(sums) + run.rng.choice([-1, 0, 0, 1]) if run.rng.random() < 0.8 else run.rng.choice([0, -1, -100, 1, 10 ** 6])
        raised = False
        try:
            if i % 2:
                utils.limit_memory_usage(Q, *args)
            else:
                utils.limit_memory_usage(engine(memoryQuota=Q), *args)
        except exceptions.MemoryQuotaExceededException:
            raised = True
        expect = Q > 0 and any(s > Q for s in sums)
        run.case(("quota", Q, tuple(sized)), nontrivial=Q > 0 and min(sums) - 2 <= Q <= max(sums) + 2)
        run.count("quota:%s" % ("raise" if raised else "pass"))
        if i % 97 == 0:
            run.sample({"kind": "quota", "Q": Q, "args": sized, "raised": raised})
        terms.append("CQuota %s %s %s" % (gal.z(Q), gal.lst(gal.pair(gal.z(c), gal.z(s)) for c, s in sized), gal.boolean(raised)))
        meta.append(("quota", {"Q": Q, "args": sized}, {"raised": raised},
                     None if raised == expect else "limit_memory_usage(%d, %r): raised=%s, some prefix sum exceeds the quota: %s" % (Q, sized, raised, expect)))


# --------------------------------------------------------------------------
# C4: `*` through the engine
# --------------------------------------------------------------------------
KIND_CP = {"KAscii": 97, "KLatin1": 0xE9, "KUcs2": 0x394, "KUcs4": 0x1F600}


def make_operand(kind, n, grown):
    if kind == "KTuple":
        return tuple(range(n))
    if kind == "KList":
        if grown:
            l = []
            for i in range(n):
                l.append(i)
            return l
        return list(range(n))
    if n == 0:
        return ""
    return chr(KIND_CP[kind]) * (n - 1) + ("a" if grown and n > 1 else chr(KIND_CP[kind]))


def run_mul(Q, left, c, swap, how="copy"):
    ctx = fresh_ctx()
    cnt = CountInt(c)
    ctx["a"], ctx["b"] = left, cnt
    del CountInt.log[:]
    raised, other = False, None
    try:                                                     # the evaluation of `*` alone, not the finaliser
        statement("$b * $a" if swap else "$a * $b", how, memoryQuota=Q, convertOutputData=False).evaluate(context=ctx)
    except exceptions.MemoryQuotaExceededException:
        raised = True
    except Exception as e:         # any other class is outside the model: reported
        other = type(e).__name__
    computed = bool(CountInt.log)
    size = CountInt.log[-1] if computed else 0
    return raised, computed, size, sys.getsizeof(cnt, 0), other


def mul_predicate(Q, left, c, raised, computed, size):
    if Q <= 0:
        return None
    would = sys.getsizeof(left * max(c, 0), 0) if len(left) * max(c, 0) < 10 ** 7 else None
    if computed and size > Q:
        return "the product (%d bytes) was computed although it exceeds the quota %d: the estimate did not refuse first" % (size, Q)
    if would is not None and would > Q and not raised:
        return "a product of %d bytes was returned under quota %d" % (would, Q)
    return None


def c_mul(run, n, terms, meta, corpus):
    fixed = [(c["Q"], c["k"], c["n"], c["c"]) for c in corpus if c.get("kind") == "mul"]
    base, item = gen_limitfacts.sizeof_constants(), None
    for i in range(n + len(fixed)):
        if i < len(fixed):
            Q, kind, nn, c = fixed[i]
            grown, swap = False, False
        else:
            kind = run.rng.choice(["KTuple", "KTuple", "KList", "KList", "KAscii", "KLatin1", "KUcs2", "KUcs4"])
            nn = run.rng.choice([0, 1, 2, 2, 3, 4, 6, 11])
            c = run.rng.choice([-2, -1, 0, 1, 2, 3, 5, 9, 9, run.rng.randrange(10, 400), run.rng.choice([5000, 100000])])
            grown, swap = run.rng.random() < 0.3, run.rng.random() < 0.3
        left = make_operand(kind, nn, grown)
        if kind not in ("KTuple", "KList"):
            kind = gen_limitfacts.str_kind(left)
        sz = sys.getsizeof(left, 0)
        b, it = base[kind]
        ek = kind if kind in ("KTuple", "KList") else "KAscii"
        product = (b + it * nn * c) if (c > 0 and nn > 0) else base[ek][0]
        est = (1 - c) * base[ek][0] + c * sz
        if i >= len(fixed):
            r = run.rng.random()
            if r < 0.75:
                Q = run.rng.choice([product, est, sz, (1 - c) * base[ek][0], 60]) + run.rng.choice([-9, -1, 0, 0, 1, 8])
            elif r < 0.85:
                Q = run.rng.choice([0, -1, -50])
            else:
                Q = run.rng.choice([100, 1000, 10 ** 6])
        how = how_of(i)
        raised, computed, size, csize, other = run_mul(Q, left, c, swap, how)
        run.count("options-route:%s" % how)
        run.case(("mul", Q, kind, nn, sz, c, how), nontrivial=Q > 0 and min(sz, product) - 10 <= Q <= max(est, product, sz) + 10)
        run.count("mul:%s%s" % ("raise" if raised else "ok", "+computed" if computed else ""))
        run.count("mul-kind:%s" % kind)
        if i % 83 == 0:
            run.sample({"kind": "mul", "Q": Q, "operand": kind, "n": nn, "own_size": sz, "count": c,
                        "raised": raised, "product_computed": computed, "product_size": size})
        data = {"Q": Q, "k": kind, "n": nn, "own_size": sz, "c": c, "swap": swap, "grown": grown, "options_route": how}
        obs = {"raised": raised, "product_computed": computed, "product_size": size}
        if other:
            meta.append(("mul", data, dict(obs, exception=other), "`x * c` raised %s" % other))
            terms.append("CQuota 1%Z [] true")       # placeholder that the model refutes: reported through meta
            continue
        terms.append("CMul %s %s %s %s %s %s (%s, %s, %s)" % (
            gal.z(Q), kind, gal.z(nn), gal.z(sz), gal.z(c), gal.z(csize),
            gal.boolean(raised), gal.boolean(computed), gal.z(size)))
        meta.append(("mul", data, obs, mul_predicate(Q, left, c, raised, computed, size)))


# --------------------------------------------------------------------------
# C5: growth steps through the engine (argument checks, joint check, result check)
# --------------------------------------------------------------------------
def c_call(run, n, terms, meta):
    for i in range(n):
        form = run.rng.choice(["tuple+tuple", "str+str", "str+str", "replace", "join"])
        ctx = fresh_ctx()
        if form == "tuple+tuple":
            a, b = tuple(range(run.rng.randrange(4, 16))), tuple(range(run.rng.randrange(4, 16)))
            expr, args, joint, result = "$a + $b", [a, b], True, a + b
        elif form == "str+str":
            a, b = "x" * run.rng.randrange(25, 70), "y" * run.rng.randrange(25, 70)
            expr, args, joint, result = "$a + $b", [a, b], False, a + b
        elif form == "replace":
            a, b, c = "ab" * run.rng.randrange(13, 30), "a", "z" * run.rng.randrange(25, 40)
            expr, args, joint, result = "$a.replace($b, $c)", [a, b, c], False, a.replace(b, c)
            ctx["c"] = c
        else:
            a, b = "-" * run.rng.randrange(25, 30), tuple("w" * run.rng.randrange(25, 36) for _ in range(run.rng.randrange(4, 9)))
            expr, args, joint, result = "$a.join($b)", [a, b], False, a.join(b)
        ctx["a"], ctx["b"] = a, b
        variables = {"a": a, "b": list(b) if isinstance(b, tuple) else b, "b_is_tuple": isinstance(b, tuple),
                     "a_is_tuple": isinstance(a, tuple)}
        if isinstance(a, tuple):
            variables["a"] = list(a)
        if form == "replace":
            variables["c"] = c
        sizes = [sys.getsizeof(x, 0) for x in args]
        if form == "join":
            sizes += [sys.getsizeof(x, 0) for x in b[:0]]
        rs = sys.getsizeof(result, 0)
        cands = sizes + [rs, sum(sizes)]
        Q = run.rng.choice(cands) + run.rng.choice([-1, 0, 0, 1]) if run.rng.random() < 0.85 else run.rng.choice([0, -1, 10 ** 6])
        raised, other = False, None
        how = how_of(i)
        run.count("options-route:%s" % how)
        try:
            statement(expr, how, memoryQuota=Q, convertOutputData=False).evaluate(context=ctx)
        except exceptions.MemoryQuotaExceededException:
            raised = True
        except Exception as e:
            other = type(e).__name__
        run.case(("call", form, Q, tuple(sizes), rs, how), nontrivial=Q > 0 and min(cands) - 2 <= Q <= max(cands) + 2)
        run.count("call:%s:%s" % (form, "raise" if raised else "ok"))
        pred = None
        if other:
            pred = "%s raised %s" % (expr, other)
        elif Q > 0 and rs > Q and not raised:
            pred = "%s returned a value of %d bytes under quota %d" % (expr, rs, Q)
        elif Q > 0 and max(sizes) > Q and not raised:
            pred = "%s was handed an argument of %d bytes under quota %d" % (expr, max(sizes), Q)
        terms.append("CCall %s %s %s %s %s" % (gal.z(Q), gal.zlist(sizes), gal.boolean(joint), gal.z(rs), gal.boolean(raised)))
        meta.append(("call", {"expr": expr, "Q": Q, "arg_sizes": sizes, "result_size": rs, "vars": variables, "options_route": how},
                     {"raised": raised, "exception": other}, pred))


# --------------------------------------------------------------------------
# C7: the accumulator loops of distinct / groupBy / toDict / generate(decycle) / memorize
# --------------------------------------------------------------------------
ACC_FORMS = ["distinct", "groupBy", "toDict", "generate", "memorize"]


def acc_returned(form, items, M):
    """Own size of the value the function RETURNS when its loop completes, where that value is built
    from the accumulator (decided on the live function's result type, not assumed); 0 for the
    functions that return a lazy sequence (the loop then runs while that sequence is consumed)."""
    if form != "toDict":
        return 0
    acc = {}
    for t in items:
        acc[t % M] = t
    if "toDict" not in _returned_type:        # what kind of value comes back (asked of the live function, once)
        _returned_type["toDict"] = type(fresh_ctx()("toDict", engine(), receiver=(1,))(lambda x: x))
    kind = _returned_type["toDict"]
    return sys.getsizeof(acc if kind is dict else kind(acc), 0)


_returned_type = {}


def acc_sizes(form, items, M):
    """Own size of the function's private accumulator: empty, and after each source item
    (the same operations on the same kind of object, replayed here)."""
    if form in ("distinct", "generate"):
        acc, out = set(), []
        for t in items:
            acc.add(t)
            out.append(sys.getsizeof(acc, 0))
        return sys.getsizeof(set(), 0), out
    if form == "groupBy":
        acc, out = {}, []
        for t in items:
            acc.setdefault(t % M, []).append(t)
            out.append(sys.getsizeof(acc, 0))
        return sys.getsizeof({}, 0), out
    if form == "toDict":
        acc, out = {}, []
        for t in items:
            acc[t % M] = t
            out.append(sys.getsizeof(acc, 0))
        return sys.getsizeof({}, 0), out
    acc, out = [], []
    for t in items:
        acc.append(t)
        out.append(sys.getsizeof(acc, 0))
    return sys.getsizeof([], 0), out


def run_acc(form, items, M, Q, how):
    ctx = fresh_ctx()
    src = Src(items, False, cap=CAP)
    ctx["src"] = src
    calls = [0]
    if form == "generate":
        def nxt(x):
            calls[0] += 1
            return x + 1
        ctx.register_function(nxt, name="nxt")
        text = "generate(0, $ < %d, nxt($), decycle => true).len()" % len(items)
    else:
        text = {"distinct": "$src.distinct().len()", "groupBy": "$src.groupBy($ mod %d).len()" % M,
                "toDict": "$src.toDict($ mod %d, $).len()" % M, "memorize": "$src.memorize().len()"}[form]
    raised, other = False, None
    try:
        statement(text, how, memoryQuota=Q, convertOutputData=False).evaluate(context=ctx)
    except exceptions.MemoryQuotaExceededException:
        raised = True
    except Exception as e:
        other = type(e).__name__
    steps = (calls[0] + (1 if raised else 0)) if form == "generate" else src.pulls
    return text, raised, steps, other


def acc_predicate(form, Q, a0, sizes, raised, steps, other, ret=0):
    if other:
        return "%s raised %s" % (form, other)
    if Q <= 0:
        return "raised without a quota" if raised else None
    over = [j for j, z in enumerate(sizes) if z > Q]
    if over and not raised:
        return "the accumulator of %s reached %d bytes under quota %d and the loop went on" % (form, max(sizes), Q)
    if over and steps > over[0] + 1:
        return "the accumulator of %s exceeded the quota %d at step %d but %d steps were made" % (form, Q, over[0] + 1, steps)
    if not over and ret > Q and not raised:
        return "%s returned a value of %d bytes under quota %d" % (form, ret, Q)
    return None


def c_acc(run, n, terms, meta):
    for i in range(n):
        form = ACC_FORMS[i % 5]
        L = run.rng.choice([0, 1, 5, 6, 9, 12, 20, 23, 33, 40, 45])
        M = run.rng.choice([2, 5, 50])
        if form == "generate":
            items = list(range(L))
        elif form == "distinct":
            items = [run.rng.randrange(0, max(2, L)) for _ in range(L)]
        else:
            items = [run.rng.randrange(0, 60) for _ in range(L)]
        a0, sizes = acc_sizes(form, items, M)
        ret = acc_returned(form, items, M)
        r = run.rng.random()
        if r < 0.8 and sizes:
            # floor: the generator objects these functions return are themselves ~250-byte values
            Q = max(330, run.rng.choice(sizes + [a0] + ([ret] if ret else [])) + run.rng.choice([-1, 0, 0, 1]))
        elif r < 0.9:
            Q = run.rng.choice([0, -1])
        else:
            Q = run.rng.choice([351, 400, 10 ** 6])
        how = how_of(i, 5)
        text, raised, steps, other = run_acc(form, items, M, Q, how)
        gs = [z - p for z, p in zip(sizes, [a0] + sizes[:-1])]
        run.case(("acc", form, tuple(items), M, Q, how), nontrivial=bool(sizes) and Q > 0 and a0 - 2 <= Q <= max(sizes) + 2)
        run.count("acc:%s:%s" % (form, "raise" if raised else "ok"))
        run.count("options-route:%s" % how)
        if i % 61 == 0:
            run.sample({"kind": "acc", "expr": text, "items": items, "Q": Q, "accumulator_sizes": [a0] + sizes,
                        "raised": raised, "steps": steps})
        terms.append("CAcc %s %s %s %s %s %s" % (gal.z(Q), gal.z(a0), gal.zlist(gs), gal.z(ret), gal.boolean(raised),
                                                 gal.nat(min(steps, 4000))))
        meta.append(("acc", {"form": form, "items": items, "M": M, "Q": Q, "options_route": how, "expr": text},
                     {"raised": raised, "steps": steps, "exception": other, "accumulator_sizes": [a0] + sizes,
                      "returned_value_size": ret},
                     acc_predicate(form, Q, a0, sizes, raised, steps, other, ret)))


# --------------------------------------------------------------------------
# C6: trees of calls through the engine (the call protocol: every argument, every result)
# --------------------------------------------------------------------------
def gen_tree(rng, depth, env):
    """-> (yaql text, Python value, Gallina cexpr, [sizes of every argument and result inside])"""
    if depth == 0 or rng.random() < 0.3:
        val = rng.choice("xyzw") * rng.randrange(25, 60)
        size = sys.getsizeof(val, 0)
        if rng.random() < 0.5:       # a literal: a value that no call has produced (only argument checks see it)
            return "'%s'" % val, val, "(CVal %s)" % gal.z(size), []
        name = "v%d" % len(env)      # `$v` is itself a call: '#get_context_data'(name) -> value
        env[name] = val
        nsize = sys.getsizeof("$" + name, 0)
        return "$" + name, val, "(CApp (fun _ => %s) [(CVal %s)])" % (gal.z(size), gal.z(nsize)), [nsize, size]
    op = rng.choice(["+", "+", "concat", "*", "str", "strlen", "strlen"])
    if op == "+":
        subs = [gen_tree(rng, depth - 1, env) for _ in range(2)]
        text, val = "(%s + %s)" % (subs[0][0], subs[1][0]), subs[0][1] + subs[1][1]
    elif op == "concat":
        subs = [gen_tree(rng, depth - 1, env) for _ in range(rng.choice([2, 3]))]
        text, val = "concat(%s)" % ", ".join(t[0] for t in subs), "".join(t[1] for t in subs)
    elif op == "*":
        k = rng.choice([1, 2, 3])
        sub = gen_tree(rng, depth - 1, env)
        subs = [sub, (str(k), k, "(CVal %s)" % gal.z(sys.getsizeof(k, 0)), [])]
        text, val = "(%s * %d)" % (sub[0], k), sub[1] * k
    elif op == "strlen":     # a SHRINKING function: only the argument check can refuse an over-quota operand
        sub = gen_tree(rng, depth - 1, env)
        n = len(sub[1])
        inner = (sub[0], sub[1], sub[2], sub[3])
        lenterm = "(CApp (fun _ => %s) [%s])" % (gal.z(sys.getsizeof(n, 0)), sub[2])
        subs = [("len(%s)" % sub[0], n, lenterm, sub[3] + [sys.getsizeof(sub[1], 0), sys.getsizeof(n, 0)])]
        text, val = "str(len(%s))" % sub[0], str(n)
    else:
        subs = [gen_tree(rng, depth - 1, env)]
        text, val = "str(%s)" % subs[0][0], subs[0][1]
    r = sys.getsizeof(val, 0)
    points = [p for t in subs for p in t[3]] + [sys.getsizeof(t[1], 0) for t in subs] + [r]
    return text, val, "(CApp (fun _ => %s) %s)" % (gal.z(r), gal.lst(t[2] for t in subs)), points


def eval_chain(text, env, Q, how):
    ctx = fresh_ctx()
    for k, v in env.items():
        ctx[k] = v
    try:
        statement(text, how, memoryQuota=Q, convertOutputData=False).evaluate(context=ctx)
        return False, None
    except exceptions.MemoryQuotaExceededException:
        return True, None
    except Exception as e:
        return False, type(e).__name__


def chain_predicate(text, Q, points, raised, other):
    if other:
        return "%s raised %s" % (text, other)
    if Q > 0 and max(points) > Q and not raised:
        return "a value of %d bytes was bound to a parameter or returned under quota %d" % (max(points), Q)
    return None


def c_chain(run, n, terms, meta):
    for i in range(n):
        env = {}
        text, val, term, pts = gen_tree(run.rng, run.rng.choice([1, 2, 2, 3]), env)
        if text[0] in "$'" and run.rng.random() < 0.75:
            env = {}
            text, val, term, pts = gen_tree(run.rng, 2, env)
        fin = sys.getsizeof(val, 0)
        points = pts + [fin, fin]                    # the argument and the result of '#finalize'
        r = run.rng.random()
        Q = run.rng.choice(points) + run.rng.choice([-1, 0, 0, 1]) if r < 0.85 else run.rng.choice([0, -1, 10 ** 6, 64])
        if 0 < Q < 64:               # below that the engine's own Constant / int objects are over quota
            Q = 64
        how = how_of(i)
        raised, other = eval_chain(text, env, Q, how)
        run.case(("chain", text, tuple(sorted(env.items())), Q, how), nontrivial=Q > 0 and min(points) - 2 <= Q <= max(points) + 2)
        run.count("chain:%s" % ("raise" if raised else "ok"))
        run.count("chain-calls:%d" % text.count("("))
        run.count("options-route:%s" % how)
        if i % 71 == 0:
            run.sample({"kind": "chain", "expr": text, "Q": Q, "sizes_inside": points, "raised": raised})
        terms.append("CChain %s %s %s %s" % (gal.z(Q), gal.z(fin), term, gal.boolean(raised)))
        meta.append(("chain", {"expr": text, "vars": env, "Q": Q, "options_route": how, "sizes_inside": points},
                     {"raised": raised, "exception": other}, chain_predicate(text, Q, points, raised, other)))


# --------------------------------------------------------------------------
def load_corpus():
    path = os.path.join(VERIF, "corpus", "C08.json")
    if not os.path.exists(path):
        return []
    return json.load(open(path))


def correspondence(run):
    corpus = load_corpus()
    terms, meta = [], []
    c_limit(run, run.n(400, 6000), terms, meta)
    c_prefix(run, run.n(300, 4000), terms, meta)
    c_sized(run, 0, terms, meta)
    c_final(run, run.n(900, 16000), terms, meta, corpus)
    c_quota(run, run.n(400, 8000), terms, meta)
    c_mul(run, run.n(800, 16000), terms, meta, corpus)
    c_call(run, run.n(400, 8000), terms, meta)
    c_chain(run, run.n(400, 6000), terms, meta)
    c_acc(run, run.n(300, 4000), terms, meta)
    # the property's predicate on every case, whatever the model says
    flagged = set()
    for i, (kind, inp, obs, pred) in enumerate(meta):
        if pred:
            flagged.add(i)
            run.fail("violation", "%s: %s" % (kind, pred.split(":")[0] if kind == "quota" else generalise(pred)),
                     {"kind": kind, "input": inp, "observed": obs, "required": pred,
                      "theorem": THEOREM_OF[kind]})
    bad = run.coq_mismatches(HEADER, CASE_TY, CASE_OK, terms, shard=300)
    for i in bad:
        if i in flagged:
            continue
        kind, inp, obs, _ = meta[i]
        run.fail("mismatch", "%s: model (Model/Limits.v) and implementation disagree" % kind,
                 {"kind": kind, "input": inp, "observed": obs, "case": terms[i][:2000]})


THEOREM_OF = {"prefix": "C08_limit_prefix", "limit": "C08_limit_pulls", "sized": "C08_limit_sized", "final": "C08_result_width / C08_finalize_terminates",
              "quota": "C08_quota_threshold", "mul": "C08_repetition_refuses_first / C08_repetition_never_over_quota",
              "call": "C08_quota_threshold (argument and result checks)",
              "chain": "C08_no_over_quota_value_passed_on / C08_statement_result_fits",
              "acc": "C08_accumulator_bounded"}


def generalise(text):
    import re
    return re.sub(r"-?\d+", "#", text)


# --------------------------------------------------------------------------
# O: subprocess pool with watchdog
# --------------------------------------------------------------------------
class Pool:
    """Runs worker tasks; a call that does not finish within `deadline` seconds gets its
    worker killed (SIGKILL) and is reported as hung."""

    def __init__(self, nworkers=12, deadline=12.0):
        self.nworkers, self.deadline = nworkers, deadline
        self.killed = 0

    def spawn(self):
        env = dict(os.environ)
        return subprocess.Popen([sys.executable, "-W", "ignore", os.path.join(VERIF, "harness", "c08_worker.py")],
                                stdin=subprocess.PIPE, stdout=subprocess.PIPE, stderr=subprocess.DEVNULL,
                                env=env, bufsize=0)

    def run(self, tasks):
        q = queue.Queue()
        for t in tasks:
            q.put(t)
        results, lock = {}, threading.Lock()

        def readline(proc, buf, until):
            while b"\n" not in buf[0]:
                left = until - time.time()
                if left <= 0:
                    return None
                r, _, _ = select.select([proc.stdout], [], [], min(left, 1.0))
                if r:
                    chunk = os.read(proc.stdout.fileno(), 65536)
                    if not chunk:
                        return b""
                    buf[0] += chunk
            line, buf[0] = buf[0].split(b"\n", 1)
            return line

        def work():
            proc, buf = None, [b""]
            while True:
                try:
                    task = q.get_nowait()
                except queue.Empty:
                    break
                if proc is None or proc.poll() is not None:
                    proc, buf = self.spawn(), [b""]
                try:
                    proc.stdin.write((json.dumps(task) + "\n").encode())
                    proc.stdin.flush()
                except OSError:
                    proc = None
                    q.put(task)
                    continue
                current, partial = None, []
                until = time.time() + self.deadline + 6
                while True:
                    line = readline(proc, buf, until)
                    if line is None or line == b"":
                        try:
                            proc.kill()
                            proc.wait(timeout=5)
                        except Exception:
                            pass
                        proc = None
                        with lock:
                            self.killed += 1
                            results[task["id"]] = {"hung": current or task["id"], "calls": partial,
                                                   "died": line == b""}
                        break
                    try:
                        msg = json.loads(line)
                    except ValueError:
                        continue
                    if "begin" in msg:
                        current = msg["begin"]
                        until = time.time() + self.deadline
                    elif "endcall" in msg:
                        partial.append(msg)
                        until = time.time() + self.deadline
                    elif "end" in msg:
                        with lock:
                            results[task["id"]] = msg
                        break
            if proc is not None:
                try:
                    proc.stdin.close()
                    proc.wait(timeout=5)
                except Exception:
                    proc.kill()

        threads = [threading.Thread(target=work) for _ in range(min(self.nworkers, max(1, len(tasks))))]
        for t in threads:
            t.start()
        for t in threads:
            t.join()
        return results


def registry():
    ctx = yaql.create_context()
    eng = engine(limitIterators=gen_limitfacts.PROBE_LIMIT)
    out = []
    for idx, (depth, name, fd) in enumerate(gen_limitfacts.layers(ctx)):
        for key, p in fd.parameters.items():
            row = gen_limitfacts.probe_param(fd, key, p, ctx, eng)
            row.update(idx=idx, fn=name, payload=gen_limitfacts.payload_name(fd), key=key,
                       is_lambda=isinstance(p.value_type, yaqltypes.Lambda))
            out.append(row)
    return out


def sweep_tasks(rows, Ns, max_variants):
    tasks = []
    for r in rows:
        mode = None
        if r["kind"] == "PEager" and r["acc_iter"]:
            mode = "src"
        elif r["is_lambda"]:
            mode = "lambda"
        if mode is None:
            continue
        for N in Ns:
            tasks.append({"kind": "sweep", "id": "%s|%s|%s|%d" % (r["fn"], r["payload"], r["key"], N), "fd": r["idx"],
                          "key": r["key"], "N": N, "mode": mode, "max_variants": max_variants,
                          "optroute": WORKER_OPT_ROUTES[len(tasks) % 3],
                          "srckind": c08_worker.SOURCE_KINDS[(len(tasks) // 3) % 3],
                          "_row": {"fn": r["fn"], "payload": r["payload"], "key": r["key"], "mode": mode,
                                   "typed": not r["acc_int"]}})
    return tasks


def o_sweep(run, deep):
    rows = registry()
    unc = sorted({"%s(%s)" % (r["payload"], r["key"]) for r in rows
                  if r["kind"] == "PEager" and r["acc_iter"] and r["acc_int"]})
    run.cov["uncovered"].append({"what": "object-typed parameters (accept an iterator AND scalars): outside "
                                         "C08_typed_params_limited, exercised by the endless-source sweep only",
                                 "count": len(unc), "parameters": unc})
    for r in rows:           # the P statement, directly on the live registry (gives the concrete replay when P breaks)
        if r["kind"] == "PEager" and r["acc_iter"] and not r["acc_int"] and not r["limiting"]:
            run.fail("violation", "parameter declared with a collection type does not limit what it is given: %s(%s)" % (r["payload"], r["key"]),
                     {"kind": "typed-param", "function": r["fn"], "payload": r["payload"], "parameter": r["key"],
                      "observed": "value_type.convert under yaql.limitIterators=%d handed over %d or more items without "
                                  "CollectionTooLargeException for: %s"
                                  % (gen_limitfacts.PROBE_LIMIT, gen_limitfacts.PROBE_LIMIT + 1, ", ".join(r["unlimited_shapes"])),
                      "required": "CollectionTooLargeException after at most %d pulls" % (gen_limitfacts.PROBE_LIMIT + 1),
                      "theorem": "C08_typed_params_limited"})
    Ns = [0, 2] if run.quick and not deep else [0, 1, 2, 3, 5]
    tasks = sweep_tasks(rows, Ns, 6 if run.quick and not deep else 16)
    if run.quick and not deep:
        pass
    pool = Pool()
    t0 = time.time()
    results = pool.run([{k: v for k, v in t.items() if k != "_row"} for t in tasks])
    ncalls = 0
    pulled = 0
    never, unmatched = [], []
    for t in tasks:
        res = results.get(t["id"])
        row, N = t["_row"], t["N"]
        if res is None:
            run.note("sweep task %s produced no result" % t["id"])
            continue
        if res.get("error"):
            run.note("sweep task %s: worker error %s" % (t["id"], res["error"]))
            continue
        if res.get("uncallable"):
            run.count("sweep:uncallable")
            continue
        calls = res.get("calls", [])
        bad = None
        if not any(c["pulls"] > 0 for c in calls):
            never.append("%s(%s)%s" % (row["payload"], row["key"], "/lambda" if row["mode"] == "lambda" else ""))
        if calls and all(c["outcome"].startswith("Other:NoMatching") or c["outcome"].startswith("Other:LookupError") for c in calls):
            unmatched.append("%s(%s)" % (row["payload"], row["key"]))
        for c in calls:
            ncalls += 1
            run.cov["evaluations"] += 1
            run.count("sweep:%s" % c["outcome"].split(":")[0])
            if c["pulls"] > 0:
                pulled += 1
            if c["pulls"] > N + 1 or c["outcome"] in ("Timeout", "PullCap", "MemoryError"):
                bad = bad or c
        if res.get("hung"):
            bad = {"variant": "call %s never returned (worker killed after %.0fs)" % (res["hung"], pool.deadline),
                   "outcome": "Hung", "pulls": None}
        if bad:
            what = "%s(%s) %s" % (row["payload"], row["key"],
                                  "fed by a lambda that returns an endless iterator" if row["mode"] == "lambda" else "fed by an endless iterator")
            run.fail("violation", "%s escapes yaql.limitIterators" % what,
                     {"kind": "sweep", "function": row["fn"], "payload": row["payload"], "parameter": row["key"],
                      "mode": row["mode"], "N": N, "options_route": t.get("optroute"), "source": t.get("srckind"),
                      "other_arguments": bad["variant"],
                      "observed": {"outcome": bad["outcome"], "pulls_from_one_source": bad["pulls"]},
                      "required": "at most %d pulls and termination" % (N + 1),
                      "replay_task": {k: v for k, v in t.items() if k != "_row"}})
    run.count("sweep:positions", len(tasks))
    run.cov["uncovered"].append({"what": "sweep positions at which no variant ever pulled from the source (the value is only "
                                         "passed on, compared, stored or rejected there)", "count": len(set(never)),
                                 "parameters": sorted(set(never))})
    if unmatched:
        run.cov["uncovered"].append({"what": "sweep positions whose function never matched the corpus arguments",
                                     "count": len(set(unmatched)), "parameters": sorted(set(unmatched))})
    run.note("sweep: %d positions x N in %s, %d calls (%d pulled from the source), %d workers killed, %.1fs"
             % (len(tasks), Ns, ncalls, pulled, pool.killed, time.time() - t0))


# ---- expressions (corpus + generated) -------------------------------------
WORKER_OPT_ROUTES = ["create", "per-expression", "per-expression-over-lax"]
LIMIT_EXPRS = [
    "sequence().len()", "generateMany(0, sequence())", "sequence().count()", "sequence().toList()", "sequence().sum()",
    "sequence().select($ * 2)", "sequence().where($ > 3).first()", "sequence().skip(10).take(100)", "sequence().last()",
    "sequence().orderBy($)", "sequence().distinct()", "sequence().groupBy($ mod 2)", "sequence().toDict($, $)",
    "sequence().toSet()", "sequence().reverse()", "sequence().memorize().len()", "sequence().zip(sequence())",
    "sequence().any()", "sequence().all($ >= 0)", "sequence().max()", "sequence().accumulate($1 + $2)",
    "sequence().aggregate($1 + $2)", "generate(0, true, $ + 1)", "generate(0, true, $ + 1).len()",
    "generateMany(0, [$ + 1, $ + 2])", "list(sequence())", "set(sequence())", "sequence().join(sequence(), true, [$1, $2])",
    "sequence().selectMany([$, $])", "sequence().takeWhile(true)", "sequence().skipWhile(true)", "sequence().indexOf(-1)",
    "sequence().contains(-1)", "-1 in sequence()", "sequence().slice(2)", "sequence().splitWhere($ > 5)",
    "sequence().mergeWith(sequence())", "cycle([1, 2])", "repeat(1)", "repeat(1).len()", "cycle([1]).len()",
    "[sequence()]", "{a => sequence()}", "[[sequence()]]", "sequence().defaultIfEmpty([1])", "sequence().append(1)",
    "[1].concat(sequence())", "str(sequence().toList())", "sequence().sliceWhere($ > 3)", "sequence().lastIndexOf(-1)",
    # collections and lazy sequences as dictionary KEYS (yaql values are hashable)
    "{[0] * 14 => 1}", "dict([[[0] * 14, 1]])", "[1].toDict([0] * 14, $)", "{a => 1}.set([0] * 14, 2)",
    "{set(0, 1, 2, 3).union(set(4, 5, 6, 7, 8)) => 1}", "dict([[sequence(), 1]])", "[1, [{[0] * 14 => 1}]]",
    "{a => {b => {[0] * 14 => 1}}}", "{{a => 1, b => 2, c => 3, d => 4} + {e => 5, f => 6, g => 7, h => 8} => 1}",
    "[1].toDict(sequence(), $)", "{[[0] * 14] => 1}",
    "range(100)", "range(100).len()", "range(100).toList().len()", "range(3).select(sequence())", "dict(sequence().select([$, $]))",
    "let(sequence()) -> $.len()", "let(x => sequence()) -> $x.len()", "sequence().last(0)", "sequence().single()",
    "sequence().enumerate()", "sequence().firstIndexWhere($ < 0)" , "sequence().lastIndexWhere($ < 0)", "sequence().min()",
]


def o_expressions(run, deep, corpus):
    tasks, info = [], {}
    Ns = [3] if run.quick and not deep else [0, 3, 7]
    k = 0
    for c in corpus:
        if c.get("kind") == "expr":
            k += 1
            t = {"kind": "expr", "id": "corpus%d" % k, "expr": c["expr"], "N": c.get("N"), "Q": c.get("Q"),
                 "ctx": c.get("ctx"), "trace": bool(c.get("Q")), "raw": bool(c.get("Q")),
                 "record_args": bool(c.get("Q")), "seconds": 5, "optroute": c.get("optroute")}
            tasks.append(t)
            info[t["id"]] = c
    for e in LIMIT_EXPRS:
        for N in Ns:
            k += 1
            t = {"kind": "expr", "id": "limit%d" % k, "expr": e, "N": N, "seconds": 5,
                 "optroute": WORKER_OPT_ROUTES[k % 3]}
            tasks.append(t)
            info[t["id"]] = {"expr": e, "N": N}
    pool = Pool(deadline=10.0)
    results = pool.run(tasks)
    for t in tasks:
        res, c = results.get(t["id"]), info[t["id"]]
        run.cov["evaluations"] += 1
        if res is None:
            continue
        if res.get("error"):
            run.note("expression %r: worker error %s" % (t["expr"], res["error"]))
            continue
        out = "Hung" if res.get("hung") else res["outcome"]
        run.count("expr:%s" % out.split(":")[0])
        if t.get("N") is not None and t["N"] >= 0:
            if out == "Ok" and (res.get("width") or 0) > t["N"]:
                run.fail("violation", "evaluation under yaql.limitIterators returned a result that holds a collection with more elements "
                                      "than the limit (or a lazy sequence), dictionary keys included",
                         {"kind": "expr", "expr": t["expr"], "N": t["N"], "ctx": t.get("ctx"), "optroute": t.get("optroute"),
                          "observed": {"outcome": out, "largest_collection_in_result": res.get("width")},
                          "required": "CollectionTooLargeException, or a plain result with every collection (keys included) <= N elements"})
            elif out in ("Hung", "Timeout", "MemoryError", "PullCap") or res.get("pulls", 0) > t["N"] + 1:
                run.fail("violation", "evaluation of `%s` under yaql.limitIterators does not terminate with CollectionTooLargeException" % t["expr"],
                         {"kind": "expr", "expr": t["expr"], "N": t["N"], "ctx": t.get("ctx"), "optroute": t.get("optroute"),
                          "observed": {"outcome": out, "pulls": res.get("pulls")},
                          "required": "termination: a plain result with every collection <= N elements, or CollectionTooLargeException"})
            elif out == "Ok" and res.get("kind") in ("list", "dict", "set", "tuple") and c.get("expect") == "TooLarge":
                run.fail("violation", "evaluation of `%s` returned although it must raise" % t["expr"],
                         {"kind": "expr", "expr": t["expr"], "N": t["N"], "observed": {"outcome": out}})
        if t.get("Q"):
            check_quota_result(run, t, res, c)


def check_quota_result(run, t, res, c):
    out = "Hung" if res.get("hung") else res["outcome"]
    Q = t["Q"]
    would = c.get("would_allocate")
    data = {"kind": "expr", "expr": t["expr"], "Q": Q, "ctx": t.get("ctx"), "raw": bool(t.get("raw")), "optroute": t.get("optroute"),
            "observed": {"outcome": out, "peak_traced_bytes": res.get("peak"), "result_own_size": res.get("size"),
                         "products_computed": res.get("products"), "arguments_over_quota": res.get("args_over_quota")}}
    if out in ("Hung", "Timeout", "MemoryError"):
        run.fail("violation", "evaluation of `%s` under yaql.memoryQuota does not terminate" % t["expr"], data)
        return
    if would:
        data["required"] = "MemoryQuotaExceededException BEFORE allocating the %d-byte product (peak traced memory far below it)" % would
        if out != "Quota":
            run.fail("violation", "repetition `%s` under quota was not refused" % t["expr"], data)
        elif (res.get("peak") or 0) > max(would // 20, 200000) or res.get("products"):
            run.fail("violation", "repetition `%s` allocated the product before refusing it" % t["expr"], data)
        return
    if out == "Ok" and res.get("size") is not None and res["size"] > Q and res.get("kind") in ("str", "tuple", "list", "frozenset", "set", "dict", "FrozenDict"):
        data["required"] = "MemoryQuotaExceededException instead of a %d-byte value" % res["size"]
        run.fail("violation", "evaluation of `%s` returned a value whose own size exceeds the quota" % generalise(t["expr"]), data)
    if t.get("deep") and out == "Ok" and (res.get("deep_max") or 0) > Q:
        data["observed"]["largest_own_size_inside_result"] = res["deep_max"]
        data["required"] = "MemoryQuotaExceededException: a function call inside the expression produced a %d-byte value" % res["deep_max"]
        run.fail("violation", "a value above the quota, produced by a function call inside `%s`, was returned nested in the result" % generalise(t["expr"]), data)
    if res.get("args_over_quota"):
        data["required"] = "no value above the quota is passed on to a function"
        run.fail("violation", "an over-quota value was passed on to %s" % res["args_over_quota"][0][0], data)
    if out == "Ok" and res.get("inner_size") and res["inner_size"] > Q:
        data["required"] = "MemoryQuotaExceededException instead of a dict whose storage takes %d bytes" % res["inner_size"]
        run.fail("violation", "evaluation of `%s` returned a dict whose own storage exceeds the quota" % generalise(t["expr"]), data)


def o_quota(run, deep):
    tasks, info = [], {}
    k = 0

    def add(expr, Q, ctx, would=None, raw=True, deep=False):
        nonlocal k
        k += 1
        t = {"kind": "expr", "id": "q%d" % k, "expr": expr, "Q": Q, "ctx": ctx, "trace": True, "raw": raw,
             "record_args": True, "seconds": 8, "deep": deep, "optroute": WORKER_OPT_ROUTES[k % 3]}
        tasks.append(t)
        info[t["id"]] = {"would_allocate": would}

    consts = gen_limitfacts.sizeof_constants()
    big = [10 ** 6, 10 ** 7] if run.quick and not deep else [10 ** 6, 10 ** 7, 3 * 10 ** 7]
    for c in big:                                      # repetition must refuse before allocating
        for n in (1, 2, 3, 5):
            add("$a * $b", 1000, {"a": ["tuple", n], "b": ["count", c]}, consts["KTuple"][0] + 8 * n * c)
            add("$b * $a", 1000, {"a": ["tuple", n], "b": ["count", c]}, consts["KTuple"][0] + 8 * n * c)
            add("$a * $b", 1000, {"a": ["list", n], "b": ["count", c]}, consts["KList"][0] + 8 * n * c)
            add("$a * $b", 1000, {"a": ["grown_list", n], "b": ["count", c]}, consts["KList"][0] + 8 * n * c)
            for cp, kd in ((97, "KAscii"), (0xE9, "KLatin1"), (0x394, "KUcs2"), (0x1F600, "KUcs4")):
                add("$a * $b", 1000, {"a": ["str", n, cp], "b": ["count", c]}, consts[kd][0] + consts[kd][1] * n * c)
        add("[1, 2] * %d" % c, 1000, {}, 40 + 16 * c, raw=False)
        add("'ab' * %d" % c, 1000, {}, 41 + 2 * c, raw=False)
    nchain = 48 if run.quick and not deep else 600
    forms = [
        ("range(%(k)d).aggregate($1 + $s, '')", {"s": ["str", 7, 97]}),
        ("range(%(k)d).accumulate($1 + $s, '').last()", {"s": ["str", 7, 97]}),
        ("range(%(k)d).select($s).join('')", {"s": ["str", 5, 97]}),
        ("range(%(k)d).select($s).join($s)", {"s": ["str", 3, 0x394]}),
        ("$s.replace('a', $s)", {"s": ["str", 9, 97]}),
        ("$s.replace('a', $s).replace('a', $s)", {"s": ["str", 6, 97]}),
        ("range(%(k)d).aggregate($1 + $l, [])", {"l": ["tuple", 3]}),
        ("range(%(k)d).toList()", {}),
        ("range(%(k)d).aggregate($1.set($2, $2), {})", {}),
        ("range(%(k)d).aggregate($1 + {$2 => $s}, {})", {"s": ["str", 3, 97]}),
        ("range(%(k)d).toDict($, $)", {}),
        ("dict(range(%(k)d).select([$, $]))", {}),
        ("range(%(k)d).aggregate($1.set($2, $2), {}).len()", {}),
        ("range(%(k)d).toList() + range(%(k)d).toList()", {}),
        ("range(%(k)d).select($s).toList()", {"s": ["str", 4, 97]}),
        ("range(%(k)d).toSet()", {}),
        ("range(%(k)d).aggregate($1 + $1, $s)", {"s": ["str", 2, 97]}),
        ("($s + $s + $s + $s) * %(k)d", {"s": ["str", 5, 97]}),
        ("range(%(k)d).select([$, $]).toList()", {}),
        ("$s.toCharArray()", {"s": ["str", 30, 97]}),
        ("$s.split('a')", {"s": ["str", 40, 97]}),
        ("range(%(k)d).orderBy(-$)", {}),
        ("range(%(k)d).toList().reverse()", {}),
        ("range(%(k)d).distinct().toList()", {}),
    ]
    for i in range(nchain):
        form, ctx = forms[i % len(forms)]
        kk = run.rng.choice([2, 5, 9, 14, 20])
        add(form % {"k": kk}, run.rng.choice([60, 90, 120, 200, 300, 500]), ctx)
    # values created by a function call inside a lambda / a literal: they end up NESTED in the result,
    # so only the result check of runner.call stands between them and the caller
    nested = [
        ("[1, 2].select($s + $s)", {"s": ["str", 30, 97]}),
        ("[1, 2].select($s * %(k)d)", {"s": ["str", 12, 97]}),
        ("[$s + $s, 1]", {"s": ["str", 33, 97]}),
        ("{a => $s + $s + $s}", {"s": ["str", 25, 97]}),
        ("[1].select($l + $l)", {"l": ["tuple", 7]}),
        ("[[1, 2].select($s.replace('a', 'bbb'))]", {"s": ["str", 30, 97]}),
        ("[1, 2].select('-'.join([$s, $s, $s]))", {"s": ["str", 20, 97]}),
        ("[1, 2, 3].select(range($ * %(k)d).toList())", {}),
    ]
    for i in range(len(nested) * (3 if run.quick and not deep else 12)):
        form, ctx = nested[i % len(nested)]
        add(form % {"k": run.rng.choice([3, 5, 9])}, run.rng.choice([90, 100, 110, 128, 150, 200]), ctx, deep=True)
    pool = Pool(deadline=14.0)
    results = pool.run(tasks)
    for t in tasks:
        res = results.get(t["id"])
        run.cov["evaluations"] += 1
        if res is None:
            continue
        if res.get("error"):
            run.note("quota expression %r: worker error %s" % (t["expr"], res["error"]))
            continue
        run.count("quota-expr:%s" % ("Hung" if res.get("hung") else res["outcome"]).split(":")[0])
        check_quota_result(run, t, res, info[t["id"]])


# ---- (a) direct predicates on larger inputs --------------------------------
def o_direct(run, deep):
    n = run.n(300, 10000) * (3 if deep else 1)
    for i in range(n):
        N = run.rng.randrange(0, 25)
        if i % 2:
            L = run.rng.choice([0, N - 1, N, N + 1, N + 2, run.rng.randrange(0, 60)])
            L = max(L, 0)
            items, endless = list(range(L)), run.rng.random() < 0.3
            how = how_of(i, 8)
            out, got, pulls = run_limit(N, items, endless, LIMIT_ROUTES[i % 4], how)
            pred = limit_predicate(N, items, endless, out, got, pulls)
            inp = {"N": N, "items": L, "endless": endless, "route": LIMIT_ROUTES[i % 4], "options_route": how}
            kind = "limit"
        else:
            depth = run.rng.choice([2, 3, 4])
            route = FINAL_ROUTES[i % 3]
            N = min(N, 14)
            spec = gen_shape(run.rng, N, depth, run.rng.randrange(0, depth), host=(route == "engine"))
            t2l, s2l, how = run.rng.random() < 0.5, run.rng.random() < 0.5, how_of(i, 6)
            out, val, pulls, maxpulls = run_final(N, t2l, s2l, spec, route, how)
            pred = final_predicate(N, spec, out, val, maxpulls, t2l)
            inp = {"N": N, "t2l": t2l, "s2l": s2l, "spec": spec, "route": route, "options_route": how}
            kind = "final"
        run.cov["evaluations"] += 1
        run.count("direct:%s:%s" % (kind, out))
        if pred:
            run.fail("violation", "%s: %s" % (kind, generalise(pred)),
                     {"kind": kind, "input": inp, "observed": {"outcome": out, "pulls": pulls}, "required": pred})


# ---- every iterable shape a host can supply x every way of delivering it ----
SHAPES = ["iterator", "generator", "reiterable", "sized-iterable", "deque", "range", "dict-values", "dict-keys", "dict-items",
          "mapping-values"]
DELIVERIES = ["context variable", "data, convertInputData=false", "data, converted"]
SHAPE_EXPRS = ["%s.count()", "%s", "[[%s]]", "dict(a => %s)", "%s.select($).toList()", "%s.toList().len()"]


class InstrMapping(__import__("collections").abc.Mapping):
    """A host mapping whose iteration is instrumented (its .values() view is lazy and not sized as a Set)."""

    def __init__(self, n):
        self.n, self.inner = n, c08_worker.ReIter(list(range(n)), False, CAP)

    def __iter__(self):
        return iter(self.inner)

    def __len__(self):
        return self.n

    def __getitem__(self, k):
        return k


def make_shape(shape, L, endless):
    """-> (object, pulls counter or None, number of items or None when endless)"""
    import collections
    items = list(range(L))
    if shape in ("iterator", "generator", "reiterable"):
        obj, cnt = c08_worker.make_source(shape, items, endless, CAP)
        return obj, cnt, (None if endless else L)
    if shape == "sized-iterable":
        obj, cnt = c08_worker.make_source(shape, items, False, CAP)
        return obj, cnt, L
    if shape == "mapping-values":
        m = InstrMapping(L)
        return m.values(), m.inner, L
    obj = {"deque": lambda: collections.deque(items), "range": lambda: range(L),
           "dict-values": lambda: {i: i for i in items}.values(), "dict-keys": lambda: {i: i for i in items}.keys(),
           "dict-items": lambda: {i: i for i in items}.items()}[shape]()
    return obj, None, L


def run_shape(shape, L, endless, delivery, template, N, how):
    obj, cnt, size = make_shape(shape, L, endless)
    ctx = fresh_ctx()
    opts = dict(limitIterators=N)
    if delivery == "context variable":
        ctx["v"] = obj
        text, kw = template % "$v", {}
    else:
        text, kw = template % "$", {"data": obj}
        if delivery == "data, convertInputData=false":
            opts["convertInputData"] = False
    try:
        val = statement(text, how, **opts).evaluate(context=ctx, **kw)
        out = "Ok"
    except exceptions.CollectionTooLargeException:
        out, val = "TooLarge", None
    except PullCap:
        out, val = "Diverges", None
    except Exception as e:
        out, val = "Other:" + type(e).__name__, None
    return out, val, (cnt.pulls if cnt is not None else None), size, text


def width_of(v):
    if isinstance(v, dict):
        return max([len(v)] + [max(width_of(k), width_of(x)) for k, x in v.items()])
    if isinstance(v, (list, tuple, set, frozenset)):
        return max([len(v)] + [width_of(x) for x in v])
    if v is None or isinstance(v, (str, int, float)):
        return 0
    return 10 ** 9            # anything lazy or foreign left in a result


def extra_width(shape, size, template):
    """Width that the expression itself adds to the result: the wrapping list / dict literal, and the
    (key, value) pairs of an items view when the elements are walked by the finaliser."""
    w = 1 if template in ("[[%s]]", "dict(a => %s)") else 0
    if shape == "dict-items" and size and template not in ("%s.count()", "%s.toList().len()"):
        w = max(w, 2)
    return w


def shape_predicate(N, out, val, pulls, size, delivery, extra=0):
    more = size is None or size > N or extra > N
    if pulls is not None and delivery != "data, converted" and pulls > N + 1:
        return "%d items were pulled from one walk of the source, allowed %d" % (pulls, N + 1)
    if out == "Diverges":
        return "the evaluation ran away over the source (stopped by the harness' cap)"
    if out == "Ok" and width_of(val) > N:
        return "the result holds a collection of more than %d elements (or something lazy)" % N
    if more and out == "Ok":
        return "a source of more than %d items was consumed without CollectionTooLargeException" % N
    if not more and out == "TooLarge":
        return "a source of %d items was refused under limit %d" % (size, N)
    return None


def o_shapes(run, deep):
    k = 0
    Ns = [1, 3] if run.quick and not deep else [0, 1, 3, 6]
    for shape in SHAPES:
        for delivery in DELIVERIES:
            for template in SHAPE_EXPRS:
                for N in Ns:
                    for L, endless in [(N, False), (N + 1, False), (12, False)] + ([(0, True)] if shape in ("iterator", "generator", "reiterable") else []):
                        k += 1
                        if run.quick and not deep and run.rng.random() < 0.5:
                            continue
                        how = how_of(k)
                        out, val, pulls, size, text = run_shape(shape, L, endless, delivery, template, N, how)
                        run.cov["evaluations"] += 1
                        run.count("shape:%s:%s" % (shape, out.split(":")[0]))
                        if out.startswith("Other:"):
                            continue                 # the expression does not apply to this shape (e.g. an unhashable dict value)
                        pred = shape_predicate(N, out, val, pulls, size, delivery, extra_width(shape, size, template))
                        if pred:
                            run.fail("violation", "%s handed in as %s: %s" % (shape, delivery, generalise(pred)),
                                     {"kind": "shape", "shape": shape, "items": L, "endless": endless, "delivery": delivery,
                                      "template": template, "expression": text, "N": N, "options_route": how,
                                      "observed": {"outcome": out, "pulls": pulls, "value": repr(val)[:200]}, "required": pred,
                                      "theorem": "C08_limit_pulls / C08_result_width / C08_typed_params_limited"})


# ---- host-registered functions with combinator-declared collection parameters ----
POSITIONS = ["positional", "keyword", "receiver"]


def host_context(vt):
    """A child context with a host function / method whose collection parameter is declared `vt`."""
    from yaql.language import specs
    ctx = fresh_ctx()

    def drain(values):
        n = 0
        if values is not None and not isinstance(values, (int, float, str)):
            for _ in values:
                n += 1
        return n

    @specs.parameter("values", vt)
    def total(values, bonus=0):
        return drain(values) + bonus

    @specs.parameter("values", vt)
    @specs.method
    def mtotal(values, bonus=0):
        return drain(values) + bonus

    ctx.register_function(total)
    ctx.register_function(mtotal)
    return ctx


HOST_TEXT = {"positional": "total($v)", "keyword": "total(bonus => 1, values => $v)", "receiver": "$v.mtotal()"}


def run_host(label, position, what, N, how):
    """what: 'endless' | 'sized+1' | 'sized' | 'quota'.  -> (outcome, pulls)"""
    vt = dict(gen_limitfacts.combinator_instances())[label]
    ctx = host_context(vt)
    src = None
    if what == "endless":
        src = ctx["v"] = Src([], True, cap=CAP)
    elif what == "sized+1":
        ctx["v"] = tuple(range(N + 1))
    elif what == "sized":
        ctx["v"] = tuple(range(N))
    else:
        ctx["v"] = tuple(range(200))
    opts = dict(limitIterators=N) if what != "quota" else dict(memoryQuota=400)
    try:
        r = statement(HOST_TEXT[position], how, **opts).evaluate(context=ctx)
        out = "Ok:%r" % (r,)
    except exceptions.CollectionTooLargeException:
        out = "TooLarge"
    except exceptions.MemoryQuotaExceededException:
        out = "Quota"
    except PullCap:
        out = "Diverges"
    except Exception as e:
        out = "Other:" + type(e).__name__
    return out, (src.pulls if src is not None else 0)


def host_predicate(what, N, out, pulls, position):
    bonus = 1 if position == "keyword" else 0
    if what == "endless":
        if pulls > N + 1 or out != "TooLarge":
            return "an endless source handed to the parameter was pulled %d times (allowed %d), outcome %s" % (pulls, N + 1, out)
    elif what == "sized+1":
        if out != "TooLarge":
            return "a sized collection of %d elements was accepted under limit %d (%s)" % (N + 1, N, out)
    elif what == "sized":
        if out != "Ok:%d" % (N + bonus):
            return "a sized collection of %d elements under limit %d gave %s" % (N, N, out)
    elif out != "Quota":
        return "a 1640-byte collection was bound to the parameter under yaql.memoryQuota=400 (%s)" % out
    return None


def o_combinators(run, deep):
    eng, ctx = engine(), fresh_ctx()
    insts = gen_limitfacts.combinator_instances()
    multi, single = gen_limitfacts.combinator_classes()
    run.note("smart-type combinators exercised on host functions: %s; as members: %s; %d instances"
             % (", ".join(c.__name__ for c in multi), ", ".join(c.__name__ for c in single) or "-", len(insts)))
    k = 0
    for label, vt in insts:
        acc_iter = vt.check((x for x in ()), ctx, eng)
        acc_sized = vt.check((0, 1), ctx, eng)
        if not (acc_iter or acc_sized):
            run.count("combinator:accepts-no-collection")
            continue
        for position in POSITIONS:
            for N in ([0, 2] if run.quick and not deep else [0, 1, 2, 5]):
                for what in (["endless"] if acc_iter else []) + (["sized+1", "sized", "quota"] if acc_sized else []):
                    if what == "quota" and N != 2:
                        continue
                    k += 1
                    how = how_of(k)
                    out, pulls = run_host(label, position, what, N, how)
                    run.cov["evaluations"] += 1
                    run.count("combinator:%s:%s" % (what, out.split(":")[0]))
                    pred = host_predicate(what, N, out, pulls, position)
                    if pred:
                        run.fail("violation", "host function parameter declared %s (%s argument): %s"
                                 % (label.split("(")[0] + "(...)", position, generalise(pred)),
                                 {"kind": "combinator", "type": label, "position": position, "input": what, "N": N,
                                  "options_route": how, "expression": HOST_TEXT[position],
                                  "observed": {"outcome": out, "pulls": pulls}, "required": pred,
                                  "theorem": "C08_combinator_params_limited"})


def oracle(run, deep):
    corpus = load_corpus()
    o_combinators(run, deep)
    o_shapes(run, deep)
    o_direct(run, deep)
    o_sweep(run, deep)
    o_expressions(run, deep, corpus)
    o_quota(run, deep)


# --------------------------------------------------------------------------
# known findings / replay
# --------------------------------------------------------------------------
def classify(failure, known_entries):
    d = failure.data or {}
    if d.get("kind") != "sweep":
        return None
    for k in known_entries:
        cls = k.get("class") or {}
        if cls.get("payload") == d.get("payload") and cls.get("parameter") == d.get("parameter") and \
                cls.get("mode", d.get("mode")) == d.get("mode"):
            return "%s %s" % (k["id"], k.get("line", ""))
    return None


def replay(run, data):
    d = data["data"]
    kind = d.get("kind")
    if kind == "limit":
        i = d["input"]
        out, got, pulls = run_limit(i["N"], i["items"] if isinstance(i["items"], list) else list(range(i["items"])),
                                    i["endless"], i["route"], i.get("options_route", "copy"), i.get("source", "iterator"))
        return limit_predicate(i["N"], i["items"] if isinstance(i["items"], list) else list(range(i["items"])),
                               i["endless"], out, got, pulls) is None
    if kind == "prefix":
        i = d["input"]
        got, ending, pulls = run_prefix(i["N"], i["items"], i["endless"], i["k"], i["route"], i.get("options_route", "copy"))
        return prefix_predicate(i["N"], i["items"], i["endless"], i["k"], got, ending, pulls) is None
    if kind == "sized":
        i = d["input"]
        obj = dict(SIZED_MAKERS)[i["type"]](list(range(i["len"])))
        try:
            utils.limit_iterable(obj, i["N"])
            raised = False
        except exceptions.CollectionTooLargeException:
            raised = True
        return raised == (0 <= i["N"] < i["len"])
    if kind == "final":
        i = d["input"]
        spec = totuple(i["spec"])
        out, val, pulls, maxpulls = run_final(i["N"], i["t2l"], i["s2l"], spec, i["route"], i.get("options_route", "copy"))
        return final_predicate(i["N"], spec, out, val, maxpulls, i["t2l"]) is None
    if kind == "quota":
        i = d["input"]
        args = [(c, _Sized(s)) for c, s in i["args"]]
        try:
            utils.limit_memory_usage(i["Q"], *args)
            raised = False
        except exceptions.MemoryQuotaExceededException:
            raised = True
        t, sums = 0, []
        for c, s in i["args"]:
            t += c * s
            sums.append(t)
        return raised == (i["Q"] > 0 and any(s > i["Q"] for s in sums))
    if kind == "mul":
        i = d["input"]
        left = make_operand(i["k"], i["n"], i.get("grown", False))
        raised, computed, size, csize, other = run_mul(i["Q"], left, i["c"], i.get("swap", False), i.get("options_route", "copy"))
        return other is None and mul_predicate(i["Q"], left, i["c"], raised, computed, size) is None
    if kind == "call":
        i = d["input"]
        v = i.get("vars")
        if not v:
            return True
        ctx = fresh_ctx()
        ctx["a"] = tuple(v["a"]) if v.get("a_is_tuple") else v["a"]
        ctx["b"] = tuple(v["b"]) if v.get("b_is_tuple") else v["b"]
        if "c" in v:
            ctx["c"] = v["c"]
        try:
            statement(i["expr"], i.get("options_route", "copy"), memoryQuota=i["Q"], convertOutputData=False).evaluate(context=ctx)
            raised = False
        except exceptions.MemoryQuotaExceededException:
            raised = True
        except Exception:
            return False
        over = i["Q"] > 0 and (i["result_size"] > i["Q"] or max(i["arg_sizes"]) > i["Q"])
        return raised or not over
    if kind == "acc":
        i = d["input"]
        a0, sizes = acc_sizes(i["form"], i["items"], i["M"])
        text, raised, steps, other = run_acc(i["form"], i["items"], i["M"], i["Q"], i.get("options_route", "copy"))
        return acc_predicate(i["form"], i["Q"], a0, sizes, raised, steps, other,
                             acc_returned(i["form"], i["items"], i["M"])) is None
    if kind == "chain":
        i = d["input"]
        raised, other = eval_chain(i["expr"], i["vars"], i["Q"], i.get("options_route", "copy"))
        return chain_predicate(i["expr"], i["Q"], i["sizes_inside"], raised, other) is None
    if kind == "shape":
        out, val, pulls, size, text = run_shape(d["shape"], d["items"], d["endless"], d["delivery"], d["template"], d["N"],
                                                d.get("options_route", "copy"))
        return out.startswith("Other:") or shape_predicate(d["N"], out, val, pulls, size, d["delivery"],
                                                           extra_width(d["shape"], size, d["template"])) is None
    if kind == "combinator":
        out, pulls = run_host(d["type"], d["position"], d["input"], d["N"], d.get("options_route", "copy"))
        return host_predicate(d["input"], d["N"], out, pulls, d["position"]) is None
    if kind == "typed-param":
        for r in registry():
            if r["payload"] == d["payload"] and r["key"] == d["parameter"]:
                return not (r["acc_iter"] and not r["acc_int"] and not r["limiting"])
        return True
    if kind == "sweep":
        t = d["replay_task"]
        res = Pool(nworkers=1).run([t]).get(t["id"], {})
        if res.get("hung"):
            return False
        return all(c["pulls"] <= t["N"] + 1 and c["outcome"] not in ("Timeout", "PullCap", "MemoryError")
                   for c in res.get("calls", []))
    if kind == "expr":
        t = {"kind": "expr", "id": "replay", "expr": d["expr"], "N": d.get("N"), "Q": d.get("Q"), "ctx": d.get("ctx"),
             "trace": bool(d.get("Q")), "seconds": 5, "record_args": bool(d.get("Q")), "raw": d.get("raw", bool(d.get("Q")) and bool(d.get("ctx"))),
             "deep": "largest_own_size_inside_result" in (d.get("observed") or {}), "optroute": d.get("optroute")}
        sub = type(run)(run.pid, run.tier, run.seed)
        try:
            res = Pool(nworkers=1).run([t]).get("replay", {})
            if res.get("hung"):
                return False
            if d.get("N") is not None:
                if res["outcome"] in ("Timeout", "MemoryError", "PullCap") or res.get("pulls", 0) > d["N"] + 1:
                    return False
                if res["outcome"] == "Ok" and (res.get("width") or 0) > d["N"]:
                    return False
            if d.get("Q"):
                req = d.get("required") or ""
                import re
                m = re.search(r"allocating the (\d+)-byte", req)
                check_quota_result(sub, t, res, {"would_allocate": int(m.group(1)) if m else None})
                return not sub.failures
            return True
        finally:
            sub.cleanup()
    return True


class _Sized:
    def __init__(self, n):
        self.n = n

    def __sizeof__(self):
        return self.n
