"""C06 - resolution does not depend on registration or iteration order.

C: overload families with several simultaneously matching candidates per layer, enumerated in a random
order fixed by the harness, against Model/Resolution.call (the order-free selection, proved invariant
under permutation of every layer).  O: every enumeration order of every layer (<= 5 candidates:
exhaustive, else 50 random) must give ONE outcome."""
import resolution_common as rc

GEN = []
RULE = ("[python-style family names under the CamelCase convention, several parameter specifications sharing one payload callable, combinator "
        "type instances (AnyOf / Chain / NotOfType) shared between parameters and overloads, hostile-protocol argument objects - as in C05] "
        "dense families: 1-3 layers x 2-6 overloads with 1-3 visible parameters typed either over the chain-and-diamond part of "
        "the lattice (A, B, D(A,B), E(D)) or over a mutually unrelated pool (object, A, B, G(A), H(G,B), AnyOf(...)) where "
        "specialization of mappings is not transitive; optional hidden/default/keyword-only (multi-word names)/*args; exclusive "
        "layers register a random subset of their overloads with exclusive=True; 40% of the layers with >= 2 overloads are MultiContexts "
        "(2-3 member contexts, optionally behind a LinkedContext) whose members hold the overloads and the exclusive marks; 20% of the "
        "overloads carry a registration history (the same decorated callable derived before under another convention, derived definitions "
        "changed through strip_hidden_parameters / insert_parameter / clone); calls with D/E/H instances and with values only "
        "outer layers accept; overloads are registered AND enumerated in the order of the family, which is random in C and runs "
        "through all permutations in O together with all member orders of MultiContext layers and two alternative registration histories; "
        "an identity census requires that no ParameterDefinition object belongs to two FunctionDefinitions; non-trivial = some layer has >= 2 candidates; distinct = distinct (family, call)")
TRUSTED = ["Model/Resolution.v (transcription; tied by this correspondence)",
           "harness/resolution_common.py: OrderedContext (get_functions returns the harness-chosen ordered list), probes, canonicalisation"]
ASSUMPTIONS = ["the sources of order are the iteration order of the collection returned by get_functions for each layer and the "
               "order of the register_function calls (with their exclusive= options) that built the layer, the order of the member contexts of a "
               "MultiContext layer, and what else was derived from the same decorated callable in the process (registration history)",
               "FunctionDefinition identities are unique"]
EXPLANATION = ("proof that the model's outcome is invariant under any permutation of every layer + differential check of the model "
               "against the real runner under harness-chosen enumeration orders + exhaustive permutation oracle on the real runner")
ALLOWED_AXIOMS = []


def pairs(run, n):
    for fam, call in rc.load_corpus("C06"):
        yield fam, call
    for i in range(n):
        fam = rc.gen_family_dense(run.rng) if i % 4 else rc.gen_family(run.rng)
        for _ in range(2):
            call = rc.gen_call_dense(run.rng, fam) if i % 4 else rc.gen_call(run.rng, fam)
            yield rc.shuffled(run.rng, fam), call


def correspondence(run):
    def judge(family, call, obs, log, sp):
        """a disagreement with the order-free model is a C06 violation exactly when some other enumeration
        order of the same family gives another outcome; otherwise it is reported as a model mismatch"""
        seen = rc.order_outcomes(run.rng, family, call)
        if len(seen) > 1:
            return ("violation", "outcome depends on the enumeration or registration order of a layer: " + rc.describe(obs, log, sp),
                    {"outcomes_by_order": list(seen.values()), "required": "one outcome for every enumeration order"})
        return ("mismatch", "Model/Resolution.v and runner.py disagree on a call, identically for every enumeration order "
                            "(not an order dependence; see C05): " + rc.describe(obs, log, sp), {})
    rc.correspond(run, pairs(run, run.n(900, 12000)), None, "C06", judge=judge)


def check_orders(run, fam, call):
    seen = rc.order_outcomes(run.rng, fam, call)
    run.count("orders:%s" % ("one" if len(seen) == 1 else "several"))
    if any(v["shared_parameter_objects"] for v in seen.values()):
        run.fail("violation", rc.SHARED_WHAT, {"family": fam, "call": call, "outcomes_by_order": list(seen.values())[:3],
                                                "required": "one outcome for every registration history"})
        return False
    if len(seen) > 1:
        outs = list(seen.values())
        run.fail("violation", "outcome depends on the enumeration / registration / member order of a layer or on the registration history (%s vs %s)" % (
            outs[0]["outcome"][1] if outs[0]["outcome"][0] == "err" else "an overload runs",
            outs[1]["outcome"][1] if outs[1]["outcome"][0] == "err" else "an overload runs"),
            {"family": fam, "call": call, "outcomes_by_order": outs,
             "required": "one outcome for every enumeration order"})
        return False
    return True


def oracle(run, deep):
    hashseed_oracle(run)
    reuse_oracle(run)
    for fam, call in rc.load_corpus("C06"):
        check_orders(run, fam, call)
    n = run.n(170, 5000) * (3 if deep else 1)
    for i in range(n):
        fam = rc.gen_family_dense(run.rng) if i % 5 else rc.gen_family(run.rng)
        try:
            rc.build_chain(fam)
        except rc.BadFamily:
            continue
        call = rc.gen_call_dense(run.rng, fam) if i % 5 else rc.gen_call(run.rng, fam)
        check_orders(run, fam, call)


# ---- evaluation order of eager keyword arguments must not depend on the string-hash seed of the process ----
def hashseed_oracle(run):
    import json
    import os
    import subprocess
    import sys
    helper = os.path.join(os.path.dirname(os.path.dirname(os.path.abspath(__file__))), "c06_hashseed.py")
    gen_seed = str(run.rng.randrange(10 ** 6))
    outs = {}
    for h in ("0", "1", "2", "77"):
        env = dict(os.environ, PYTHONHASHSEED=h)
        try:
            p = subprocess.run([sys.executable, "-W", "ignore", helper, gen_seed], capture_output=True, text=True, timeout=300, env=env)
            outs[h] = json.loads(p.stdout.strip().split("\n")[-1])
        except Exception as e:
            run.note("hash-seed oracle (PYTHONHASHSEED=%s) could not be run: %r" % (h, e))
    run.count("hashseed:processes", len(outs))
    if not outs:
        return
    ref_h = sorted(outs)[0]
    for i, (desc, outcome, log) in enumerate(outs[ref_h]):
        run.case(("hashseed", gen_seed, i), nontrivial=True)
        per = {h: outs[h][i][1:] for h in outs if i < len(outs[h])}
        if len({repr(v) for v in per.values()}) > 1:
            run.fail("violation", "the outcome / evaluation order of a call with several eager keyword arguments depends on the "
                                  "string-hash seed of the process (PYTHONHASHSEED)",
                     {"hashseed_generator_seed": gen_seed, "case": i, "call": desc, "by_PYTHONHASHSEED": per,
                      "required": "one outcome; keyword arguments evaluated in source order"})
            return
        if log != sorted(log):
            run.fail("violation", "eager keyword arguments are not evaluated in source order",
                     {"hashseed_generator_seed": gen_seed, "case": i, "call": desc, "log": log, "required": sorted(log)})
            return


# ---- one parsed statement reused over contexts that register different things ---------------------------------
def _reuse_contexts(rng):
    """contexts from a small grammar: bare | stdlib, optionally with an own #finalize, an own f, a child level"""
    import yaql
    from yaql.language import contexts as C
    out = []
    for base_kind in ("bare", "stdlib", "bare", "stdlib"):
        ctx = C.Context() if base_kind == "bare" else yaql.create_context()
        desc = [base_kind]
        if rng.random() < 0.4:
            ctx = ctx.create_child_context()
            tag = "fin%d" % len(out)
            ctx.register_function((lambda t: (lambda x: [t, x]))(tag), name="#finalize")
            desc.append("own #finalize")
        if rng.random() < 0.5:
            ctx = ctx.create_child_context()
            tag = "f%d" % len(out)
            ctx.register_function((lambda t: (lambda *a: [t, len(a)]))(tag), name="f")
            desc.append("own f")
        if rng.random() < 0.3:
            ctx = ctx.create_child_context()
            desc.append("child")
        out.append((" + ".join(desc), ctx))
    return out


REUSE_TEXTS = ["1", "'a'", "f(1)", "f()", "[1, 2]", "$", "f(1).f()", "1 + 2", "len([1])", "null"]


def _evaluate(stmt, ctx):
    try:
        r = stmt.evaluate(context=ctx)
        return ["ok", repr(list(r) if hasattr(r, "__next__") else r)]
    except Exception as e:
        return ["error", type(e).__name__]


def reuse_oracle(run):
    """one parsed statement evaluated over a history of contexts: every outcome must be the one a freshly parsed
    statement gives on that context (resolution of the names it calls - including the implicit #finalize - must not
    depend on what the statement object met before)"""
    rng = run.rng
    eng = rc.engine()
    for _ in range(run.n(40, 400)):
        pool = _reuse_contexts(rng)
        text = rng.choice(REUSE_TEXTS)
        history = [rng.randrange(len(pool)) for _ in range(rng.choice([2, 3, 3, 4]))]
        stmt = eng(text)
        for step, k in enumerate(history):
            desc, ctx = pool[k]
            got = _evaluate(stmt, ctx)
            want = _evaluate(eng(text), ctx)
            run.count("reuse:evaluations")
            if got != want:
                run.fail("violation", "a parsed statement that is evaluated again resolves differently from a freshly parsed one: the "
                                      "outcome depends on the contexts the statement object was evaluated on before",
                         {"statement": text, "contexts": [d for d, _ in pool], "history": history, "step": step,
                          "outcome_reused": got, "outcome_fresh": want,
                          "required": "the outcome of a freshly parsed statement on that context"})
                return


def replay(run, data):
    d = data["data"]
    if "hashseed_generator_seed" in d or "statement" in d:
        before = len(run.failures)
        hashseed_oracle(run) if "hashseed_generator_seed" in d else reuse_oracle(run)
        return len(run.failures) == before
    seen = rc.order_outcomes(run.rng, d["family"], d["call"])
    return len(seen) == 1 and not any(v["shared_parameter_objects"] for v in seen.values())
