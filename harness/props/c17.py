"""C17 - context trees resolve variables and functions layer by layer.

C: random forests mixing Context / MultiContext / LinkedContext and random op
histories; after every op the canonical observation of EVERY context created so
far (ctx[n], n in ctx, keys(), get_functions, collect_functions for a pool of
names) is hashed; the model (Model/Contexts.v) computes the same hash inside
Coq.  The model is proved (Props/C17.v) to refine the flattened-layers spec, so
a disagreement is a history on which the implementation leaves that spec."""
import itertools

import gal
from yaql.language import contexts, specs

GEN = []
RULE = ("random context forests (<=9 constructor ops over the three classes, members/linked/parents drawn from "
        "all earlier contexts) followed by random op histories (set/del/child/register/exclusive register/"
        "delete_function, <=30 ops); after EVERY op all contexts are observed for every name of the pool; "
        "non-trivial = the history contains a MultiContext or LinkedContext and at least one write; distinct = "
        "distinct op sequence")
TRUSTED = ["Model/Contexts.v is a hand transcription of yaql/language/contexts.py; tied by this correspondence",
           "observation hash (polynomial hash mod 2^63 (Uint63 primitive integers) computed identically in Python and in Gallina)"]
ASSUMPTIONS = ["context objects are only manipulated through the public ContextBase interface",
               "values stored in contexts are opaque (modelled as integers); NO_VALUE is never stored"]
EXPLANATION = "proof of refinement to flattened layers on the model + per-step differential check of model vs contexts.py"

NAMES = ["x", "$x", "y", "$", "$1", "", "ab", "$ab", "q_", "$$x", "$$", "$$1", "$ x", "1"]
FNAMES_REG = ["f", "g", "f_", "fetch_item", "fetchItem"]
FNAMES_Q = ["f", "g", "f_", "g__", "fetch_item", "fetchItem", "fetch_item_"]
_CAMEL_RE = __import__("re").compile(r"(?!^)_(\w)", flags=__import__("re").UNICODE)


def queries(camel):
    """[(name the model is asked, name the real context is asked, use_convention)].  With a naming convention
    installed, a lookup with use_convention=True first rewrites the (right-stripped) name; the harness does the
    rewriting itself (independent of yaql.language.conventions) and asks the model for the rewritten name."""
    out = [(n, n, False) for n in FNAMES_Q]
    for n in FNAMES_Q:
        m = _CAMEL_RE.sub(lambda t: t.group(1).upper(), n.rstrip("_")) if camel else n
        out.append((m, n, True))
    return out
HASH_MOD = 1 << 63


def hash_list(xs):
    acc = 17
    for v in xs:
        acc = (acc * 1000003 + v + 7) % HASH_MOD
    return acc


def ser_fids(fs, ids):
    l = sorted(ids[id(f)] for f in fs)
    return [len(l)] + l


def observe_ctx(c, ids, camel=False):
    out = [1000]
    for n in NAMES:
        v = c[n]
        out += [0 if v is None else v, 1 if n in c else 0]
    out.append(2000)
    for k in sorted(c.keys()):
        out += [len(k)] + [ord(ch) for ch in k]
    for _, n, use in queries(camel):
        fs, ex = c.get_functions(n, use_convention=use)
        out += [3000] + ser_fids(fs, ids) + [1 if ex else 0]
        layers = c.collect_functions(n, use_convention=use)
        out += [4000, len(layers)]
        for l in layers:
            out += ser_fids(l, ids)
        for tag, want in ((5000, 0), (6000, 1)):
            layers = c.collect_functions(n, predicate=lambda fd, ctx, want=want: ids[id(fd)] % 2 == want, use_convention=use)
            out += [tag, len(layers)]
            for l in layers:
                out += ser_fids(l, ids)
    return out


def gen_ops(rng, nctor, nops):
    ops, nctx = [], 0
    fds = [(rng.choice(FNAMES_REG), i + 1) for i in range(5)]

    def ctor():
        nonlocal nctx
        r = rng.random()
        if nctx == 0 or r < 0.35:
            p = None if nctx == 0 or rng.random() < 0.3 else rng.randrange(nctx)
            if rng.random() < 0.3:
                # Context(parent, data=value): the layer defines `$` - also when the value is None
                ops.append(("plaindata", p, rng.choice([0, 0, 5, 7])))
            else:
                ops.append(("plain", p))
        elif r < 0.6:
            k = rng.choice([1, 2, 2, 3])
            ops.append(("multi", [rng.randrange(nctx) for _ in range(k)]))
        elif r < 0.85:
            p = None if rng.random() < 0.15 else rng.randrange(nctx)
            ops.append(("linked", p, rng.randrange(nctx)))
        else:
            ops.append(("child", rng.randrange(nctx)))
        nctx += 1

    def families():
        """two (or three) parent chains with the same names bound at equal depth, children of the parents in an order
        in which NON-adjacent members share a parent, and a multi-context over them (in that order)"""
        nonlocal nctx
        if nctx == 0:
            ops.append(("plain", None))
            nctx += 1
        roots = []
        for _ in range(rng.choice([2, 2, 3])):
            base = rng.randrange(nctx) if rng.random() < 0.5 else None
            ops.append(("plain", base))
            roots.append(nctx)
            nctx += 1
            for nm in rng.sample(NAMES, 3):
                ops.append(("set", roots[-1], nm, rng.randrange(1, 50)))
            if rng.random() < 0.5:                       # one more level with the same names
                ops.append(("child", roots[-1]))
                roots[-1] = nctx
                nctx += 1
                ops.append(("set", roots[-1], rng.choice(NAMES), rng.randrange(1, 50)))
        pattern = rng.choice([[0, 1, 0], [0, 1, 0, 1], [0, 0, 1, 0], [1, 0, 1], [0, 1, 2 % len(roots), 0], [0, 1, 1, 0]])
        members = []
        for r in pattern:
            ops.append(("child", roots[r % len(roots)]))
            members.append(nctx)
            nctx += 1
        ops.append(("multi", members))
        nctx += 1
        if rng.random() < 0.5:
            ops.append(("child", nctx - 1))
            nctx += 1

    for _ in range(nctor):
        if rng.random() < 0.12 and nctx < 9:
            families()
        else:
            ctor()
        # sprinkle writes between constructions so that structure is built over live data
        if rng.random() < 0.5:
            ops.append(("set", rng.randrange(nctx), rng.choice(NAMES), rng.randrange(1, 50)))
    for _ in range(nops):
        r = rng.random()
        c = rng.randrange(nctx)
        if r < 0.3:
            ops.append(("set", c, rng.choice(NAMES), rng.choice([0, 0] + list(range(1, 40)))))
        elif r < 0.45:
            ops.append(("del", c, rng.choice(NAMES)))
        elif r < 0.7:
            ops.append(("reg", c, rng.choice(fds), rng.random() < 0.3))
        elif r < 0.8:
            ops.append(("delfn", c, rng.choice(fds)))
        elif r < 0.9 and nctx < 12:
            ops.append(("child", c))
            nctx += 1
        elif nctx < 12:
            ctor()
        else:
            ops.append(("set", c, rng.choice(NAMES), rng.randrange(1, 50)))
    return ops


def is_camel(ops):
    return bool(ops) and ops[0][0] == "camel"


def strip_marker(ops):
    return ops[1:] if is_camel(ops) else ops


def run_impl(ops):
    camel, ops = is_camel(ops), strip_marker(ops)
    """Execute the op list on the real classes; returns [(outcome, hash)] per op, plus raw
    observations (for replay files)."""
    env, res, fdobj, ids = [], [], {}, {}
    from yaql.language import conventions
    conv = conventions.CamelCaseConvention() if camel else None

    def fd(spec):
        if spec not in fdobj:
            o = specs.FunctionDefinition(spec[0], lambda: None)
            fdobj[spec] = o
            ids[id(o)] = spec[1]
        return fdobj[spec]

    for op in ops:
        out = 0
        try:
            k = op[0]
            if k == "plain":
                env.append(contexts.Context(None if op[1] is None else env[op[1]], convention=conv))
            elif k == "plaindata":
                env.append(contexts.Context(None if op[1] is None else env[op[1]], data=(None if op[2] == 0 else op[2]),
                                            convention=conv))
            elif k == "multi":
                env.append(contexts.MultiContext([env[i] for i in op[1]], convention=conv))
            elif k == "linked":
                env.append(contexts.LinkedContext(None if op[1] is None else env[op[1]], env[op[2]], convention=conv))
            elif k == "child":
                env.append(env[op[1]].create_child_context())
            elif k == "set":
                env[op[1]][op[2]] = None if op[3] == 0 else op[3]
            elif k == "del":
                del env[op[1]][op[2]]
            elif k == "reg":
                env[op[1]].register_function(fd(op[2]), exclusive=op[3])
            elif k == "delfn":
                env[op[1]].delete_function(fd(op[2]))
        except KeyError:
            out = 1
        except Exception as e:        # any other exception class is outside the model: reported
            out = 2
            if op[0] in ("plain", "plaindata", "multi", "linked", "child"):
                res.append((out, -1, "%s: %r" % (type(e).__name__, e)))
                return res, False
        try:
            raw = [x for c in env for x in observe_ctx(c, ids, camel)]
            res.append((out, hash_list(raw), None))
        except Exception as e:
            res.append((out, -2, "observation raised %s: %r" % (type(e).__name__, e)))
            return res, False
    return res, True


def cop_term(op, nctx_before):
    """One API call = one or two model operations."""
    if op[0] == "plaindata":
        return "(Two %s %s)" % (gal.app("ONewPlain", gal.opt(op[1], gal.nat)),
                                 gal.app("OSet", gal.nat(nctx_before), gal.s("$"), gal.z(op[2])))
    return "(One %s)" % op_term(op)


def cop_terms(ops):
    out, n = [], 0
    for o in ops:
        out.append(cop_term(o, n))
        if o[0] in ("plain", "plaindata", "multi", "linked", "child"):
            n += 1
    return out


def op_term(op):
    k = op[0]
    if k == "plain":
        return gal.app("ONewPlain", gal.opt(op[1], gal.nat))
    if k == "multi":
        return gal.app("ONewMulti", gal.natlist(op[1]))
    if k == "linked":
        return gal.app("ONewLinked", gal.opt(op[1], gal.nat), gal.nat(op[2]))
    if k == "child":
        return gal.app("OChild", gal.nat(op[1]))
    if k == "set":
        return gal.app("OSet", gal.nat(op[1]), gal.s(op[2]), gal.z(op[3]))
    if k == "del":
        return gal.app("ODel", gal.nat(op[1]), gal.s(op[2]))
    fdt = lambda f: gal.pair(gal.s(f[0]), gal.z(f[1]))
    if k == "reg":
        return gal.app("OReg", gal.nat(op[1]), fdt(op[2]), gal.boolean(op[3]))
    if k == "delfn":
        return gal.app("ODelFn", gal.nat(op[1]), fdt(op[2]))
    raise ValueError(op)


HEADER = "From YV Require Import Model.Contexts."


def case_term(ops, res):
    camel, ops = is_camel(ops), strip_marker(ops)
    return "{| cc_names := %s; cc_fnames := %s; cc_ops := %s; cc_obs := %s |}" % (
        gal.lst(gal.s(n) for n in NAMES), gal.lst(gal.s(m) for m, _, _ in queries(camel)),
        gal.lst(cop_terms(ops)),
        gal.lst(gal.pair(gal.z(a), gal.z(b)) for a, b, _ in res))


def first_divergence(run, ops, res):
    camel, ops = is_camel(ops), strip_marker(ops)
    """Index of the first op after which model and implementation differ."""
    txt = run.coq_eval(HEADER, "runc init_state %s %s %s" % (
        gal.lst(gal.s(n) for n in NAMES), gal.lst(gal.s(m) for m, _, _ in queries(camel)), gal.lst(cop_terms(ops))))
    import re
    pairs = re.findall(r"\(\s*(-?\d+)%?Z?\s*,\s*(-?\d+)%?Z?\s*\)", txt.replace("\n", " "))
    model = [(int(a), int(b)) for a, b in pairs]
    for i, (m, r) in enumerate(itertools.zip_longest(model, res)):
        if m is None or r is None or m != (r[0], r[1]):
            return i, model
    return None, model


def shrink(run, ops):
    """Greedy delta-debugging on the op list: drop ops while model and implementation still differ."""
    def differs(cand):
        try:
            res, _ = run_impl(cand)
        except Exception:
            return False
        return bool(run.coq_mismatches(HEADER, "ccase", "ccase_ok", [case_term(cand, res)]))

    def renumber(cand, removed_ctor_index):
        return None   # ops that create contexts are not removed (indices would shift)

    cur = list(ops)
    i = len(cur) - 1
    budget = 30
    while i >= 0 and budget > 0:
        if cur[i][0] in ("set", "del", "reg", "delfn") and i > 0:
            cand = cur[:i] + cur[i + 1:]
            budget -= 1
            if differs(cand):
                cur = cand
        i -= 1
    return cur


_reported = {}


def report(run, ops, res, why):
    key = why.split(":")[0]
    _reported[key] = _reported.get(key, 0) + 1
    if _reported[key] > 1:
        run.note("further failing history of class %r not shrunk (%d so far)" % (key, _reported[key]))
        return
    try:
        small = shrink(run, ops)
    except Exception:
        small = ops
    res2, _ = run_impl(small)
    try:
        step, model = first_divergence(run, small, res2)
    except Exception as e:
        step, model = None, repr(e)
    run.fail("violation",
             "context history on which contexts.py leaves the flattened-layers model: %s" % why,
             {"ops": small, "first_divergent_step": step,
              "divergent_op": small[step] if step is not None and step < len(small) else None,
              "impl_per_step": [(a, b, c) for a, b, c in res2], "model_per_step": model,
              "theorems": ["C17_get_data", "C17_collect", "C17_history"],
              "how_to_read": "per step: (outcome 0 ok/1 KeyError/2 other exception, hash of all observations)"})


def correspondence(run):
    n = run.n(400, 6000)
    cases, meta = [], []
    corpus = load_corpus()
    for i in range(len(corpus) + n):
        if i < len(corpus):
            ops = corpus[i]
        else:
            ops = gen_ops(run.rng, run.rng.randrange(2, 10), run.rng.randrange(0, 31))
            if run.rng.random() < 0.5:
                ops = [("camel",)] + ops        # every context carries the CamelCase naming convention
        res, complete = run_impl(ops)
        kinds = {o[0] for o in ops}
        run.case(ops, nontrivial=bool(kinds & {"multi", "linked"}) and bool(kinds & {"set", "reg"}))
        for o in ops:
            run.count("op:" + o[0])
        for r in res:
            run.count("outcome:%d" % r[0])
        if i % 97 == 0:
            run.sample({"ops": ops, "impl_per_step": [(a, b) for a, b, _ in res]})
        if not complete:
            report(run, ops, res, res[-1][2])
            continue
        cases.append(case_term(ops, res))
        meta.append((ops, res))
    bad = run.coq_mismatches(HEADER, "ccase", "ccase_ok", cases, shard=100)
    for i in bad:
        report(run, meta[i][0], meta[i][1], "observations differ")
    mixed_conventions(run)


# ---- mixed naming conventions: every context may carry its own ------------------------------------------------------
CONV_FNS = {"camel": lambda a: _CAMEL_RE.sub(lambda t: t.group(1).upper(), a), "python": lambda a: a, "shout": lambda a: a.upper()}
VFNAMES_REG = ["f", "F", "g", "fetch_item", "fetchItem", "FETCH_ITEM", "FETCHITEM"]
VHEADER = "From YV Require Import Model.Contexts Model.ContextsConv."
CTORS = ("plain", "plaindata", "multi", "linked", "child")


def conv_objects():
    from yaql.language import conventions

    class Shout(conventions.Convention):
        def convert_function_name(self, name):
            return name.upper()

        def convert_parameter_name(self, name):
            return name.upper()
    return {"camel": conventions.CamelCaseConvention(), "python": conventions.PythonConvention(), "shout": Shout(), None: None}


def gen_conv_ops(rng):
    ops = gen_ops(rng, rng.randrange(2, 9), rng.randrange(0, 22))
    fds = [(rng.choice(VFNAMES_REG), i + 1) for i in range(6)]
    out, tags = [], []
    for o in ops:
        if o[0] in ("reg", "delfn"):
            o = (o[0], o[1], rng.choice(fds)) + tuple(o[3:])
        out.append(o)
        if o[0] in CTORS:
            tags.append(None if o[0] == "child" else rng.choice([None, None, "camel", "python", "shout"]))
    return out, tags


class _Node:
    __slots__ = ("eff", "parent")

    def __init__(self, eff, parent):
        self.eff, self.parent = eff, parent


def _multi_node(members, tag):
    """MultiContext(members, convention=tag): the convention given, else the first member's, else - like every context
    without one - the PARENT's, the parent being none / the single parent / an implicit multi-context of the parents"""
    conv = tag if tag is not None else members[0].eff
    parents = [m.parent for m in members if m.parent is not None]
    parent = None if not parents else parents[0] if len(parents) == 1 else _multi_node(parents, None)
    return _Node(conv if conv is not None else (parent.eff if parent is not None else None), parent)


def _linked_node(par, linked, tag):
    """LinkedContext(par, linked, convention=tag): its parent is par, or - when the linked context has ancestors - a
    linked context over them built with the same arguments"""
    parent = _linked_node(par, linked.parent, tag) if linked.parent is not None else par
    return _Node(tag if tag is not None else (parent.eff if parent is not None else None), parent)


def effective_conventions(ops, tags):
    """The documented rule, computed by the harness itself: a context created without a convention takes its parent's
    (a MultiContext first its first member's); a child context takes the convention of the context it was created from.
    Returns (convention per context, conversion table for the plain contexts)."""
    nodes, table, pid = [], [], 0
    for o in ops:
        if o[0] not in CTORS:
            continue
        tag = tags[len(nodes)]
        if o[0] in ("plain", "plaindata"):
            parent = nodes[o[1]] if o[1] is not None else None
            node = _Node(tag if tag is not None else (parent.eff if parent is not None else None), parent)
        elif o[0] == "linked":
            node = _linked_node(nodes[o[1]] if o[1] is not None else None, nodes[o[2]], tag)
        elif o[0] == "multi":
            node = _multi_node([nodes[i] for i in o[1]], tag)
        else:
            node = _Node(nodes[o[1]].eff, nodes[o[1]])
        nodes.append(node)
        if o[0] in ("plain", "plaindata", "child"):
            if node.eff is not None:
                for a in sorted({n.rstrip("_") for n in FNAMES_Q}):
                    b = CONV_FNS[node.eff](a)
                    if b != a:
                        table.append((pid, a, b))
            pid += 1
    return [n.eff for n in nodes], table


def observe_cv(c, ids):
    out = []
    for n in FNAMES_Q:
        fs, ex = c.get_functions(n, use_convention=True)
        out += [3000] + ser_fids(fs, ids) + [1 if ex else 0]
        layers = c.collect_functions(n, use_convention=True)
        out += [4000, len(layers)]
        for l in layers:
            out += ser_fids(l, ids)
    return out


def run_impl_conv(ops, tags):
    env, res, fdobj, ids = [], [], {}, {}
    conv = conv_objects()

    def fd(spec):
        if spec not in fdobj:
            o = specs.FunctionDefinition(spec[0], lambda: None)
            fdobj[spec] = o
            ids[id(o)] = spec[1]
        return fdobj[spec]
    for op in ops:
        out = 0
        try:
            k = op[0]
            cv = conv[tags[len(env)]] if k in CTORS and k != "child" else None
            if k == "plain":
                env.append(contexts.Context(None if op[1] is None else env[op[1]], convention=cv))
            elif k == "plaindata":
                env.append(contexts.Context(None if op[1] is None else env[op[1]], data=(None if op[2] == 0 else op[2]), convention=cv))
            elif k == "multi":
                env.append(contexts.MultiContext([env[i] for i in op[1]], convention=cv))
            elif k == "linked":
                env.append(contexts.LinkedContext(None if op[1] is None else env[op[1]], env[op[2]], convention=cv))
            elif k == "child":
                env.append(env[op[1]].create_child_context())
            elif k == "set":
                env[op[1]][op[2]] = None if op[3] == 0 else op[3]
            elif k == "del":
                del env[op[1]][op[2]]
            elif k == "reg":
                env[op[1]].register_function(fd(op[2]), exclusive=op[3])
            elif k == "delfn":
                env[op[1]].delete_function(fd(op[2]))
        except KeyError:
            out = 1
        except Exception as e:
            return res + [(2, -1, "%s: %r" % (type(e).__name__, e))], False
        try:
            res.append((out, hash_list([x for c in env for x in observe_cv(c, ids)]), None))
        except Exception as e:
            return res + [(out, -2, "observation raised %s: %r" % (type(e).__name__, e))], False
    return res, True


def vcase_term(ops, tags, res):
    _, table = effective_conventions(ops, tags)
    return "{| vc_tab := %s; vc_fnames := %s; vc_ops := %s; vc_obs := %s |}" % (
        gal.lst("(%s, (%s, %s))" % (gal.nat(p), gal.s(a), gal.s(b)) for p, a, b in table),
        gal.lst(gal.s(n) for n in FNAMES_Q), gal.lst(cop_terms(ops)),
        gal.lst(gal.pair(gal.z(a), gal.z(b)) for a, b, _ in res))


def conv_differs(run, ops, tags):
    try:
        res, complete = run_impl_conv(ops, tags)
    except Exception:
        return False
    if not complete:
        return True
    return bool(run.coq_mismatches(VHEADER, "vcase", "vcase_ok", [vcase_term(ops, tags, res)]))


def shrink_conv(run, ops, tags):
    """drop non-constructor ops from the end, then from anywhere, while the disagreement persists"""
    cur = list(ops)
    changed, budget = True, 40
    while changed and budget > 0:
        changed = False
        for i in range(len(cur) - 1, -1, -1):
            if cur[i][0] in CTORS:
                continue
            cand = cur[:i] + cur[i + 1:]
            budget -= 1
            if conv_differs(run, cand, tags):
                cur, changed = cand, True
                break
            if budget <= 0:
                break
    return cur


def mixed_conventions(run):
    n = run.n(250, 4000)
    cases, meta = [], []
    for _ in range(n):
        ops, tags = gen_conv_ops(run.rng)
        res, complete = run_impl_conv(ops, tags)
        kinds = {o[0] for o in ops}
        run.case(("conv", tuple(map(repr, ops)), tuple(tags)),
                 nontrivial=bool(kinds & {"multi", "linked"}) and "reg" in kinds and len({t for t in tags if t}) >= 2)
        run.count("mixed_convention_history")
        for t in tags:
            run.count("convention:%s" % t)
        if not complete:
            run.fail("violation", "a context operation / convention-aware lookup raised: %s" % res[-1][2], {"ops": ops, "conventions": tags})
            continue
        cases.append(vcase_term(ops, tags, res))
        meta.append((ops, tags, res))
    bad = run.coq_mismatches(VHEADER, "vcase", "vcase_ok", cases, shard=100)
    for i in bad[:3]:
        ops, tags, res = meta[i]
        small = shrink_conv(run, ops, tags)
        eff, table = effective_conventions(small, tags)
        run.fail("violation", "a lookup with use_convention=True does not return the layer-wise merge in which every member "
                              "context rewrites the name by its own naming convention",
                 {"ops": small, "conventions": tags, "effective_conventions": eff,
                  "conversion_table(pid, asked, rewritten)": table, "impl_per_step": [(a, b) for a, b, _ in run_impl_conv(small, tags)[0]],
                  "theorems": ["C17_convention_layer_functions", "C17_convention_collect", "C17_convention_only_members_matter"]})


def load_corpus():
    import json
    import os
    path = os.path.join(os.path.dirname(os.path.dirname(os.path.dirname(os.path.abspath(__file__)))), "corpus", "C17.json")
    if not os.path.exists(path):
        return []
    def fix(o):
        o = list(o)
        if o[0] == "camel":
            return ("camel",)
        if o[0] in ("reg", "delfn"):
            o[2] = tuple(o[2])
        return tuple(o)
    return [[fix(o) for o in ops] for ops in json.load(open(path))]


def replay(run, data):
    if "conventions" in data.get("data", {}):
        d = data["data"]
        ops = [tuple(tuple(x) if isinstance(x, list) and o[0] in ("reg", "delfn") and j == 2 else x
                     for j, x in enumerate(o)) for o in d["ops"]]
        return not conv_differs(run, ops, d["conventions"])
    ops = [tuple(tuple(x) if isinstance(x, list) and o[0] in ("reg", "delfn") and j == 2 else x
                 for j, x in enumerate(o)) for o in data["data"]["ops"]]
    res, complete = run_impl(ops)
    if not complete:
        return False
    return not run.coq_mismatches(HEADER, "ccase", "ccase_ok", [case_term(ops, res)])
