"""C07 - expressions cannot reach host objects except through granted members.

P: Props/C07.v (policy theorems over Model/Yaqlized.v for every settings value and
   name; finite theorem over the regenerated Gen/Effects.v: the only registered
   payloads that apply getattr / [] / call / format to a possibly-host value are
   the Yaqlized(...)-typed overloads, after _validate_name).
C: the policy: settings (switches x whitelist/blacklist entries: strings, compiled
   regexes, predicates, junk x remappings x flags) x member names of a probe class
   x the three access forms, through parsed text, `?.`, and hand-built expression
   trees (names the lexer refuses); observation = member the probe saw being
   reached | error class.  Chains `$obj.a.b()[c]` with auto-yaqlization.
O: canary sweep: every registered function / method / operator / member / index
   form applied to a NON-yaqlized canary (bare and nested in list/dict) in every
   argument position with attack strings as the other arguments."""
import collections
import collections.abc
import itertools
import types
import json
import os
import re

import gal
import yaql
from yaql import yaqlization
from yaql.language import exceptions as yexc
from yaql.language import expressions

import c07_sweep

GEN = ["effects", "charclass", "lexfacts"]
RULE = ("policy grid: every whitelist/blacklist entry of the pools (strings, regexes, predicates, junk) as singleton "
        "whitelist and blacklist x all probe names x 3 forms, every switch combination, remappings (str, 1-tuple, "
        "2-tuple; blacklisted or not) x sources/targets; then seeded random settings with multi-entry lists; routes: "
        "parsed text, `?.`, hand-built tree (for names the lexer refuses); chains of 1-4 accesses with auto-yaqlized "
        "results.  non-trivial = the object is yaqlized with the form's switch on and (a list or remapping is "
        "non-empty or the name begins with '_'); distinct = distinct (settings, form, name, route)")
TRUSTED = ["Model/Yaqlized.v is a hand transcription of yaqlized.py / yaqlization.py; tied by this correspondence",
           "regex search and predicate calls are oracles of the model; the harness supplies their truth table by calling "
           "the same compiled regex / predicate on the probe names",
           "harness/gen_effects.py (ast taint scanner; fail-closed: unknown constructs and unreadable sources are rows "
           "that make the obligation fail) decides which payload operations touch a possibly-host value",
           "the probe / canary classes record every __getattribute__/__getitem__/__call__ etc.; slots Python itself "
           "uses (listed in the evidence notes) are not counted as reaching a member"]
ASSUMPTIONS = ["host objects enter an evaluation only as data (context variables / `$`), not as registered functions",
               "whitelist/blacklist predicates and regexes are pure functions of the name",
               "an explicit attribute_remapping entry and an explicit whitelist entry are grants by the host: a remap "
               "target may begin with '_' and a whitelisted remap target stays reachable under its own name",
               "the static scan and the canary sweep cover the functions registered by yaql.create_context() with its "
               "default arguments; delegates mode (create_context(delegates=True) / allow_delegates), where the host "
               "deliberately lets expressions call callables found in data, and user-registered functions are outside",
               "scanner: values returned by yaql's own Delegate / Context calls inside a payload are yaql data (see "
               "harness/gen_effects.py, 'assumed')"]
EXPLANATION = ("proof that the modelled gate admits exactly the allowed members for all settings/names + differential "
               "check of the three yaqlized overloads against it + static and dynamic sweep that nothing else touches hosts")
LEVEL_NOTE = "partial: 'no other payload touches a host object' rests on the ast scanner (P, finite) and the canary sweep (O)"
ALLOWED_AXIOMS = []

HERE = os.path.dirname(os.path.dirname(os.path.dirname(os.path.abspath(__file__))))

# ---------------------------------------------------------------------------
# pools
# ---------------------------------------------------------------------------
REGEXES = [re.compile(p) for p in [r"^m_", r"oo", r"^_", r".", r"^$", r"x$", r"^[a-z]+$", r"__", r"^foo$", r"\d"]]
PREDS = [lambda n: n.startswith("m_"), lambda n: True, lambda n: False, lambda n: n.startswith("_"),
         str, lambda n: len(n) % 2 == 0, lambda n: "a" in n, lambda n: n == "foo"]
JUNK = [0, None, ("foo",), 3.5, b"foo"]
PUBLIC = ["foo", "bar", "m_foo", "x", "a1", "alias", "zed", "x_", "x__y", "né", "Foo", "getx"]
PRIVATE = ["_x", "_", "__x", "__class__", "__dict__", "__init__", "__yaqlization__", "_foo", "__globals__",
           "__getattribute__", "_m_foo"]
ODD = ["", " ", "{0.__class__}", "a b", "foo.bar", "1", "\U0001F600"]
NAMES = PUBLIC + PRIVATE + ODD
STR_ENTRIES = ["foo", "bar", "m_foo", "_x", "__class__", "alias", "zed", "", "x"]
FORMS = ["attr", "method", "index"]
PROTO_ATTRS = {"__yaqlization__", "__class__", "__unwrapped__"}

EXN = {"ERuntime": "ERuntime", "ENoMatch": "ENoMatch", "EAttribute": "EAttribute", "EKey": "EKey", "EIndex": "EIndex", "EType": "EType"}


def exn_class(e):
    if isinstance(e, yexc.ResolutionError):
        return "ENoMatch"
    if isinstance(e, KeyError):
        return "EKey"
    if isinstance(e, IndexError):
        return "EIndex"
    if isinstance(e, AttributeError):
        return "EAttribute"
    if isinstance(e, TypeError):
        return "EType"
    if isinstance(e, RuntimeError):
        return "ERuntime"
    return "Other:" + type(e).__name__


# ---------------------------------------------------------------------------
# settings: JSON-able description -> real keyword arguments / Gallina term
# entry  = ["s", text] | ["r", i] | ["p", i] | ["j", i]
# rvalue = ["s", target] | ["t1", target] | ["t2", target, [[k, k'], ...]]
# sargs  = {"attrs","methods","indexer","auto","white","black","remap":[[k, rvalue]...],"blr"}
# ---------------------------------------------------------------------------
class DynPred(object):
    """a predicate that reads live host state: the set `granted`, which the harness edits BETWEEN evaluations
    (entry ["d", i]; the objects are process-wide, shared by histories, engines, contexts and receivers)"""
    def __init__(self):
        self.granted = set()

    def __call__(self, name):
        return name in self.granted


DYN = [DynPred(), DynPred(), DynPred()]
DYN_BASE = 100            # model: EPred (DYN_BASE + i), truth table = the state at that step
CUR_DYN = {}              # state used by the reference reading (spec_match) for the step being explained


def set_dyn(state):
    for i, d in enumerate(DYN):
        d.granted = set((state or {}).get(str(i), (state or {}).get(i, ())))


def entry_obj(e):
    return {"s": lambda: e[1], "r": lambda: REGEXES[e[1]], "p": lambda: PREDS[e[1]], "j": lambda: JUNK[e[1]],
            "d": lambda: DYN[e[1]]}[e[0]]()


class ReIterable(object):
    """a host container class: iterable any number of times, neither list nor set"""
    def __init__(self, items):
        self._items = list(items)

    def __iter__(self):
        return iter(self._items)

    def __len__(self):
        return len(self._items)


class MappingView(collections.abc.Mapping):
    def __init__(self, d):
        self._d = dict(d)

    def __getitem__(self, k):
        return self._d[k]

    def __iter__(self):
        return iter(self._d)

    def __len__(self):
        return len(self._d)


# every shape in which a host may hand over a whitelist / blacklist: the settings are the SET of the entries
LIST_SHAPES = [
    ("list", list), ("tuple", tuple), ("set", set), ("frozenset", frozenset),
    ("dict_keys", lambda l: dict((x, None) for x in l).keys()),
    ("generator", lambda l: (x for x in l)), ("map", lambda l: map(lambda x: x, l)),
    ("filter", lambda l: filter(lambda x: True, l)), ("iter", lambda l: iter(l)),
    ("reiterable", ReIterable), ("deque", collections.deque), ("reversed", lambda l: reversed(list(l))),
    ("chain", lambda l: itertools.chain(l[:1], l[1:])), ("dict_values", lambda l: dict(enumerate(l)).values()),
]
REMAP_SHAPES = [("dict", dict), ("ordered", collections.OrderedDict), ("proxy", lambda d: types.MappingProxyType(dict(d))),
                ("mapping", MappingView)]


def rvalue_obj(v):
    if v[0] == "s":
        return v[1]
    if v[0] == "t1":
        return (v[1],)
    return (v[1], dict((a, b) for a, b in v[2]))


def kwargs_of(sa, shape=None):
    """shape: None (plain lists / dict, None when empty) or an index: whitelist, blacklist and remapping are
    delivered in LIST_SHAPES[shape % n] / LIST_SHAPES[(shape // 3) % n] / REMAP_SHAPES[shape % m] (also when empty)"""
    white = [entry_obj(e) for e in sa["white"]]
    black = [entry_obj(e) for e in sa["black"]]
    remap = dict((k, rvalue_obj(v)) for k, v in sa["remap"])
    if shape is None:
        white, black, remap = white or None, black or None, remap or None
    else:
        white = LIST_SHAPES[shape % len(LIST_SHAPES)][1](white)
        black = LIST_SHAPES[(shape // 3) % len(LIST_SHAPES)][1](black)
        remap = REMAP_SHAPES[shape % len(REMAP_SHAPES)][1](remap)
    return dict(yaqlize_attributes=sa["attrs"], yaqlize_methods=sa["methods"], yaqlize_indexer=sa["indexer"],
                auto_yaqlize_result=sa["auto"], whitelist=white, blacklist=black, attribute_remapping=remap,
                blacklist_remapped_attributes=sa["blr"])


def shape_names(shape):
    if shape is None:
        return "plain"
    return "%s/%s/%s" % (LIST_SHAPES[shape % len(LIST_SHAPES)][0], LIST_SHAPES[(shape // 3) % len(LIST_SHAPES)][0],
                         REMAP_SHAPES[shape % len(REMAP_SHAPES)][0])


def entry_term(e):
    if e[0] == "s":
        return gal.app("EStr", gal.s(e[1]))
    if e[0] == "r":
        return gal.app("ERegex", gal.nat(e[1]))
    if e[0] == "p":
        return gal.app("EPred", gal.nat(e[1]))
    if e[0] == "d":
        return gal.app("EPred", gal.nat(DYN_BASE + e[1]))
    return "EJunk"


def rvalue_term(v):
    if v[0] == "s":
        return gal.app("RStr", gal.s(v[1]))
    if v[0] == "t1":
        return gal.app("RTup1", gal.s(v[1]))
    return gal.app("RTup2", gal.s(v[1]), gal.lst(gal.pair(gal.s(a), gal.s(b)) for a, b in v[2]))


def yargs_term(sa):
    return ("{| a_attrs := %s; a_methods := %s; a_indexer := %s; a_auto := %s; a_white := %s; a_black := %s; "
            "a_remap := %s; a_blacklist_remapped := %s |}") % (
        gal.boolean(sa["attrs"]), gal.boolean(sa["methods"]), gal.boolean(sa["indexer"]), gal.boolean(sa["auto"]),
        gal.lst(entry_term(e) for e in sa["white"]), gal.lst(entry_term(e) for e in sa["black"]),
        gal.lst(gal.pair(gal.s(k), rvalue_term(v)) for k, v in sa["remap"]), gal.boolean(sa["blr"]))


def tables(names, settings_list=None, dyn=None):
    """truth tables of the regex / predicate oracles on the given names (only the regexes /
    predicates that occur in the given settings, when given); dyn: state of the dynamic predicates at this step"""
    names = sorted(set(names))
    rids, pids = range(len(REGEXES)), range(len(PREDS))
    if settings_list is not None:
        ents = [e for sa in settings_list if sa for e in sa["white"] + sa["black"]]
        rids = sorted(set(e[1] for e in ents if e[0] == "r"))
        pids = sorted(set(e[1] for e in ents if e[0] == "p"))
    rt = [(i, [n for n in names if REGEXES[i].search(n) is not None]) for i in rids]
    pt = [(i, [n for n in names if PREDS[i](n)]) for i in pids]
    if settings_list is not None:
        for i in sorted(set(e[1] for e in ents if e[0] == "d")):
            granted = set((dyn or {}).get(str(i), (dyn or {}).get(i, ())))
            pt.append((DYN_BASE + i, [n for n in names if n in granted]))
    return rt, pt


def table_term(t):
    return gal.lst(gal.pair(gal.nat(i), gal.lst(gal.s(n) for n in ns)) for i, ns in t)


FORM_TERM = {"attr": "FAttr", "method": "FMethod", "index": "FIndex"}


def outcome_term(o):
    return gal.app("Reach", gal.s(o[1])) if o[0] == "reach" else gal.app("Denied", o[1])


# ---------------------------------------------------------------------------
# reference reading of the policy in Python: used only to label a disagreement
# (which clause of the property fails) and to decide non-triviality; the verdict
# on a case is Coq's
# ---------------------------------------------------------------------------
def spec_settings(sa, via):
    if sa is None:
        return None
    black = list(sa["black"])
    if sa["blr"] or via:
        black += [["s", v[1]] for _, v in sa["remap"]]
    return dict(sa, black=black)


def spec_match(n, e):
    if e[0] == "s":
        return n == e[1]
    if e[0] == "r":
        return REGEXES[e[1]].search(n) is not None
    if e[0] == "p":
        return bool(PREDS[e[1]](n))
    if e[0] == "d":
        return n in set(CUR_DYN.get(str(e[1]), CUR_DYN.get(e[1], ())))
    return False


def spec_allowed(st, n):
    if n.startswith("_"):
        return False
    if st["white"]:
        return any(spec_match(n, e) for e in st["white"])
    return not any(spec_match(n, e) for e in st["black"])


def spec_access(form, st, n):
    if st is None or not st[{"attr": "attrs", "method": "methods", "index": "indexer"}[form]]:
        return ("denied", "ENoMatch")
    if not spec_allowed(st, n):
        return ("denied", "EKey" if form == "index" else "EAttribute")
    if form == "index":
        return ("reach", n)
    v = dict((k, v) for k, v in st["remap"]).get(n, ["s", n])
    if v[0] == "s":
        return ("reach", v[1])
    if form == "attr":
        return ("denied", "EType")
    return ("denied", "EIndex") if v[0] == "t1" else ("reach", v[1])


# ---------------------------------------------------------------------------
# the probe
# ---------------------------------------------------------------------------
# the receiver's own indexing protocol: answers; no __getitem__ at all; __getitem__ for ints only (TypeError for a
# string key, e.g. a position-indexed record); __getitem__ that raises its own KeyError / IndexError / AttributeError
PROTOS = ["value", "none", "int_only", "keyerror", "indexerror", "attrerror"]
PROTO_ERR = {"keyerror": KeyError, "indexerror": IndexError, "attrerror": AttributeError}
PROTO_TERM = {"value": "ISubscript", "keyerror": "ISubscript", "indexerror": "ISubscript", "attrerror": "ISubscript",
              "none": "INoStr", "int_only": "INoStr"}


def proto_getitem(proto, record, answer):
    def __getitem__(self, k):
        if proto == "int_only" and not isinstance(k, int):
            raise TypeError("record indices must be integers, not %s" % type(k).__name__)
        record(self, k)
        if proto in PROTO_ERR:
            raise PROTO_ERR[proto](k)
        return answer(self)
    return __getitem__


def make_probe(log, depth, kid_factory, variant="plain", proto="value"):
    """An object that records every attribute / item / call access into log as
    (depth, kind, name) and answers every member with the next probe."""
    state = {"kid": None}

    def kid():
        if state["kid"] is None:
            state["kid"] = kid_factory(depth + 1) if kid_factory else Leaf(log, depth + 1)
        return state["kid"]

    class Probe(object):
        def __getattribute__(self, n):
            log.append((depth, "A", n))
            if n in ("__yaqlization__", "__class__", "__dict__"):
                return object.__getattribute__(self, n)
            if n == "__unwrapped__":
                raise AttributeError(n)      # yaql's marker on its own lambda wrappers: a host object has none
            return kid()

        if proto != "none":
            __getitem__ = proto_getitem(proto, lambda self, k: log.append((depth, "I", k)), lambda self: kid())

        def __call__(self, *a, **k):
            log.append((depth, "C", "()"))
            return self

        if variant == "frozen":
            def __setattr__(self, n, v):
                raise AttributeError("read-only probe")

    if variant == "builtin":
        Probe.__module__ = int.__module__
    return Probe()


class Leaf(object):
    def __init__(self, log, depth):
        self._log, self._depth = log, depth

    def __call__(self, *a, **k):
        self._log.append((self._depth, "C", "()"))
        return self


ENGINE = yaql.YaqlFactory().create()
_CTX = []


def base_context():
    if not _CTX:
        _CTX.append(yaql.create_context())
    return _CTX[0]


def subst_tree(form, route, name):
    """Expression tree for the access form with `name`; text routes go through the
    real lexer/parser, route 'tree' builds the node by hand (names that cannot be written)."""
    if route == "text":
        text = {"attr": "$obj.%s", "method": "$obj.%s()", "index": "$obj[%s]"}[form] % name
        return ENGINE(text)
    if route == "elvis":
        text = {"attr": "$obj?.%s", "method": "$obj?.%s()"}[form] % name
        return ENGINE(text)
    if route == "var":
        return ENGINE("$obj[$k]")
    st = ENGINE({"attr": "$obj.zzz", "method": "$obj.zzz()", "index": "$obj[zzz]"}[form])
    node = st.expression.args[1]
    if form == "method":
        node.name = name
    else:
        node.value = name
    return st


_lex_cache = {}


def lexable(form, name):
    key = (form, name)
    if key not in _lex_cache:
        ok = False
        try:
            st = subst_tree(form, "text", name)
            node = st.expression
            if isinstance(node, expressions.Function) and len(node.args) == 2:
                a = node.args[1]
                if form == "method":
                    ok = type(a) is expressions.Function and a.name == name and not a.args
                else:
                    ok = isinstance(a, expressions.KeywordConstant) and a.value == name
                ok = ok and isinstance(node.args[0], expressions.GetContextValue)
                ok = ok and node.name == ("#indexer" if form == "index" else "#operator_.")
        except Exception:
            ok = False
        _lex_cache[key] = ok
    return _lex_cache[key]


def routes_for(form, name):
    r = ["tree"]
    if lexable(form, name):
        r.append("text")
        if form != "index":
            r.append("elvis")
    if form == "index":
        r.append("var")
    return r


def attach(obj, sa, via, on_class=False, shape=None, deco=False):
    if sa is None:
        return
    target = type(obj) if on_class else obj
    if via:
        if deco:
            yaqlization.yaqlize(**kwargs_of(sa, shape))(target)       # decorator form
        else:
            yaqlization.yaqlize(target, **kwargs_of(sa, shape))
    else:
        st = yaqlization.build_yaqlization_settings(**kwargs_of(sa, shape))
        if on_class:
            setattr(target, yaqlization.YAQLIZATION_ATTR, st)
        else:
            object.__setattr__(target, yaqlization.YAQLIZATION_ATTR, st)


def members_touched(log, success):
    """non-protocol accesses; on success the LAST access of the root produced the value, whatever its name"""
    out = []
    last = len(log) - 1
    for i, (d, kind, n) in enumerate(log):
        if kind == "C":
            continue
        if kind == "A" and n in PROTO_ATTRS and not (success and i == last):
            continue
        out.append((d, kind, n))
    return out


def own_index_error(touched, err, form, proto):
    """the object's __getitem__ was asked for exactly one key and raised its own error: the indexing happened"""
    return (form == "index" and proto in PROTO_ERR and len(touched) == 1 and touched[0][1] == "I"
            and type(err) is PROTO_ERR[proto])


def run_single(sa, via, form, name, route, on_class=False, shape=None, deco=False, proto="value"):
    """-> (observation, anomaly or None).  observation = ('reach', m) | ('denied', class)"""
    log = []
    obj = make_probe(log, 0, None, "plain", proto)
    try:
        attach(obj, sa, via, on_class, shape, deco)
    except Exception as e:
        return None, "yaqlize(...) rejected the arguments delivered as %s: %s: %s" % (shape_names(shape), type(e).__name__, str(e)[:80])
    ctx = base_context().create_child_context()
    ctx["obj"] = obj
    ctx["k"] = name
    try:
        st = subst_tree(form, route, name)
    except Exception as e:
        return None, "could not build expression: %r" % e
    del log[:]
    try:
        res = st.evaluate(context=ctx)
        err = None
    except Exception as e:
        res, err = None, e
    root_log = [x for x in log if x[0] == 0]
    if err is None:
        # trailing protocol reads made while finalising the result belong to the kid (depth 1), not the root
        touched = members_touched(root_log, True)
        if len(touched) != 1:
            return None, "evaluation succeeded with member accesses %r" % (touched,)
        d, kind, n = touched[0]
        want_kind = "I" if form == "index" else "A"
        if kind != want_kind:
            return None, "form %s reached the member through %s" % (form, kind)
        called = any(k == "C" for _, k, _ in log)
        if n == "__class__" and form == "method":
            called = True        # the probe answers __class__ with its real class: calling it is not logged
        if called != (form == "method"):
            return None, "form %s: member called=%s" % (form, called)
        return ("reach", n), None
    touched = members_touched(root_log, False)
    cls = exn_class(err)
    if own_index_error(touched, err, form, proto):
        return ("reach", touched[0][2]), None
    if touched:
        return ("denied", cls), "raised %s after touching %r" % (type(err).__name__, touched)
    if cls.startswith("Other:"):
        return ("denied", cls), "unexpected exception class %s: %s" % (type(err).__name__, str(err)[:120])
    return ("denied", cls), None


HEADER = "From YV Require Import Model.Yaqlized."


HEADER_I = "From YV Require Import Model.Lexer Model.Yaqlized Model.YaqlizedPaths."


def icase_term(c, obs):
    rt, pt = tables([c["name"]], [c["sargs"]], c.get("dyn"))
    return ("{| ic_regex := %s; ic_pred := %s; ic_via_yaqlize := %s; ic_args := %s; ic_proto := %s; ic_name := %s; ic_obs := %s |}"
            % (table_term(rt), table_term(pt), gal.boolean(c["via"]), gal.opt(c["sargs"], yargs_term),
               PROTO_TERM[c.get("proto", "value")], gal.s(c["name"]), outcome_term(obs)))


def check_cases(run, pairs, shard=250):
    """pairs: [(case, observation)] -> indices on which the model disagrees; the index form is compared through
    [icase] (the model consults the receiver's indexing protocol), the other forms through [case]"""
    plain = [(j, case_term(c, o)) for j, (c, o) in enumerate(pairs) if c["form"] != "index"]
    index = [(j, icase_term(c, o)) for j, (c, o) in enumerate(pairs) if c["form"] == "index"]
    bad = []
    if plain:
        bad += [plain[k][0] for k in run.coq_mismatches(HEADER, "case", "case_ok", [t for _, t in plain], shard=shard)]
    if index:
        bad += [index[k][0] for k in run.coq_mismatches(HEADER_I, "icase", "icase_ok", [t for _, t in index], shard=shard)]
    return sorted(bad)


def case_term(c, obs):
    rt, pt = tables([c["name"]], [c["sargs"]], c.get("dyn"))
    return ("{| c_regex := %s; c_pred := %s; c_via_yaqlize := %s; c_args := %s; c_form := %s; c_name := %s; c_obs := %s |}"
            % (table_term(rt), table_term(pt), gal.boolean(c["via"]),
               gal.opt(c["sargs"], yargs_term), FORM_TERM[c["form"]], gal.s(c["name"]), outcome_term(obs)))


# ---------------------------------------------------------------------------
# generators
# ---------------------------------------------------------------------------
def S(attrs=True, methods=True, indexer=True, auto=False, white=(), black=(), remap=(), blr=True):
    return {"attrs": attrs, "methods": methods, "indexer": indexer, "auto": auto, "white": [list(e) for e in white],
            "black": [list(e) for e in black], "remap": [[k, list(v)] for k, v in remap], "blr": blr}


def all_entries():
    return ([["s", s] for s in STR_ENTRIES] + [["r", i] for i in range(len(REGEXES))] +
            [["p", i] for i in range(len(PREDS))] + [["j", i] for i in range(len(JUNK))])


REMAPS = [
    [["alias", ["s", "foo"]]],
    [["alias", ["s", "_x"]]],
    [["alias", ["t1", "foo"]]],
    [["alias", ["t2", "foo", [["k", "z"]]]]],
    [["alias", ["s", "foo"]], ["zed", ["s", "bar"]]],
    [["foo", ["s", "bar"]], ["bar", ["s", "foo"]]],
    [["_x", ["s", "foo"]]],
    [["alias", ["s", "alias"]]],
    [["alias", ["t2", "__class__", []]]],
]


def grid_cases():
    """the systematic part (about 20k cases); the quick tier takes a seeded sample of it"""
    out = []
    ents = all_entries()
    for e in ents:
        for which in ("white", "black"):
            for n in NAMES:
                for f in FORMS:
                    out.append({"sargs": S(**{which: [e]}), "via": True, "form": f, "name": n})
    for sw in itertools.product([True, False], repeat=3):
        for n in ["foo", "_x", "__class__", "alias"]:
            for f in FORMS:
                out.append({"sargs": S(attrs=sw[0], methods=sw[1], indexer=sw[2]), "via": True, "form": f, "name": n})
                out.append({"sargs": S(attrs=sw[0], methods=sw[1], indexer=sw[2], white=[["s", n]]), "via": False,
                            "form": f, "name": n})
    for n in NAMES:
        for f in FORMS:
            out.append({"sargs": None, "via": False, "form": f, "name": n})
            out.append({"sargs": S(), "via": True, "form": f, "name": n})
    for rm in REMAPS:
        for blr in (True, False):
            for via in (True, False):
                for wl in ([], [["s", "foo"]], [["s", "alias"]], [["s", "alias"], ["s", "foo"]], [["r", 3]]):
                    for n in ["alias", "foo", "bar", "zed", "_x", "x", "__class__"]:
                        for f in FORMS:
                            out.append({"sargs": S(white=wl, remap=rm, blr=blr), "via": via, "form": f, "name": n})
    return out


def random_settings(rng):
    ents = all_entries()

    def elist():
        k = rng.choice([0, 0, 1, 1, 2, 3])
        return [rng.choice(ents) for _ in range(k)]

    remap = []
    if rng.random() < 0.5:
        keys = rng.sample(["alias", "zed", "foo", "bar", "_x", "x", "m_foo"], rng.choice([1, 1, 2, 3]))
        for k in keys:
            t = rng.choice(["foo", "bar", "_x", "__class__", "hidden", "alias", "zed", "x"])
            kind = rng.choice(["s", "s", "s", "t1", "t2"])
            remap.append([k, [kind, t] if kind != "t2" else [kind, t, [["k", "z"]]]])
    return S(attrs=rng.random() < 0.85, methods=rng.random() < 0.85, indexer=rng.random() < 0.85,
             auto=rng.random() < 0.3, white=elist() if rng.random() < 0.5 else [], black=elist(), remap=remap,
             blr=rng.random() < 0.7)


def random_case(rng):
    sa = random_settings(rng) if rng.random() < 0.95 else None
    names = list(NAMES)
    if sa:
        names += [k for k, _ in sa["remap"]] * 3 + [v[1] for _, v in sa["remap"]] * 3
        names += [e[1] for e in sa["white"] + sa["black"] if e[0] == "s"] * 2
    return {"sargs": sa, "via": rng.random() < 0.5, "form": rng.choice(FORMS), "name": rng.choice(names)}


def nontrivial(c):
    sa = c["sargs"]
    if sa is None or not sa[{"attr": "attrs", "method": "methods", "index": "indexer"}[c["form"]]]:
        return False
    return bool(sa["white"] or sa["black"] or sa["remap"] or c["name"].startswith("_"))


# ---------------------------------------------------------------------------
# C
# ---------------------------------------------------------------------------
def describe(c):
    d = {k: c[k] for k in ("sargs", "via", "form", "name", "route", "shape", "deco", "dyn", "proto") if k in c}
    if c.get("shape") is not None:
        d["delivered_as"] = shape_names(c["shape"])
    return d


def explain(c, obs, anomaly):
    CUR_DYN.clear()
    CUR_DYN.update(c.get("dyn") or {})
    st = spec_settings(c["sargs"], c["via"])
    want = spec_access(c["form"], st, c["name"])
    if want[0] == "reach" and c["form"] == "index" and PROTO_TERM[c.get("proto", "value")] == "INoStr":
        want = ("denied", "EType")        # the object's own TypeError: it is not subscriptable by a string
    if c["form"] == "index" and anomaly and ("reached the member through A" in anomaly or "'A'," in anomaly):
        return "violation", ("the index form reads an ATTRIBUTE of the object (receiver indexing protocol: %s; attribute switch "
                             "%s): `$obj[key]` may only use the object's own indexer" % (
                                 c.get("proto", "value"), (c["sargs"] or {}).get("attrs")))
    if obs is not None and obs[0] == "reach" and want[0] == "denied":
        what = "a member is reached although the settings deny it (%s form)" % c["form"]
    elif obs is not None and obs[0] == "denied" and want[0] == "reach":
        what = "an allowed member is refused (%s form)" % c["form"]
    elif obs is not None and obs[0] == "reach" and want[0] == "reach":
        what = "a different member than the granted one is reached (%s form)" % c["form"]
    elif anomaly and "after touching" in anomaly and want[0] == "denied":
        what = "a member of the object is touched although access is denied (%s form)" % c["form"]
    else:
        return "mismatch", "policy outcome differs from the model (%s form): %s" % (c["form"], anomaly or "error class")
    return "violation", what


def report(run, c, obs, anomaly):
    kind, what = explain(c, obs, anomaly)
    if anomaly and "rejected the arguments" in anomaly:
        kind, what = "mismatch", anomaly
    st = spec_settings(c["sargs"], c["via"])
    req = spec_access(c["form"], st, c["name"])
    if req[0] == "reach" and c["form"] == "index" and PROTO_TERM[c.get("proto", "value")] == "INoStr":
        req = ("denied", "EType")
    run.fail(kind, what, {"case": describe(c), "observed": obs, "anomaly": anomaly,
                          "required": req,
                          "entries": "entry ['s',text]|['r',i]|['p',i]|['j',i] index into REGEXES/PREDS/JUNK of harness/props/c07.py",
                          "theorems": ["C07_policy_sound", "C07_policy_complete", "C07_underscore_never"]})


def load_corpus():
    path = os.path.join(HERE, "corpus", "C07.json")
    if not os.path.exists(path):
        return {"single": [], "chain": [], "sweep": []}
    return json.load(open(path))


def correspondence(run):
    corpus = load_corpus()
    grid = grid_cases()
    if run.quick:
        picked = run.rng.sample(grid, min(len(grid), 5000))
    else:
        picked = grid
    todo = list(corpus.get("single", [])) + picked + [random_case(run.rng) for _ in range(run.n(2500, 80000))]
    terms, meta = [], []
    for i, c in enumerate(todo):
        c = dict(c)
        rts = routes_for(c["form"], c["name"])
        if "route" not in c or c["route"] not in rts:
            c["route"] = rts[i % len(rts)]
        on_class = (i % 7 == 3)
        if "shape" not in c:
            c["shape"] = None if i % 4 == 0 else (i * 7 + i // 4) % (len(LIST_SHAPES) * 3 * len(REMAP_SHAPES))
            c["deco"] = (i % 5 == 2)
        if "proto" not in c:
            c["proto"] = PROTOS[(i // 2) % len(PROTOS)] if i % 3 else "value"
        obs, anomaly = run_single(c["sargs"], c["via"], c["form"], c["name"], c["route"], on_class, c["shape"], c.get("deco", False),
                                  c["proto"])
        if c["form"] == "index":
            run.count("index-protocol:" + c["proto"])
        run.count("delivered:" + (shape_names(c["shape"]).split("/")[0] if c["sargs"] else "n/a"))
        run.case((c["sargs"], c["via"], c["form"], c["name"], c["route"]), nontrivial=nontrivial(c))
        run.count("form:" + c["form"])
        run.count("route:" + c["route"])
        run.count("outcome:" + ("reach" if obs and obs[0] == "reach" else obs[1] if obs else "anomaly"))
        if c["sargs"]:
            for e in c["sargs"]["white"]:
                run.count("white:" + e[0])
            for e in c["sargs"]["black"]:
                run.count("black:" + e[0])
            for _, v in c["sargs"]["remap"]:
                run.count("remap:" + v[0])
        run.count("name:" + ("dunder" if c["name"].startswith("__") else "underscore" if c["name"].startswith("_")
                             else "odd" if c["name"] in ODD else "public"))
        if i % 701 == 0:
            run.sample({"case": describe(c), "observed": obs})
        if anomaly or obs is None or obs[1].startswith("Other:"):
            report(run, c, obs, anomaly)
            continue
        meta.append((c, obs))
    bad = check_cases(run, meta)
    seen = set()
    for i in bad:
        c, obs = meta[i]
        kind, what = explain(c, obs, None)
        if what in seen:
            run.note("further disagreement of the same kind: %r" % (describe(c),))
            continue
        seen.add(what)
        report(run, c, obs, None)
    chain_correspondence(run, corpus.get("chain", []))
    history_correspondence(run, corpus.get("history", []), todo)
    keyword_correspondence(run)
    path_correspondence(run)
    auto_correspondence(run)


# ---------------------------------------------------------------------------
# histories: ONE parsed statement / call site, a sequence of receivers
# ---------------------------------------------------------------------------
# history = {"form", "name", "route": "text"|"tree", "mode": "reeval"|"select"|"where"|"select_elvis",
#            "class_sargs": [sargs|None, sargs|None],        settings on the two probe classes
#            "receivers": [{"cls": 0|1, "sargs": sargs|None}, ...]}   instance-level settings
# The model is stateless: the verdict expected for a step is the verdict for THAT receiver's effective settings
# (instance first, then class), whatever was evaluated at the call site before.
HISTORY_MODES = ["reeval", "select", "where", "select_elvis"]


def history_probe_class(log, proto="value"):
    class HProbe(object):
        def __init__(self, rid):
            object.__setattr__(self, "_rid", rid)

        def __getattribute__(self, n):
            rid = object.__getattribute__(self, "_rid")
            log.append((rid, "A", n))
            if n in ("__yaqlization__", "__class__", "__dict__"):
                return object.__getattribute__(self, n)
            if n == "__unwrapped__":
                raise AttributeError(n)
            return Leaf(log, rid)

        if proto != "none":
            __getitem__ = proto_getitem(proto, lambda self, k: log.append((object.__getattribute__(self, "_rid"), "I", k)),
                                        lambda self: Leaf(log, object.__getattribute__(self, "_rid")))

        def __call__(self, *a, **k):
            log.append((object.__getattribute__(self, "_rid"), "C", "()"))
            return self
    return HProbe


def substitute_name(node, name):
    """replace the placeholder zzz (function name / keyword) everywhere in a parsed tree"""
    if isinstance(node, expressions.KeywordConstant) and node.value == "zzz":
        node.value = name
    if type(node) is expressions.Function and node.name == "zzz":
        node.name = name
    for a in getattr(node, "args", ()) or ():
        substitute_name(a, name)
    for attr in ("expression", "expr", "source", "destination"):
        if hasattr(node, attr):
            substitute_name(getattr(node, attr), name)


HISTORY_TEXT = {
    ("reeval", "attr"): "$obj.%s", ("reeval", "method"): "$obj.%s()", ("reeval", "index"): "$obj[$k]",
    ("select", "attr"): "$objs.select($.%s)", ("select", "method"): "$objs.select($.%s())", ("select", "index"): "$objs.select($[$k])",
    ("where", "attr"): "$objs.where($.%s)", ("where", "method"): "$objs.where($.%s())", ("where", "index"): "$objs.where($[$k])",
    ("select_elvis", "attr"): "$objs.select($?.%s)", ("select_elvis", "method"): "$objs.select($?.%s())",
    ("select_elvis", "index"): "$objs.select($[$k])",
}


ENGINE2 = yaql.YaqlFactory().create(options={"yaql.limitIterators": 1000})


def history_statement(h, engine=None):
    engine = engine or ENGINE
    tmpl = HISTORY_TEXT[(h["mode"], h["form"])]
    if h["form"] == "index" or (h["route"] == "text" and lexable(h["form"], h["name"])):
        return engine(tmpl % h["name"] if "%s" in tmpl else tmpl)
    st = engine(tmpl % "zzz")
    substitute_name(st, h["name"])
    return st


def effective_sargs(h, r):
    return r["sargs"] if r["sargs"] is not None else h["class_sargs"][r["cls"]]


def step_obs(entries, err, form, proto="value"):
    touched = members_touched(entries, False)
    if err is not None and own_index_error(touched, err, form, proto):
        return ("reach", touched[0][2]), None
    if err is None:
        if len(touched) != 1:
            return None, "step succeeded with member accesses %r" % (touched,)
        if touched[0][1] != ("I" if form == "index" else "A"):
            return None, "form %s reached the member through %s" % (form, touched[0][1])
        return ("reach", touched[0][2]), None
    cls = exn_class(err)
    if touched:
        return ("denied", cls), "raised %s after touching %r" % (type(err).__name__, touched)
    if cls.startswith("Other:"):
        return ("denied", cls), "unexpected exception class %s" % type(err).__name__
    return ("denied", cls), None


def run_history(h):
    """-> [(observation | None, anomaly | None)] per receiver; None/None = not evaluated (the pipeline stopped earlier)"""
    log = []
    protos = h.get("protos") or ["value", "value"]
    classes = [history_probe_class(log, protos[0]), history_probe_class(log, protos[1])]
    for k, sa in enumerate(h["class_sargs"]):
        if sa is not None:
            setattr(classes[k], yaqlization.YAQLIZATION_ATTR, yaqlization.build_yaqlization_settings(**kwargs_of(sa)))
    objs = []
    for i, r in enumerate(h["receivers"]):
        o = classes[r["cls"]](i)
        if r["sargs"] is not None:
            object.__setattr__(o, yaqlization.YAQLIZATION_ATTR, yaqlization.build_yaqlization_settings(**kwargs_of(r["sargs"])))
        objs.append(o)
    st = history_statement(h)            # parsed ONCE (once per engine when the history switches engines)
    st2 = None
    states = h.get("dyn_states") or []
    out = []
    if h["mode"] == "reeval":
        for i, o in enumerate(objs):
            # live host state read by the dynamic predicates: edited BETWEEN the evaluations
            set_dyn(states[i] if i < len(states) else None)
            env = (h.get("envs") or [0] * len(objs))[i] if i < len(h.get("envs") or [0] * len(objs)) else 0
            stmt = st
            if env in (2, 3):
                st2 = st2 or history_statement(h, ENGINE2)
                stmt = st2
            ctx = (yaql.create_context() if env in (1, 3) else base_context()).create_child_context()
            ctx["obj"] = o
            ctx["k"] = h["name"]
            del log[:]
            try:
                stmt.evaluate(context=ctx)
                err = None
            except Exception as e:
                err = e
            out.append(step_obs([x for x in log if x[0] == i], err, h["form"], protos[h["receivers"][i]["cls"]]))
        return out
    set_dyn(states[0] if states else None)
    ctx = base_context().create_child_context()
    ctx["objs"] = objs
    ctx["k"] = h["name"]
    del log[:]
    try:
        st.evaluate(context=ctx)
        err = None
    except Exception as e:
        err = e
    failed = False
    for i in range(len(objs)):
        ent = [x for x in log if x[0] == i]
        reached = members_touched(ent, False)
        if failed:
            out.append((None, "receiver touched after the pipeline failed: %r" % (reached,)) if reached else (None, None))
        elif reached and not (err is not None and own_index_error(reached, err, h["form"], protos[h["receivers"][i]["cls"]])
                              and not any(x[0] > i for x in log)):
            out.append(step_obs(ent, None, h["form"]))
        elif err is not None:
            out.append(step_obs(ent, err, h["form"], protos[h["receivers"][i]["cls"]]))
            failed = True
        else:
            out.append((None, "receiver skipped by the pipeline"))
    return out


def history_from_case(c, rng, k):
    """a policy case run as a history: a permissive receiver of the same class first, then the case's own settings"""
    mode = HISTORY_MODES[k % len(HISTORY_MODES)]
    rnd = random_settings(rng)
    # the history probe cannot tell a remapped read of __class__ from the interpreter's own (single cases cover it)
    rnd["remap"] = [kv for kv in rnd["remap"] if kv[1][1] not in PROTO_ATTRS]
    others = [S(), S(auto=True), rnd, S(white=[["s", c["name"]]]), S(remap=[[c["name"], ["s", "zed"]]])]
    first = others[k % len(others)]
    recv = [{"cls": 0, "sargs": first}, {"cls": 0, "sargs": c["sargs"]}]
    if k % 3 == 0:
        recv.append({"cls": 1, "sargs": c["sargs"]})
    if k % 5 == 0:
        recv = [{"cls": 0, "sargs": None}] + recv if mode == "reeval" else recv + [{"cls": 0, "sargs": None}]
    return {"form": c["form"], "name": c["name"], "route": "text" if k % 2 else "tree", "mode": mode,
            "class_sargs": [None, S() if k % 4 == 0 else None], "receivers": recv,
            "protos": [PROTOS[k % len(PROTOS)], PROTOS[(k // 6) % len(PROTOS)]] if k % 2 else ["value", "value"]}


def random_history(rng):
    name = rng.choice(["foo", "bar", "token", "alias", "m_foo", "_x", "zed", "x"])

    def st():
        r = rng.random()
        if r < 0.15:
            return None
        if r < 0.4:
            return S(auto=rng.random() < 0.5)
        if r < 0.6:
            return S(black=[["s", name]])
        if r < 0.7:
            return S(white=[["s", "other"]])
        if r < 0.8:
            return S(remap=[[name, ["s", rng.choice(["zed", "hidden"])]]])
        sa = random_settings(rng)
        sa["remap"] = [kv for kv in sa["remap"] if kv[1][1] not in PROTO_ATTRS]
        return sa
    h = {"form": rng.choice(FORMS), "name": name, "route": rng.choice(["text", "tree"]), "mode": rng.choice(HISTORY_MODES),
         "class_sargs": [st() if rng.random() < 0.3 else None, st() if rng.random() < 0.5 else None],
         "receivers": [{"cls": rng.randrange(2), "sargs": st()} for _ in range(rng.randrange(2, 6))],
         "protos": [rng.choice(PROTOS), rng.choice(PROTOS)]}
    if rng.random() < 0.5:
        # stateful predicates: a grant table / hidden set the host edits between evaluations; the receivers share the
        # predicate OBJECTS (process-wide), steps may use another engine and / or a fresh context
        for r in h["receivers"]:
            if rng.random() < 0.7:
                d = ["d", rng.randrange(len(DYN))]
                r["sargs"] = rng.choice([S(white=[d]), S(black=[d]), S(white=[d, ["s", "other"]]), S(black=[d, ["r", 4]]),
                                         S(white=[d], remap=[[name, ["s", "zed"]]], blr=False), S(black=[d], auto=True)])
        n = len(h["receivers"])
        pool = [name, "other", "zed"]
        h["dyn_states"] = [dict((str(i), sorted(x for x in pool if rng.random() < 0.5)) for i in range(len(DYN))) for _ in range(n)]
        h["envs"] = [rng.randrange(4) for _ in range(n)]
    return h


def history_terms(h, outs):
    terms, meta = [], []
    for i, (obs, anomaly) in enumerate(outs):
        if obs is None or anomaly:
            continue
        states = h.get("dyn_states") or []
        dyn = (states[i] if i < len(states) else None) if h["mode"] == "reeval" else (states[0] if states else None)
        c = {"sargs": effective_sargs(h, h["receivers"][i]), "via": False, "form": h["form"], "name": h["name"], "dyn": dyn or {},
             "proto": (h.get("protos") or ["value", "value"])[h["receivers"][i]["cls"]]}
        terms.append((c, obs))
        meta.append((h, i, c, obs))
    return terms, meta


def history_correspondence(run, corpus, policy_cases):
    hs = [dict(h) for h in corpus]
    pool = [c for c in policy_cases if c.get("sargs") is not None and c["name"] not in PROTO_ATTRS
            and not any(v[1] in PROTO_ATTRS for _, v in c["sargs"]["remap"])]
    picked = run.rng.sample(pool, min(len(pool), run.n(900, 12000)))
    hs += [history_from_case(c, run.rng, k) for k, c in enumerate(picked)]
    hs += [random_history(run.rng) for _ in range(run.n(500, 8000))]
    terms, meta = [], []
    for k, h in enumerate(hs):
        outs = run_history(h)
        run.case(("history", json.dumps(h, sort_keys=True)), nontrivial=len(set(json.dumps(effective_sargs(h, r), sort_keys=True)
                                                                                  for r in h["receivers"])) > 1)
        run.count("history:" + h["mode"] + ":" + h["form"])
        run.count("history-steps", len(h["receivers"]))
        if k % 397 == 0:
            run.sample({"history": h, "observed": [o for o, _ in outs]})
        for i, (obs, anomaly) in enumerate(outs):
            if anomaly:
                attr_read = h["form"] == "index" and ("through A" in anomaly or "'A'," in anomaly)
                run.fail("violation" if attr_read else "mismatch",
                         ("the index form reads an ATTRIBUTE of the object (`$obj[key]` may only use the object's own indexer) - "
                          "step of a history: " + anomaly) if attr_read else
                         "a step of a history on one parsed call site behaves outside the model: " + anomaly,
                         {"history": h, "step": i, "observed": [o for o, _ in outs]})
        t, m = history_terms(h, outs)
        terms += t
        meta += m
    bad = check_cases(run, terms, shard=300)
    seen = set()
    for j in bad:
        h, i, c, obs = meta[j]
        kind, what = explain(c, obs, None)
        what += " - step %d of a history: the same parsed call site evaluated for a sequence of receivers (%s)" % (i, h["mode"])
        key = (kind, what.split(" - ")[0], h["mode"])
        if key in seen:
            continue
        seen.add(key)
        st = spec_settings(c["sargs"], False)
        run.fail(kind, what, {"history": h, "step": i, "observed": [o for o, _ in run_history(h)],
                              "required_for_this_receiver": spec_access(c["form"], st, c["name"]),
                              "theorems": ["C07_policy_sound", "C07_policy_complete", "C07_same_gate"]})


# ---------------------------------------------------------------------------
# utils.is_keyword, the paths around the gate, one auto-yaqlization step
# ---------------------------------------------------------------------------
HEADER2 = ("From YV Require Import Gen.CharClass Gen.LexFacts Model.Lexer Model.Yaqlized Model.YaqlizedPaths.")
CFG = "(default_cfg (fun _ => None))"
KW_ALPHABET = list("__aZx9_ .-{}$0") + ["\u00e9", "\u00df", "\u03a9", "\u4e2d", "\u0663", "\u00b2", "\u0301", "\u203f",
                                         "\U0001d7d8", "\u00aa", "\n", "(", "'"]


def keyword_correspondence(run):
    from yaql.language import utils as yutils
    names = list(NAMES) + ["__", "_", "a__", "_a", "__a", "a b", "9a", "a9", "\u0663a", "a\u0663", "\u00e9t\u00e9", "__\u00e9"]
    for _ in range(run.n(1500, 20000)):
        k = run.rng.choice([1, 2, 2, 3, 3, 4, 6])
        w = "".join(run.rng.choice(KW_ALPHABET) for _ in range(k))
        names.append(run.rng.choice(["", "", "", "__", "_", "a__", "__\u00e9"]) + w)
    terms, meta = [], []
    for n in names:
        obs = bool(yutils.is_keyword(n))
        run.case(("is_keyword", n), nontrivial=n.startswith("_") or obs)
        run.count("is_keyword:%s%s" % ("dunder:" if n.startswith("__") else "", obs))
        terms.append("{| k_name := %s; k_obs := %s |}" % (gal.s(n), gal.boolean(obs)))
        meta.append((n, obs))
    bad = run.coq_mismatches(HEADER2, "kw_case", "(kw_ok %s)" % CFG, terms, shard=1500)
    for i in bad[:3]:
        n, obs = meta[i]
        kind = "violation" if (n.startswith("__") and obs) else "mismatch"
        run.fail(kind, "utils.is_keyword accepts a name starting with '__' (the call() keyword filter and the lexer no longer "
                 "agree)" if kind == "violation" else "utils.is_keyword differs from the model of the keyword regex",
                 {"keyword": n, "observed": obs, "theorems": ["C07_is_keyword_agrees_with_lexer", "C07_call_kwargs_filter"]})


_REG = {}


def registered_names():
    if not _REG:
        import gen_effects
        _, regs = gen_effects.registry()
        _REG["fn"] = sorted(set(name for _, name, fd in regs if fd.is_function))
        _REG["meth"] = sorted(set(name for _, name, fd in regs if fd.is_method))
    return _REG["fn"], _REG["meth"]


PATH_KINDS = ["PProp", "PMeth", "PIndex", "PElvisProp", "PElvisMeth", "PCallFn", "PCallMeth"]
PATH_FORM = {"PProp": "attr", "PElvisProp": "attr", "PMeth": "method", "PElvisMeth": "method", "PIndex": "index"}
PATH_NAMES_UNREG = ["foo", "secret", "{receiver.secret}", "__class__", "nosuch", "_x", "bar", "alias"]
PATH_NAMES_REG = ["len", "str", "isString", "toList", "first", "keys", "dict", "list", "coalesce", "bool", "int", "year",
                  "select", "values", "isDict", "#indexer", "#property#year", "toUpper"]
KW_KEYS = ["a", "x1", "__x", "{0}", "a b", "_y", "n\u00e9", "value", "__class__", ""]


def lambda_fed(c):
    """the model's `lam` flag: call() hands the (callable) probe as a VALUE to a Lambda-typed parameter of some
    overload registered under the name: first argument / receiver, or a keyword naming such a parameter"""
    from yaql.language import yaqltypes
    import gen_effects
    if c["kind"] not in ("PCallFn", "PCallMeth"):
        return False
    if "lam" not in _REG:
        _REG["lam"] = {}
        _, regs = gen_effects.registry()
        for _, name, fd in regs:
            vis = sorted([(pd.position if pd.position is not None else 10 ** 6, key, pd) for key, pd in fd.parameters.items()
                          if not isinstance(pd.value_type, yaqltypes.HiddenParameterType) and key != "**"], key=lambda t: t[0])
            first = bool(vis) and isinstance(vis[0][2].value_type, yaqltypes.Lambda)
            kws = set()
            for _, key, pd in vis:
                if isinstance(pd.value_type, yaqltypes.Lambda):
                    kws |= {pd.name, pd.alias, key}
            star2 = fd.parameters.get("**")
            anykw = star2 is not None and isinstance(star2.value_type, yaqltypes.Lambda)
            for form, ok in (("PCallFn", fd.is_function), ("PCallMeth", fd.is_method)):
                if ok:
                    e = _REG["lam"].setdefault((form, name), {"first": False, "kws": set(), "anykw": False})
                    e["first"] |= first
                    e["kws"] |= kws
                    e["anykw"] |= anykw
    e = _REG["lam"].get((c["kind"], c["name"]))
    if not e:
        return False
    return bool(e["first"] or (c.get("kwobj") and (e["anykw"] or (set(c.get("kw", [])) & e["kws"]))))


def run_path(c):
    """c: {sargs, kind, name, kw:[keys], kwobj: bool} -> ('reach', m) | ('denied', cls) | ('ran',) | ('invoked',)"""
    log = []
    obj = make_probe(log, 0, None)
    attach(obj, c["sargs"], False)
    ctx = base_context().create_child_context()
    ctx["obj"] = obj
    ctx["n"] = c["name"]
    ctx["kw"] = dict((k, obj if c.get("kwobj") else 1) for k in c.get("kw", []))
    kind = c["kind"]
    if kind in ("PCallFn", "PCallMeth"):
        st = ENGINE("call($n, [$obj], $kw)" if kind == "PCallFn" else "call($n, [], $kw, $obj)")
    elif kind.startswith("PElvis"):
        st = ENGINE("$obj?.zzz" if kind == "PElvisProp" else "$obj?.zzz()")
        node = st.expression.args[1]
        if kind == "PElvisMeth":
            node.name = c["name"]
        else:
            node.value = c["name"]
    else:
        st = subst_tree(PATH_FORM[kind], "tree", c["name"])
    del log[:]
    try:
        st.evaluate(context=ctx)
        err = None
    except Exception as e:
        err = e
    touched = members_touched([x for x in log if x[0] == 0], False)
    if touched:
        if len(touched) != 1:
            return None, "members touched: %r" % (touched,)
        return ("reach", touched[0][2]), None
    if any(d == 0 and k == "C" for d, k, _ in log):
        return ("invoked",), None
    if err is None:
        return ("ran",), None
    cls = exn_class(err)
    gated = c["sargs"] is not None and kind in PATH_FORM and c["sargs"][{"attr": "attrs", "method": "methods", "index": "indexer"}[PATH_FORM[kind]]]
    if cls in ("ENoMatch", "ERuntime") or (gated and not cls.startswith("Other:")):
        return ("denied", cls), None
    return ("ran",), None


def path_term(c, obs):
    fns, meths = registered_names()
    used = [c["name"], "#property#" + c["name"]]
    rt, pt = tables([c["name"]], [c["sargs"]])
    kw = gal.lst(gal.s(k) for k in c.get("kw", []))
    if c["kind"] in ("PCallFn", "PCallMeth"):
        path = gal.app(c["kind"], gal.s(c["name"]), kw if c.get("kw") else "(@nil name)", gal.boolean(lambda_fed(c)))
    else:
        path = gal.app(c["kind"], gal.s(c["name"]))
    o = {"reach": lambda: gal.app("PoReach", gal.s(obs[1])), "denied": lambda: gal.app("PoDenied", obs[1]), "ran": lambda: "PoRan",
         "invoked": lambda: "PoInvoked"}[obs[0]]()
    return ("{| pc_regex := %s; pc_pred := %s; pc_args := %s; pc_fns := %s; pc_meths := %s; pc_path := %s; pc_obs := %s |}" % (
        table_term(rt), table_term(pt), gal.opt(c["sargs"], yargs_term),
        gal.lst(gal.s(n) for n in used if n in fns) or "(@nil name)", gal.lst(gal.s(n) for n in used if n in meths) or "(@nil name)", path, o))


def random_path(rng):
    fns, meths = registered_names()
    reg = [n for n in PATH_NAMES_REG if n in fns or n in meths]
    r = rng.random()
    if r < 0.55:
        sa = None
    elif r < 0.7:
        sa = S(attrs=False, methods=False, indexer=False)
    else:
        sa = S(attrs=rng.random() < 0.6, methods=rng.random() < 0.6, indexer=rng.random() < 0.6,
               black=[["s", "bar"]] if rng.random() < 0.5 else [], white=[["s", "foo"], ["s", "len"]] if rng.random() < 0.3 else [],
               remap=[["alias", ["s", "foo"]]] if rng.random() < 0.4 else [])
    kind = rng.choice(PATH_KINDS)
    name = rng.choice(reg) if rng.random() < 0.4 else rng.choice(PATH_NAMES_UNREG)
    c = {"sargs": sa, "kind": kind, "name": name}
    if kind.startswith("PCall"):
        c["kw"] = sorted(set(rng.choice(KW_KEYS) for _ in range(rng.choice([0, 0, 1, 1, 2, 3]))))
        c["kwobj"] = rng.random() < 0.5
    return c


def path_correspondence(run):
    todo = [random_path(run.rng) for _ in range(run.n(1500, 20000))]
    terms, meta = [], []
    for i, c in enumerate(todo):
        obs, anomaly = run_path(c)
        run.case(("path", c["sargs"], c["kind"], c["name"], tuple(c.get("kw", ()))), nontrivial=True)
        run.count("path:" + c["kind"])
        run.count("path-outcome:" + (obs[0] if obs else "anomaly") + (":" + obs[1] if obs and obs[0] == "denied" else ""))
        if i % 499 == 0:
            run.sample({"path": c, "observed": obs})
        if anomaly:
            run.fail("violation" if c["sargs"] is None else "mismatch",
                     "a path around the gate touches the object: " + anomaly, {"path": c, "anomaly": anomaly})
            continue
        terms.append(path_term(c, obs))
        meta.append((c, obs))
    bad = run.coq_mismatches(HEADER2, "path_case", "(path_ok %s)" % CFG, terms, shard=400)
    seen = set()
    for i in bad:
        c, obs = meta[i]
        gated = c["sargs"] is not None and c["kind"] in PATH_FORM and c["sargs"][{"attr": "attrs", "method": "methods", "index": "indexer"}[PATH_FORM[c["kind"]]]]
        if obs[0] == "invoked":
            kind, what = "violation", ("the host object itself is called through %s although it is not handed to a lambda "
                                       "parameter by call() (outside known finding F22)" % c["kind"])
        elif obs[0] == "reach" and not gated:
            kind, what = "violation", ("a member of an object whose settings do not open this form (or that is not yaqlized) is "
                                       "reached through %s" % c["kind"])
        else:
            kind, what = "mismatch", "path %s around the gate differs from the model" % c["kind"]
        if what in seen:
            continue
        seen.add(what)
        run.fail(kind, what, {"path": c, "observed": obs, "theorems": ["C07_fallback_never_reaches_host", "C07_call_never_reaches"]})


def run_auto(c):
    """c: {parent_auto, inst, cls, fixed: None|'builtin'|'frozen'} -> (instance slot, class slot) afterwards"""
    marker = dict(yaqlize_attributes=True, yaqlize_methods=False, yaqlize_indexer=True, auto_yaqlize_result=False)

    class Child(object):
        if c["fixed"] == "frozen":
            def __setattr__(self, n, v):
                raise AttributeError("read-only")

    if c["fixed"] == "builtin":
        Child.__module__ = int.__module__
    child = Child()
    if c["inst"]:
        object.__setattr__(child, yaqlization.YAQLIZATION_ATTR, yaqlization.build_yaqlization_settings(**marker))
    if c["cls"]:
        setattr(Child, yaqlization.YAQLIZATION_ATTR, yaqlization.build_yaqlization_settings(**marker))

    class Parent(object):
        foo = child

        def get(self):
            return child

        def __getitem__(self, k):
            return child

    parent = Parent()
    yaqlization.yaqlize(parent, auto_yaqlize_result=c["parent_auto"])
    ctx = base_context().create_child_context()
    ctx["obj"] = parent
    ENGINE({"attr": "$obj.foo", "method": "$obj.get()", "index": "$obj[foo]"}[c["form"]]).evaluate(context=ctx)

    def code(d):
        st = d.get(yaqlization.YAQLIZATION_ATTR)
        return 0 if st is None else (2 if st["autoYaqlizeResult"] else 1)
    return code(child.__dict__), code(Child.__dict__)


def auto_correspondence(run):
    terms, meta = [], []
    for pa in (True, False):
        for inst in (True, False):
            for cls in (True, False):
                for fixed in (None, "builtin", "frozen"):
                    for form in ("attr", "method", "index"):
                        c = {"parent_auto": pa, "inst": inst, "cls": cls, "fixed": fixed, "form": form}
                        try:
                            obs = run_auto(c)
                        except Exception as e:
                            run.fail("mismatch", "auto-yaqlization step raised %s" % type(e).__name__, {"auto": c})
                            continue
                        run.case(("auto", pa, inst, cls, fixed, form), nontrivial=pa)
                        run.count("auto:%s" % (obs,))
                        terms.append("{| ac_parent_auto := %s; ac_inst := %s; ac_class := %s; ac_fixed := %s; ac_obs := (%s, %s) |}" % (
                            gal.boolean(pa), gal.boolean(inst), gal.boolean(cls), gal.boolean(fixed is not None), gal.z(obs[0]), gal.z(obs[1])))
                        meta.append((c, obs))
    bad = run.coq_mismatches(HEADER2, "auto_case", "auto_ok", terms, shard=200)
    for i in bad[:1]:
        c, obs = meta[i]
        loosened = (c["inst"] or c["cls"]) and (obs[0] == 2 or obs[1] == 2)
        run.fail("violation" if loosened or obs[1] == 2 else "mismatch",
                 "auto-yaqlization of a result wrote permissive settings over / beside an existing policy or onto a class "
                 "(slots afterwards: instance %s, class %s; 0 none, 1 the host's, 2 automatic defaults)" % obs,
                 {"auto": c, "observed": obs, "theorems": ["C07_auto_yaqlize_keeps_policy", "C07_auto_yaqlize_writes_only_fresh_instances"]})


# ---------------------------------------------------------------------------
# chains with auto-yaqlization
# ---------------------------------------------------------------------------
CHAIN_NAMES = ["foo", "bar", "alias", "_x", "x", "m_foo", "zed"]


def run_chain(root, kids, path):
    """root: sargs|None; kids: [[sargs|None, variant]] per depth 1..; path: [[form, name]]"""
    log = []

    def factory(depth):
        spec = kids[depth - 1] if depth - 1 < len(kids) else [None, "plain"]
        p = make_probe(log, depth, factory, spec[1])
        if spec[0] is not None:
            st = yaqlization.build_yaqlization_settings(**kwargs_of(spec[0]))
            object.__setattr__(p, yaqlization.YAQLIZATION_ATTR, st)
        return p

    obj = make_probe(log, 0, factory)
    attach(obj, root, False)
    ctx = base_context().create_child_context()
    ctx["obj"] = obj
    text = "$obj"
    for i, (f, n) in enumerate(path):
        if f == "index":
            ctx["k%d" % i] = n
            text += "[$k%d]" % i
        else:
            text += ".%s%s" % (n, "()" if f == "method" else "")
    st = ENGINE(text)
    del log[:]
    try:
        st.evaluate(context=ctx)
        err = None
    except Exception as e:
        err = e
    reached = [(d, n) for d, kind, n in log if kind != "C" and not (kind == "A" and n in PROTO_ATTRS)]
    depths = [d for d, _ in reached]
    anomaly = None
    if depths != list(range(len(depths))):
        anomaly = "members reached out of order: %r" % (reached,)
    cls = None if err is None else exn_class(err)
    if cls and cls.startswith("Other:"):
        anomaly = "unexpected exception %s: %s" % (type(err).__name__, str(err)[:100])
    return ([n for _, n in reached], cls), anomaly, text


def chain_term(c, obs):
    rt, pt = tables([n for _, n in c["path"]], [c["root"]] + [k[0] for k in c["kids"]])
    kids = gal.lst(gal.pair(gal.opt(k[0], yargs_term), gal.boolean(k[1] != "plain")) for k in c["kids"])
    return ("{| cc_regex := %s; cc_pred := %s; cc_root := %s; cc_children := %s; cc_path := %s; cc_obs := %s |}" % (
        table_term(rt), table_term(pt), gal.opt(c["root"], yargs_term), kids if c["kids"] else "[]",
        gal.lst(gal.pair(FORM_TERM[f], gal.s(n)) for f, n in c["path"]),
        gal.pair(gal.lst(gal.s(n) for n in obs[0]), gal.opt(obs[1]))))


def random_chain(rng):
    def plain(sa):
        # in a chain the probe cannot tell a remapped read of __class__ from the interpreter's own: keep
        # string remappings to ordinary names (tuple remappings and dunder targets are covered by the single cases)
        sa["remap"] = [kv for kv in sa["remap"] if kv[1][0] == "s" and kv[1][1] not in PROTO_ATTRS]
        return sa

    def maybe():
        r = rng.random()
        if r < 0.6:
            return None
        return plain(random_settings(rng))
    root = plain(random_settings(rng)) if rng.random() < 0.3 else S(auto=rng.random() < 0.7, black=[["s", "bar"]] if rng.random() < 0.3 else [])
    kids = [[maybe(), rng.choice(["plain", "plain", "plain", "builtin", "frozen"])] for _ in range(rng.randrange(0, 4))]
    path = [[rng.choice(FORMS), rng.choice(CHAIN_NAMES)] for _ in range(rng.randrange(1, 5))]
    return {"root": root, "kids": kids, "path": path}


def chain_correspondence(run, corpus):
    todo = list(corpus) + [random_chain(run.rng) for _ in range(run.n(600, 15000))]
    terms, meta = [], []
    for i, c in enumerate(todo):
        obs, anomaly, text = run_chain(c["root"], c["kids"], c["path"])
        run.case(("chain", c["root"], c["kids"], c["path"]), nontrivial=len(obs[0]) >= 1 and len(c["path"]) >= 2)
        run.count("chain:len%d" % len(c["path"]))
        run.count("chain:reached%d" % len(obs[0]))
        if i % 211 == 0:
            run.sample({"chain": c, "text": text, "observed": obs})
        if anomaly:
            run.fail("mismatch", "chain of accesses behaves outside the model: " + anomaly, {"chain": c, "text": text, "observed": obs})
            continue
        terms.append(chain_term(c, obs))
        meta.append((c, obs, text))
    bad = run.coq_mismatches(HEADER, "chain_case", "chain_ok", terms, shard=250)
    for i in bad[:3]:
        c, obs, text = meta[i]
        run.fail("violation", "a chain of accesses reaches members of a result object that the settings in force do not "
                 "grant (or refuses granted ones); auto-yaqlization / per-step gate differs from the model",
                 {"chain": c, "text": text, "observed": obs, "theorems": ["C07_chain_steps_granted", "C07_chain_explicit_only"]})


# ---------------------------------------------------------------------------
# O
# ---------------------------------------------------------------------------
def oracle(run, deep):
    c07_sweep.sweep(run, deep, load_corpus().get("sweep", []))


def classify(failure, known_entries):
    """F22 (open): the canary is INVOKED from Lambda._call as the value of a lambda parameter, in an expression in
    which it only occurs inside the arguments of call(...); nothing else was observed on it."""
    if c07_sweep.in_f20_class(failure.data):
        for k in known_entries:
            if k.get("id") == "F22":
                return k.get("line", "F22").replace("open: property=C07 ", "")
    return None


def replay(run, data):
    d = data.get("data", {})
    if "case" in d:
        c = d["case"]
        obs, anomaly = run_single(c["sargs"], c["via"], c["form"], c["name"], c.get("route", "tree"), False,
                                  c.get("shape"), c.get("deco", False), c.get("proto", "value"))
        if anomaly or obs is None:
            return False
        return not check_cases(run, [(c, obs)])
    if "chain" in d:
        c = d["chain"]
        obs, anomaly, _ = run_chain(c["root"], c["kids"], c["path"])
        if anomaly:
            return False
        return not run.coq_mismatches(HEADER, "chain_case", "chain_ok", [chain_term(c, obs)])
    if "sweep" in d:
        return c07_sweep.replay(run, d["sweep"])
    if "history" in d:
        outs = run_history(d["history"])
        if any(a for _, a in outs):
            return False
        terms, _ = history_terms(d["history"], outs)
        return not check_cases(run, terms)
    if "keyword" in d:
        from yaql.language import utils as yutils
        n = d["keyword"]
        return not run.coq_mismatches(HEADER2, "kw_case", "(kw_ok %s)" % CFG,
                                      ["{| k_name := %s; k_obs := %s |}" % (gal.s(n), gal.boolean(bool(yutils.is_keyword(n))))])
    if "path" in d:
        obs, anomaly = run_path(d["path"])
        if anomaly:
            return False
        return not run.coq_mismatches(HEADER2, "path_case", "(path_ok %s)" % CFG, [path_term(d["path"], obs)])
    if "auto" in d:
        c = d["auto"]
        obs = run_auto(c)
        t = "{| ac_parent_auto := %s; ac_inst := %s; ac_class := %s; ac_fixed := %s; ac_obs := (%s, %s) |}" % (
            gal.boolean(c["parent_auto"]), gal.boolean(c["inst"]), gal.boolean(c["cls"]), gal.boolean(c["fixed"] is not None),
            gal.z(obs[0]), gal.z(obs[1]))
        return not run.coq_mismatches(HEADER2, "auto_case", "auto_ok", [t])
    if "where" in d or "log" in d:
        import core
        import sys
        mod = sys.modules[__name__]
        core.build_proofs(run, mod)
        return run.proof["ok"]
    return False
