"""C01 - a shared engine parses every text as if it were alone.

P: Props/C01.v (history / sequential / schedule independence for every tokenizer and parser
   automaton; the premise `lexer_private = true` is regenerated from the live engine).
C: real threads parse on ONE engine under an explicit schedule (gate at the entry of
   ply.lex.Lexer.token, patched on the class so cloned lexers are covered); per call the harness
   records (end-of-input?, lexpos after) of every fetch; the cursor model (Model/LexerState.v,
   tokenizer = table recorded from solo parses on fresh engines) is run on the same schedule inside Coq.
O: every call's tree / exception equals the fresh-engine one: under the explicit schedules,
   over sequential histories on one engine (all orders of small multisets), and with
   free-running threads at a microsecond switch interval (thorough)."""
import itertools
import sys
import threading

import gal

GEN = ["enginefacts", "charclass", "lexfacts"]
RULE = ("texts drawn from a pool of valid and invalid expressions (about 40% invalid: lexical errors, "
        "grammar errors, empty); 2-3 concurrent parse calls on one engine; schedules = all merges of the "
        "calls' token-fetch steps when there are <= 252 of them, else seeded random merges; non-trivial = "
        "at least two calls have >= 2 fetches and the schedule switches call at least twice; distinct = "
        "(texts, schedule)")
TRUSTED = ["Model/LexerState.v: cursor fields and their update by Lexer.input / Lexer.token transcribed from ply 3.11",
           "the deterministic scheduler of this module (threads blocked on semaphores at Lexer.token entry)",
           "tokenizer table recorded from solo parses (the tokenizer itself is a parameter of the theorems)"]
ASSUMPTIONS = ["a thread switch is modelled at token-fetch granularity; preemption inside ply's C-level regex calls, "
               "the GIL and the immutability of ply's LR tables are outside the model (tables are snapshotted "
               "before/after as a monitor)",
               "C01 is therefore proved for the token-granularity model and partial for real preemption"]
EXPLANATION = ("proof that a call's result is independent of history and (with a private lexer per call) of every "
               "interleaving, for any tokenizer/grammar + scheduled real threads vs the cursor model + fresh-engine oracle")

VALID = ["1", "x", "$", "1 + 2", "$.a", "a.b.c", "f(1, 2)", "[1, 2, 3]", "$x + $y * 2", "not true and false",
         "{a => 1}", "'abc' + \"def\"", "$.where($ > 1).select($ * 2)", "1 -> 2", "a(b => c)", "x[0][1]",
         "-1 - -2", "`v`", "1.5 * 2", "a and b or c", "$a.b(1).c[2]", "f()", "null = false", "1 in [1]"]
INVALID = ["", "1 +", "+", "(", ")", "1 2", "'abc", "a..b", "$ $", "1 ? 2", "f(,", "[1, 2", "__x", "@", "a b c",
           "'\\xzz'", "1 + + + ", "{a => }", "1 ]", "x.", "not", "a => => b"]


def engine():
    import yaql
    return yaql.YaqlFactory().create()


def tree_repr(node):
    from yaql.language import expressions as E
    if isinstance(node, E.Statement):
        return tree_repr(node.expression)
    if isinstance(node, E.Wrap):
        return ("Wrap", tree_repr(node.expr))
    if isinstance(node, E.Function):
        return (type(node).__name__, node.name, tuple(tree_repr(a) for a in node.args))
    if isinstance(node, E.Constant) or type(node).__name__ in ("Constant", "KeywordConstant"):
        return (type(node).__name__, repr(node.value))
    if isinstance(node, E.MappingRuleExpression):
        return ("Mapping", tree_repr(node.source), tree_repr(node.destination))
    if isinstance(node, E.Expression):
        return (type(node).__name__, str(node))
    return ("Raw", repr(node))


def outcome(fn):
    from yaql.language import exceptions
    try:
        return ("tree", tree_repr(fn()))
    except exceptions.YaqlParsingException as e:
        return ("yaqlerr", type(e).__name__, getattr(e, "position", None), getattr(e, "value", None))
    except Exception as e:
        return ("foreign", type(e).__name__)


# --------------------------------------------------------------------------
# solo facts: result and fetch trace of each text on a fresh engine
# --------------------------------------------------------------------------
class Patch:
    """Patches ply.lex.Lexer.token with `hook(self, orig)` for the duration of a with-block."""

    def __init__(self, hook):
        self.hook = hook

    def __enter__(self):
        import ply.lex
        self.cls = ply.lex.Lexer
        self.orig = self.cls.token
        orig, hook = self.orig, self.hook

        def token(lexer):
            return hook(lexer, orig)
        self.cls.token = token
        return self

    def __exit__(self, *a):
        self.cls.token = self.orig


def solo_facts(text):
    trace = []

    def hook(lexer, orig):
        try:
            t = orig(lexer)
        except BaseException:
            trace.append((True, 1))
            raise
        trace.append((True, 0) if t is None else (False, lexer.lexpos))
        return t
    eng = engine()
    with Patch(hook):
        res = outcome(lambda: eng(text))
    return res, trace


# --------------------------------------------------------------------------
# deterministic scheduler
# --------------------------------------------------------------------------
class Scheduled:
    """Runs len(texts) parse calls on ONE engine in real threads; `schedule` is a list of call
    indices: the named call is released to run until it next enters Lexer.token (or finishes).
    A text may be (route, text): route "options" parses through engine(text, options), "copy" through engine.copy(options)(text).
    A call that does not come back to a scheduling point within `block_timeout` is taken to be BLOCKED (waiting for
    something another call holds - an engine may legitimately serialise its parses); the schedule goes on with the other
    calls.  Only when no call at all can make progress is that a problem (deadlock / hang)."""

    BLOCKS = 0          # blocked calls seen so far in this process

    def __init__(self, eng, texts, timeout=60.0, block_timeout=3.0):
        self.eng, self.texts, self.timeout, self.block_timeout = eng, texts, timeout, block_timeout
        n = len(texts)
        self.go = [threading.Semaphore(0) for _ in range(n)]
        self.arr = [threading.Semaphore(0) for _ in range(n)]
        self.pending = [False] * n        # a go was given and the call has not come back yet
        self.state = ["new"] * n          # new | gated | done
        self.results = [None] * n
        self.traces = [[] for _ in range(n)]
        self.tid = {}
        self.problems = []
        self.blocked_seen = 0

    def hook(self, lexer, orig):
        i = self.tid.get(threading.get_ident())
        if i is None:
            return orig(lexer)
        self.state[i] = "gated"
        self.arr[i].release()
        if not self.go[i].acquire(timeout=self.timeout * 4):
            raise RuntimeError("scheduler abandoned call %d" % i)
        try:
            t = orig(lexer)
        except BaseException:
            self.traces[i].append((True, 1))
            raise
        self.traces[i].append((True, 0) if t is None else (False, lexer.lexpos))
        return t

    def parse(self, item):
        if isinstance(item, tuple) and len(item) == 2 and item[0] in ("plain", "options", "copy"):
            route, text = item
            if route == "options":
                return self.eng(text, {"yaql.limitIterators": 1000})
            if route == "copy":
                return self.eng.copy({"yaql.memoryQuota": 10 ** 6})(text)
            return self.eng(text)
        return self.eng(item)

    def body(self, i):
        self.tid[threading.get_ident()] = i
        if not self.go[i].acquire(timeout=self.timeout * 4):
            return
        self.results[i] = outcome(lambda: self.parse(self.texts[i]))
        self.state[i] = "done"
        self.arr[i].release()

    def step(self, i, wait):
        """give call i a go (unless one is pending) and wait for it to come back; True when it did"""
        if self.state[i] == "done":
            return True
        was_pending = self.pending[i]
        if not was_pending:
            self.pending[i] = True
            self.go[i].release()
        # a call already known to be blocked is only polled; once the engine has shown (10 times in this process) that it
        # serialises its parses, blocking is recognised after 0.3 s instead of block_timeout
        if was_pending:
            wait = min(wait, 0.02)
        elif Scheduled.BLOCKS >= 10:
            wait = min(wait, 0.3)
        if self.arr[i].acquire(timeout=wait):
            self.pending[i] = False
            return True
        if not was_pending:
            Scheduled.BLOCKS += 1
        self.blocked_seen += 1
        return False

    def run(self, schedule):
        import time
        threads = [threading.Thread(target=self.body, args=(i,), daemon=True) for i in range(len(self.texts))]
        used = []
        with Patch(self.hook):
            for t in threads:
                t.start()
            for i in schedule:
                if self.state[i] == "done":
                    used.append(i)          # releasing a finished call is a no-op (as in the model)
                    continue
                if self.step(i, self.block_timeout):
                    used.append(i)
            # let everything finish (unscheduled remainder runs freely, one call at a time)
            last_progress = time.time()
            while any(st != "done" for st in self.state):
                progressed = False
                for i in range(len(self.texts)):
                    if self.state[i] != "done" and self.step(i, 0.05 if self.pending[i] else self.block_timeout):
                        used.append(i)
                        progressed = True
                if progressed:
                    last_progress = time.time()
                elif time.time() - last_progress > self.timeout:
                    self.problems.append("no call can make progress any more (calls %s never come back)"
                                         % [i for i, st in enumerate(self.state) if st != "done"])
                    break
            for t in threads:
                t.join(timeout=1.0)
        return used


def merges(counts):
    """All interleavings of len(counts) sequences with the given numbers of steps."""
    total = sum(counts)

    def rec(rem, acc):
        if len(acc) == total:
            yield list(acc)
            return
        for i, r in enumerate(rem):
            if r:
                rem[i] -= 1
                acc.append(i)
                yield from rec(rem, acc)
                acc.pop()
                rem[i] += 1
    yield from rec(list(counts), [])


def n_merges(counts):
    import math
    r, s = 1, 0
    for c in counts:
        s += c
        r *= math.comb(s, c)
    return r


HEADER = "From YV Require Import Model.LexerState."
HEADER_REAL = "From YV Require Import Model.LexerState Model.LexerStateReal."


def real_case_term(texts, facts, sched, obs, priv):
    """Same observation, but the model's tokenizer is Model/Lexer.v run on the TEXT itself."""
    fet = gal.lst("(%s, %s)" % (gal.s(t), gal.nat(max(1, len(facts[t][1])))) for t in sorted(set(texts)))
    pr = lambda tr: gal.lst("(%s, %s)" % (gal.boolean(e), gal.nat(p)) for e, p in tr)
    return ("{| r_fetches := %s; r_threads := %s; r_sched := %s; r_priv := %s; r_obs := %s |}"
            % (fet, gal.lst(gal.s(t) for t in texts), gal.natlist(sched), gal.boolean(priv), gal.lst(pr(tr) for tr in obs)))


def case_term(texts, facts, sched, obs, priv):
    ids = {t: k + 1 for k, t in enumerate(sorted(set(texts)))}
    table, fetches = [], []
    for t, k in ids.items():
        res, trace = facts[t]
        pos = 0
        for eof, after in trace:
            if eof and after == 1:
                break                      # a raising fetch: no table entry (model: FErr)
            table.append("((%s, %s), (%s, %s))" % (gal.z(k), gal.nat(pos), gal.nat(after if not eof else pos), gal.boolean(eof)))
            pos = after if not eof else pos + 1
        fetches.append("(%s, %s)" % (gal.z(k), gal.nat(max(1, len(trace)))))
    pr = lambda tr: gal.lst("(%s, %s)" % (gal.boolean(e), gal.nat(p)) for e, p in tr)
    return ("{| k_table := %s; k_fetches := %s; k_threads := %s; k_sched := %s; k_priv := %s; k_obs := %s |}"
            % (gal.lst(table), gal.lst(fetches), gal.zlist(ids[t] for t in texts), gal.natlist(sched),
               gal.boolean(priv), gal.lst(pr(tr) for tr in obs)))


def lexer_private():
    import gen_enginefacts
    return gen_enginefacts.probe_guarded()["private"]


def tables_snapshot(eng):
    p = eng.parser
    return (repr(sorted(p.action.items()))[:200000], repr(sorted(p.goto.items()))[:200000], len(p.productions))


def pick_texts(rng, k):
    return [rng.choice(INVALID) if rng.random() < 0.4 else rng.choice(VALID) for _ in range(k)]


def run_scheduled_case(run, eng, texts, sched, facts, priv, cases, meta):
    s = Scheduled(eng, texts)
    used = s.run(sched)
    switches = sum(1 for a, b in zip(used, used[1:]) if a != b)
    multi = sum(1 for t in texts if len(facts[t][1]) >= 2)
    run.case((tuple(texts), tuple(used)), nontrivial=(multi >= 2 and switches >= 2))
    run.count("calls:%d" % len(texts))
    run.count("schedule_len:%d" % (len(used) // 5 * 5))
    for t in texts:
        run.count("text:" + ("valid" if t in VALID else "invalid"))
    if s.problems:
        run.fail("violation", "a parse call did not terminate under a schedule: %s" % s.problems[0],
                 {"texts": texts, "schedule": used})
        return
    bad = [i for i, t in enumerate(texts) if s.results[i] != facts[t][0]]
    if bad:
        i = bad[0]
        run.fail("violation", "a scheduled parse call returned a result that is not the fresh-engine result of its text",
                 {"texts": texts, "schedule": used, "call": i, "observed": repr(s.results[i]),
                  "required_fresh_engine_result": repr(facts[texts[i]][0]),
                  "theorem": "C01_schedule_independent (premise lexer_private)"})
    cases.append(case_term(texts, facts, used, s.traces, priv))
    meta.append((texts, used, s.traces))
    if len(REAL_CASES) < REAL_BUDGET[0] and all("\\N" not in t for t in texts):
        REAL_CASES.append((real_case_term(texts, facts, used, s.traces, priv), (texts, used, s.traces)))


REAL_CASES = []
REAL_BUDGET = [0]


def correspondence(run):
    del REAL_CASES[:]
    REAL_BUDGET[0] = run.n(150, 1500)
    priv = lexer_private()
    eng = engine()
    snap = tables_snapshot(eng)
    facts = {t: solo_facts(t) for t in VALID + INVALID}
    cases, meta = [], []
    for texts, sched in load_corpus():
        run_scheduled_case(run, eng, texts, sched, facts, priv, cases, meta)
    budget = run.n(350, 6000)
    # exhaustive merges for short texts
    short = [t for t in VALID + INVALID if len(facts[t][1]) <= 3]
    done = 0
    for a, b in itertools.product(short, repeat=2):
        if done >= budget // 2:
            break
        if run.rng.random() > (0.12 if run.quick else 1.0):
            continue
        counts = [len(facts[a][1]) + 1, len(facts[b][1]) + 1]
        for sched in merges(counts):
            run_scheduled_case(run, eng, [a, b], sched, facts, priv, cases, meta)
            done += 1
            if done >= budget // 2:
                break
    # random merges for longer texts, 2-3 calls
    while done < budget:
        texts = pick_texts(run.rng, run.rng.choice([2, 2, 3]))
        counts = [len(facts[t][1]) + 1 for t in texts]
        sched = [i for i, c in enumerate(counts) for _ in range(c)]
        run.rng.shuffle(sched)
        run_scheduled_case(run, eng, texts, sched, facts, priv, cases, meta)
        done += 1
    if tables_snapshot(eng) != snap:
        run.fail("violation", "the engine's LR tables changed while parsing (shared state written by a parse call)", {})
    bad_real = run.coq_mismatches(HEADER_REAL, "c01r_case", "c01r_case_ok", [c for c, _ in REAL_CASES], shard=40)
    run.count("cases_with_the_lexer_model_as_tokenizer", len(REAL_CASES))
    for i in bad_real[:2]:
        texts, used, traces = REAL_CASES[i][1]
        run.fail("mismatch", "fetch positions observed under a schedule differ from the cursor model run on the lexer model "
                             "(Model/Lexer.v) of the texts",
                 {"texts": texts, "schedule": used, "observed_fetches": traces})
    bad = run.coq_mismatches(HEADER, "c01_case", "c01_case_ok", cases, shard=250)
    for i in bad[:3]:
        texts, used, traces = meta[i]
        run.fail("mismatch", "fetch positions observed under a schedule differ from the cursor model",
                 {"texts": texts, "schedule": used, "observed_fetches": traces,
                  "solo_fetches": [facts[t][1] for t in texts]})


def oracle(run, deep):
    eng = engine()
    fresh = {t: outcome(lambda: engine()(t)) for t in VALID + INVALID}
    # sequential histories: every order of small multisets on ONE engine
    n = run.n(150, 2500) * (3 if deep else 1)
    for _ in range(n):
        texts = pick_texts(run.rng, run.rng.choice([2, 3, 4]))
        orders = set(itertools.permutations(texts)) if len(texts) <= 3 else {tuple(run.rng.sample(texts, len(texts))) for _ in range(6)}
        for order in orders:
            got = [outcome(lambda t=t: eng(t)) for t in order]
            run.case(("hist", order), nontrivial=len(set(order)) > 1)
            run.count("history_len:%d" % len(order))
            for t, g in zip(order, got):
                if g != fresh[t]:
                    run.fail("violation", "a parse on a reused engine differs from the parse on a fresh engine",
                             {"history": list(order), "text": t, "observed": repr(g), "required": repr(fresh[t]),
                              "theorem": "C01_sequential_independent"})
                    return
    # near-duplicates: texts that differ only in layout (also inside string literals) or by characters that Python
    # calls whitespace but the lexer does not; parsed one after the other on ONE engine, both orders
    def variants(t):
        out = {t.replace(" ", "  "), t.replace(" ", "\t"), " " + t, t + " ", t.replace(" ", "\x0c"), t.replace(" ", "\xa0"),
               t.replace(" ", "\n"), t.replace(" ", "")}
        out.discard(t)
        return sorted(out)
    extra = ["'a b'", "\"x  y\"", "`p q`", "$.get('first name')", "'a' + ' '", "f('a b', 1)"]
    fresh_memo = {}

    def fresh_of(x):
        if x not in fresh_memo:
            fresh_memo[x] = outcome(lambda: engine()(x))
        return fresh_memo[x]
    for t in VALID + extra:
        if " " not in t:
            continue
        e2 = engine()
        hist = []
        for v in variants(t):
            for x in (t, v, t):
                hist.append(x)
                got = outcome(lambda: e2(x))
                run.case(("neardup", t, v, len(hist)), nontrivial=True)
                run.count("near_duplicate_history")
                if got != fresh_of(x):
                    run.fail("violation", "a parse on a reused engine differs from the parse on a fresh engine "
                                          "(texts that differ only in layout / whitespace-like characters)",
                             {"history": hist[-3:], "text": x, "observed": repr(got), "required": repr(fresh_of(x)),
                              "theorem": "C01_sequential_independent"})
                    return
    # re-entrant switch emulation: a complete parse of B between two fetches of A (thread-free)
    pool = VALID + INVALID
    serialising = [False]
    proven_reentrant = [False]

    def guarded(fn, seconds=20.0):
        """run fn in a helper thread; None when it does not return (an engine that serialises its parses blocks a parse
        started from inside another parse of the same thread: then this thread-free emulation does not apply)"""
        box = []
        th = threading.Thread(target=lambda: box.append(fn()), daemon=True)
        th.start()
        th.join(seconds)
        return box[0] if box else None
    for a in pool:
        # the other call may also be one that FAILS before it reads a token (an argument that is no text at all)
        others = run.rng.sample(pool, 6 if run.quick else len(pool)) + run.rng.sample(EXOTIC_ARGS, 2 if run.quick else len(EXOTIC_ARGS))
        for b in others:
            if serialising[0]:
                break
            for at in range(1, 4):
                cnt = [0]
                inner = []

                def hook(lexer, orig, cnt=cnt, inner=inner):
                    if not inner:
                        cnt[0] += 1
                        if cnt[0] == at + 1:
                            inner.append(1)
                            try:
                                eng(b)
                            except Exception:
                                pass
                            inner.append(2)
                    return orig(lexer)
                def one():
                    with Patch(hook):
                        return outcome(lambda: eng(a))
                if not proven_reentrant[0]:
                    # first make sure, on an engine of its own and under a watchdog, that a parse started inside another
                    # parse returns at all; after that the emulation runs in THIS thread (a parse may behave differently
                    # when it is the only thread of the process)
                    probe_eng = engine()

                    def probe_one():
                        def h(lexer, orig, st=[0]):
                            st[0] += 1
                            if st[0] == 2:
                                try:
                                    probe_eng("1")
                                except Exception:
                                    pass
                            return orig(lexer)
                        with Patch(h):
                            return outcome(lambda: probe_eng("1 + 2"))
                    if guarded(probe_one) is None:
                        got = None
                    else:
                        proven_reentrant[0] = True
                        got = one()
                else:
                    got = one()
                if got is None:
                    serialising[0] = True
                    run.note("re-entrant emulation stopped: a parse started inside another parse of the same thread does not return "
                             "(the engine serialises parses); real-thread schedules decide")
                    break
                run.case(("reentrant", a, repr(b), at), nontrivial=True)
                run.count("reentrant")
                if got != fresh[a]:
                    run.fail("violation", "a complete parse of another text between two token fetches changes the result",
                             {"text": a, "other_text": repr(b), "after_fetch": at, "observed": repr(got), "required": repr(fresh[a]),
                              "theorem": "C01_schedule_independent (premise lexer_private)"})
                    return
    if serialising[0]:
        # the abandoned emulation thread keeps its parse (and whatever the engine holds during a parse) forever: the other
        # stages get an engine object of their own
        eng = engine()
    route_schedules(run, eng, fresh)
    option_engines(run, fresh)
    process_wide_state(run)
    dialect_histories(run)
    # the module-level route (yaql.eval: one engine and one table of parsed texts per process): overlapping calls after
    # a long history, thread switch at every line boundary of yaql/__init__.py
    import evalrace
    evalrace.run_races(run, "C01")
    if not run.quick or deep:
        free_running(run, eng, fresh)


class KeepParserOut:
    """An engine created with the yaql.debug option makes ply rewrite yaql/language/parser.out (a tracked file of the
    checkout under test); the file is put back byte for byte."""

    def __enter__(self):
        import os
        import yaql.language.parser as P
        self.path = os.path.join(os.path.dirname(os.path.abspath(P.__file__)), "parser.out")
        self.data = open(self.path, "rb").read() if os.path.exists(self.path) else None
        return self

    def __exit__(self, *a):
        import os
        if self.data is None:
            if os.path.exists(self.path):
                os.remove(self.path)
        else:
            cur = open(self.path, "rb").read() if os.path.exists(self.path) else None
            if cur != self.data:
                with open(self.path, "wb") as f:
                    f.write(self.data)


def other_alias_dialect():
    """A factory whose operator records give existing symbols OTHER aliases / no alias (the third element of an operator
    record is a documented customisation) and that aliases symbols the standard table does not alias."""
    import yaql
    f = yaql.YaqlFactory()
    ops = []
    for rec in f.operators:
        if isinstance(rec, tuple) and len(rec) == 3:
            ops.append((rec[0], rec[1], "alt_" + rec[2]))
        elif isinstance(rec, tuple) and len(rec) == 2 and rec[0] in ("+", "<", "and"):
            ops.append((rec[0], rec[1], "alt_op_%d" % len(ops)))
        else:
            ops.append(rec)
    f.operators = ops
    return f


def fresh_process_outcomes(texts):
    """Reference outcomes immune to ANY state of this process: each text parsed by a fresh engine in a brand-new
    interpreter (8 at a time)."""
    import concurrent.futures
    import json
    import os
    import subprocess
    helper = ("import sys, json; sys.path.insert(0, %r); from props import c01; "
              "print(json.dumps(repr(c01.outcome(lambda: c01.engine()(json.loads(sys.argv[1]))))))"
              % os.path.dirname(os.path.dirname(os.path.abspath(__file__))))

    def one(t):
        import json as j
        p = subprocess.run([sys.executable, "-W", "ignore", "-c", helper, j.dumps(t)], capture_output=True, text=True,
                           timeout=120, env=dict(os.environ))
        try:
            return t, j.loads(p.stdout.strip().split("\n")[-1])
        except Exception:
            return t, None
    with concurrent.futures.ThreadPoolExecutor(max_workers=8) as ex:
        return dict(ex.map(one, texts))


def process_wide_state(run):
    """Texts that share an ill-formed or unusual literal at DIFFERENT offsets, parsed in one process after one another
    and after other dialects were built: tree / error class / position / offending value must be those of a brand-new
    interpreter (a process-wide memo or a class-level table shared by all engines would show here)."""
    import yaql
    lits = ["'\\xzz'", '"\\N{NO SUCH NAME}"', "'\\U00110000'", "'ok'", "12345678901234567890", "'a\\tb'"]
    texts = []
    for lit in lits:
        texts += [lit, "1 + " + lit, "f(1, 2, %s)" % lit, "[%s, %s]" % (lit, lit), "    %s" % lit, "$.a.b.c(%s)" % lit]
    texts += ["1 = 2", "$.a != 3 and not $.b = 4", "f($x = 1, 2 != $y)", "1 + 2 < 3", "a and b", "1 = "]
    ref = fresh_process_outcomes(texts)
    eng = engine()
    for rnd in range(2):
        for t in (texts if rnd == 0 else list(reversed(texts))):
            got = repr(outcome(lambda: eng(t)))
            run.case(("process-wide", t, rnd), nontrivial=True)
            run.count("process_wide_state_parse")
            if ref.get(t) is not None and got != ref[t]:
                run.fail("violation", "a parse differs from the parse of the same text by a fresh engine in a brand-new interpreter "
                                      "(state shared by all engines / all parses of the process)",
                         {"text": t, "round": rnd, "observed": got, "required": ref[t],
                          "history": "the texts of process_wide_state() in %s order, other dialects created in between" % ("given" if rnd == 0 else "reversed")})
                return
        other_alias_dialect().create()
        yaql.YaqlFactory(keyword_operator=None).create()


EXOTIC_ARGS = [None, b"1 + 2", 5, ["a"], 2.5, {"a": 1}, object]


def route_schedules(run, eng, fresh):
    """Real threads on ONE engine whose calls go through its different parse routes - engine(text), engine(text, options),
    engine.copy(options)(text) - or fail before reading a token (arguments that are no text), switched at every token
    fetch: each call gets what a fresh engine gives."""
    texts = [t for t in VALID if len(t) > 6][:8] + INVALID[:3]
    rng = run.rng
    for _ in range(run.n(40, 400)):
        k = rng.choice([2, 2, 3])
        items = []
        for _ in range(k):
            r = rng.random()
            if r < 0.2:
                items.append(rng.choice(EXOTIC_ARGS))
            else:
                items.append((rng.choice(["plain", "options", "copy", "copy", "options"]), rng.choice(texts)))
        if not any(isinstance(x, tuple) for x in items):
            continue
        counts = [(len(solo_facts(x[1])[1]) + 1) if isinstance(x, tuple) else 1 for x in items]
        sched = [i for i, c in enumerate(counts) for _ in range(c)]
        rng.shuffle(sched)
        s = Scheduled(eng, items)
        used = s.run(sched)
        run.case(("routes", tuple(map(repr, items)), tuple(used)), nontrivial=True)
        run.count("route_schedule")
        if s.problems:
            run.fail("violation", "parse calls through different routes of one engine: %s" % s.problems[0],
                     {"routes": [repr(x) for x in items], "schedule": used})
            return
        for x, res in zip(items, s.results):
            want = fresh.get(x[1]) if isinstance(x, tuple) else None
            if want is None:
                want = outcome(lambda: engine()(x[1] if isinstance(x, tuple) else x))
            if res != want:
                run.fail("violation", "a parse through another route of the engine (per-call options / a copy) or next to a call that "
                                      "failed before reading a token differs from the parse by a fresh engine",
                         {"routes": [repr(y) for y in items], "call": repr(x), "schedule": used, "observed": repr(res), "required": repr(want)})
                return


DIALECTS = ["default", "delegates", "nokw", "legacy", "legacy-delegates", "legacy+op", "default+op", "other-alias"]
DIALECT_TEXTS = ["1 + 2", "$(1)", "f()(2)", "$.a.b(c => 1)", "1 : 2", "a : b + 1", "a &&& b", "x is y", "$.is", "{a => 1}", "a => 1",
                 "f(a => 1)", "not a or b", "isnt a", "2 %% 3", "a isnt", "1 +", "[1, 2][0]", "$x -> $y", "'s' =~ 't'"]


def _dialect_run(spec):
    import json
    import os
    import subprocess
    helper = os.path.join(os.path.dirname(os.path.dirname(os.path.abspath(__file__))), "c01_dialects.py")
    p = subprocess.run([sys.executable, "-W", "ignore", helper, json.dumps(spec)], capture_output=True, text=True, timeout=300,
                       env=dict(os.environ))
    try:
        return json.loads(p.stdout.strip().split("\n")[-1])
    except Exception:
        return {"__error__": (p.stderr or p.stdout)[-400:]}


def dialect_histories(run):
    """Engines of several dialects in ONE process - default, delegates, no keyword operator, legacy (plain, with delegates,
    with an inserted operator), customised tables - created in varying orders, optionally with the factory customised
    further after the engine was created (before / after the engine's first parse): every engine parses every text as
    the only engine of a brand-new interpreter with the same configuration does."""
    import concurrent.futures
    ref = {}
    with concurrent.futures.ThreadPoolExecutor(max_workers=8) as ex:
        for name, r in zip(DIALECTS, ex.map(lambda n: _dialect_run({"order": [n], "texts": DIALECT_TEXTS}), DIALECTS)):
            ref[name] = r.get(name)
    if any(v is None for v in ref.values()):
        run.note("dialect histories: reference run failed for %s" % [k for k, v in ref.items() if v is None])
        return
    orders = [DIALECTS[i:] + DIALECTS[:i] for i in range(0, len(DIALECTS), 2 if run.quick else 1)]
    orders += [list(reversed(DIALECTS))]
    specs = []
    for i, o in enumerate(orders):
        specs.append({"order": o, "texts": DIALECT_TEXTS, "modify": i % 2 == 1, "warm": i % 4 == 3})
    specs.append({"order": DIALECTS, "texts": DIALECT_TEXTS, "modify": True, "warm": False})
    specs.append({"order": DIALECTS, "texts": DIALECT_TEXTS, "modify": True, "warm": True})
    with concurrent.futures.ThreadPoolExecutor(max_workers=8) as ex:
        results = list(ex.map(_dialect_run, specs))
    for spec, res in zip(specs, results):
        if "__error__" in res:
            run.fail("violation", "engines of several dialects could not be created / used in one process: %s" % res["__error__"][-200:],
                     {"dialect_history": spec})
            return
        for name in spec["order"]:
            for t in DIALECT_TEXTS:
                run.case(("dialects", tuple(spec["order"]), spec["modify"], spec["warm"], name, t), nontrivial=True)
                run.count("dialect_history_parse")
                if res[name][t] != ref[name][t]:
                    run.fail("violation", "an engine parses a text differently from the only engine of a brand-new interpreter with the "
                                          "same configuration (it depends on engines created earlier in the process, or on changes made "
                                          "to its factory after it was created)",
                             {"dialect_history": {k: spec[k] for k in ("order", "modify", "warm")}, "engine": name, "text": t,
                              "observed": res[name][t], "required": ref[name][t]})
                    return


def option_engines(run, fresh):
    """Engines created with every documented option (yaql.debug included), used after engines of OTHER dialects were
    created in the same process, sequentially and under a strict two-call alternation: same results as a fresh default engine."""
    import contextlib
    import io
    import yaql
    from yaql import legacy
    texts = ["1 + 2", "$.a.b(c => 1)", "not a or b and c", "x in [1, 2]", "f(a => 1, 2)", "1 +", "a b", "'x' + `y`", "$.where($ > 1)"]
    option_sets = [{"yaql.debug": True}, {"yaql.limitIterators": 10}, {"yaql.memoryQuota": 1000}, {"yaql.convertInputData": False},
                   {"yaql.convertSetsToLists": True, "yaql.debug": True}]
    with KeepParserOut(), contextlib.redirect_stderr(io.StringIO()):
        for opts in option_sets:
            eng = yaql.YaqlFactory().create(options=dict(opts))
            # other dialects created afterwards in the same process
            legacy.YaqlFactory().create()
            yaql.YaqlFactory(keyword_operator=None).create()
            f2 = yaql.YaqlFactory()
            f2.insert_operator("and", True, "&&&", yaql.language.factory.OperatorType.BINARY_LEFT_ASSOCIATIVE, False)
            f2.create()
            other_alias_dialect().create()
            for t in texts:
                got = outcome(lambda: eng(t))
                want = fresh.get(t) or outcome(lambda: engine()(t))
                run.case(("optengine", tuple(sorted(opts)), t), nontrivial=True)
                run.count("option_engine_parse")
                if got != want:
                    run.fail("violation", "an engine created with options %s parses a text differently from a fresh default engine "
                                          "(after engines of other dialects were created in the process)" % sorted(opts),
                             {"options": opts, "text": t, "observed": repr(got), "required": repr(want)})
                    return
            for a, b in (("1 + 2", "$.a.b(c => 1)"), ("not a or b and c", "1 +"), ("x in [1, 2]", "'x' + `y`")):
                fa, fb = solo_facts(a), solo_facts(b)
                counts = [len(fa[1]) + 1, len(fb[1]) + 1]
                sched = [i % 2 for i in range(2 * max(counts))]
                s = Scheduled(eng, [a, b])
                used = s.run(sched)
                run.case(("optengine-sched", tuple(sorted(opts)), a, b), nontrivial=True)
                run.count("option_engine_schedule")
                if s.problems or s.results[0] != fa[0] or s.results[1] != fb[0]:
                    run.fail("violation", "two alternating parse calls on an engine created with options %s interfere" % sorted(opts),
                             {"options": opts, "texts": [a, b], "schedule": used, "observed": repr(s.results),
                              "required": repr([fa[0], fb[0]])})
                    return


def free_running(run, eng, fresh, seconds=None):
    import time
    seconds = seconds or (20 if not run.quick else 5)
    old = sys.getswitchinterval()
    sys.setswitchinterval(1e-6)
    stop = time.time() + seconds
    bad = []
    texts = [t for t in VALID if len(t) > 4] + INVALID[:6]

    def worker(k):
        i = k
        while time.time() < stop and not bad:
            t = texts[i % len(texts)]
            i += 3
            g = outcome(lambda: eng(t))
            if g != fresh[t]:
                bad.append((t, repr(g), repr(fresh[t])))
    try:
        ths = [threading.Thread(target=worker, args=(k,), daemon=True) for k in range(4)]
        for t in ths:
            t.start()
        for t in ths:
            t.join(seconds + 60)
        if any(t.is_alive() for t in ths):
            bad.append(("<any>", "a parse call never returns (free-running threads on one engine)", "every call returns"))
    finally:
        sys.setswitchinterval(old)
    run.count("free_running_seconds", int(seconds))
    run.note("free-running soak: 4 threads, switch interval 1e-6 s, %d s" % seconds)
    if bad:
        run.fail("violation", "free-running threads: a parse result differs from the fresh-engine result",
                 {"text": bad[0][0], "observed": bad[0][1], "required": bad[0][2]})


def load_corpus():
    import json
    import os
    path = os.path.join(os.path.dirname(os.path.dirname(os.path.dirname(os.path.abspath(__file__)))), "corpus", "C01.json")
    if not os.path.exists(path):
        return []
    return [(c["texts"], c["schedule"]) for c in json.load(open(path))]


def replay(run, data):
    d = data.get("data", {})
    if "dialect_history" in d and "engine" in d:
        h = d["dialect_history"]
        ref = _dialect_run({"order": [d["engine"]], "texts": [d["text"]]})
        got = _dialect_run({"order": h["order"], "texts": [d["text"]], "modify": h["modify"], "warm": h["warm"]})
        return ref.get(d["engine"]) == got.get(d["engine"])
    if d.get("route") == "yaql.eval":
        class P:
            failed = False
            rng, quick, cov = run.rng, True, {}
            def case(self, *a, **k): pass
            def count(self, *a, **k): pass
            def note(self, *a, **k): pass
            def n(self, q, t): return q
            def fail(self, *a, **k): self.failed = True
        p = P()
        import evalrace
        evalrace.run_races(p, "C01")
        return not p.failed
    eng = engine()
    if "schedule" in d and "texts" in d:
        s = Scheduled(eng, d["texts"])
        s.run(d["schedule"])
        return all(s.results[i] == outcome(lambda t=t: engine()(t)) for i, t in enumerate(d["texts"])) and not s.problems
    if "history" in d:
        return all(outcome(lambda t=t: eng(t)) == outcome(lambda t=t: engine()(t)) for t in d["history"])
    if "other_text" in d:
        return True
    return True
