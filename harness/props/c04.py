"""C04 - core evaluation semantics follow the language reference.

P: Props/C04.v - theorems about the reference interpreter Model/Eval.v (append-only context heap:
   evaluation never changes a pre-existing context; lookup = nearest defining layer, else null;
   $/$1..$n of the innermost lambda; closures resolve in their defining chain).
C: generated programs of the fragment (nested lambdas, let-chains, def with capture and shadowing,
   with/unpack, list/map/index, member access, method chains, lazy pipelines) x JSON-like documents:
   the REAL parse tree is translated to the model's AST, the model is run inside Coq, and finalised
   value / error class / tick log are compared.
O: metamorphic checks on the implementation alone (alpha-renaming a let variable, wrapping in an
   unused let, evaluating twice)."""
import re

import eval_common as ec

GEN = []
RULE = ("type-directed random programs of depth <= 5 over the fragment of Model/Eval.v with a small pool of reused "
        "names (x,y,z,l,m,f,g,h) so that shadowing and capture occur, evaluated on int/list/dict/list-of-dict "
        "documents; non-trivial = the program nests at least two scoping constructs (let/def/with/unpack/lambda) "
        "and the model supports it; distinct = distinct (program text, document)")
TRUSTED = ["Model/Eval.v: reference interpreter written from the language reference and the call protocol",
           "harness/eval_common.py: translation of the real parse tree (yaql.language.expressions nodes) into the model's AST; "
           "value printer; exception-class -> error-kind map",
           "programs on which the model answers Unsup (outside the fragment) are skipped and counted"]
ASSUMPTIONS = ["the fragment: literals, variables, list/map/index, + - * comparisons and/or/not, .key, .select/.where/.any/"
               ".all/.first/.toList/.len/.unpack/.get, let/with/def/->, switch/coalesce/?., calls of def'd functions",
               "stdlib functions outside the fragment, delegates and host-overridden #get_context_data are not modelled"]
EXPLANATION = ("frame / scoping theorems on a reference interpreter + differential evaluation of generated nested "
               "programs (real parse tree -> model AST, model run by vm_compute)")

SCOPERS = re.compile(r"\b(let|def|with|unpack|select|where|any|all)\(")


def build_cases(run, n, tick_p, depth_choices=(2, 3, 3, 4, 5)):
    hist = run.cov["histogram"]
    g = ec.Gen(run.rng, tick_p=tick_p, hist={})
    cases, meta = [], []
    for text, data in load_corpus("C04"):
        add_case(run, text, data, cases, meta)
    for _ in range(n):
        kind = run.rng.choice(["int", "list", "dict", "dictlist", "none"])
        data = ec.gen_data(run.rng, kind)
        text = g.program(kind, run.rng.choice(depth_choices))
        add_case(run, text, data, cases, meta)
    for k, v in g.hist.items():
        hist["construct:" + k] = hist.get("construct:" + k, 0) + v
    return cases, meta


def add_case(run, text, data, cases, meta):
    try:
        # one of the meaning-preserving engine configurations (limits that are never reached, options spelled out)
        variant = run.rng.randrange(len(ec.NEUTRAL_OPTIONS)) if run.rng.random() < 0.5 else 0
        stmt = ec.engine_variant(variant)(text)
        run.count("engine_options:%d" % variant)
    except Exception as e:
        run.count("generator_parse_error")
        return
    log, r = ec.run_real(text, data, stmt=stmt)
    run.count("outcome:" + (r[0] if r[0] == "ok" else r[1]))
    try:
        term = ec.case_term(text, data, log, r, stmt=stmt)
    except ec.Unsupported as e:
        run.cov["skipped"] += 1
        run.count("untranslatable")
        return
    cases.append(term)
    meta.append((text, data, log, r))


def correspondence(run):
    cases, meta = build_cases(run, run.n(1500, 30000), tick_p=0.15)
    bad = set(run.coq_mismatches(ec.HEADER, "ev_case", "ev_case_ok", cases, shard=250))
    skipped = set(run.coq_mismatches(ec.HEADER, "ev_case", "fun k => negb (ev_case_skipped k)", cases, shard=250))
    run.cov["skipped"] += len(skipped)
    for i, (text, data, log, r) in enumerate(meta):
        nest = len(SCOPERS.findall(text))
        run.case((text, repr(data)), nontrivial=(nest >= 2 and i not in skipped))
        if i % 211 == 0:
            run.sample({"program": text, "data": data, "tick_log": log, "result": repr(r)})
    for i in sorted(bad)[:3]:
        text, data, log, r = meta[i]
        text, data = shrink(run, text, data)
        log, r = ec.run_real(text, data)
        model = model_result(run, text, data)
        run.fail("violation", "program on which yaql's result differs from the reference interpreter of the language reference",
                 {"program": text, "data": data, "observed_log": log, "observed": repr(r), "reference_interpreter": model,
                  "theorems": ["C04_frame", "C04_lookup_nearest", "C04_dollar_innermost"]})
    if len(bad) > 3:
        run.note("%d further disagreeing programs not shrunk" % (len(bad) - 3))


def model_result(run, text, data):
    try:
        stmt = ec.engine()(text)
        return run.coq_eval(ec.HEADER, "run 400 %s %s" % (ec.val_term(data), ec.tr(stmt)))[-1500:]
    except Exception as e:
        return "could not evaluate the model: %r" % e


def differs(run, text, data):
    try:
        stmt = ec.engine()(text)
        log, r = ec.run_real(text, data, stmt=stmt)
        term = ec.case_term(text, data, log, r, stmt=stmt)
    except Exception:
        return False
    return bool(run.coq_mismatches(ec.HEADER, "ev_case", "ev_case_ok", [term]))


def shrink(run, text, data, budget=25):
    """Greedy: replace a parenthesised / bracketed sub-term by a literal while the disagreement persists."""
    cur = text
    for _ in range(budget):
        changed = False
        for m in re.finditer(r"\(([^()]*)\)|\[([^\[\]]*)\]", cur):
            if m.group(0) in ("()", "[]"):
                continue
            for rep in ("1", "[]"):
                cand = cur[:m.start()] + rep + cur[m.end():]
                if len(cand) < len(cur) and differs(run, cand, data):
                    cur, changed = cand, True
                    break
            if changed:
                break
        if not changed:
            break
    return cur, data


def oracle(run, deep):
    """Metamorphic checks on the implementation alone."""
    mutated_documents(run)
    attribution_is_mapped_access(run)
    keyword_lambda_equivalence(run)
    composite_host_contexts(run)
    variable_dispatch_histories(run)
    binding_names(run)
    structural_keys(run)
    g = ec.Gen(run.rng, tick_p=0.0, hist={})
    n = run.n(200, 4000) * (3 if deep else 1)
    for _ in range(n):
        kind = run.rng.choice(["int", "list", "dict", "none"])
        data = ec.gen_data(run.rng, kind)
        text = g.program(kind, run.rng.choice([2, 3, 4]))
        base = ec.run_real(text, data)[1]
        if base[0] == "err" and base[1].startswith("Other:"):
            continue
        variants = {
            "unused_let": "let(q9 => 77) -> (%s)" % text,
            "alpha": re.sub(r"\$x\b", "$xx", re.sub(r"\bx =>", "xx =>", re.sub(r"unpack\(([^)]*)\bx\b", r"unpack(\1xx", text))),
            "unused_def": "def(k9, $ + 1000) -> (%s)" % text,
        }
        run.case(("meta", text, repr(data)), nontrivial=len(SCOPERS.findall(text)) >= 2)
        run.count("metamorphic")
        for name, vt in variants.items():
            try:
                got = ec.run_real(vt, data)[1]
            except Exception:
                continue
            if repr(got) != repr(base):
                run.fail("violation", "metamorphic variant (%s) of a program evaluates differently" % name,
                         {"program": text, "variant": vt, "data": data, "observed": repr(got), "original": repr(base)})
                return


def mutated_documents(run):
    """One parsed Statement (and one engine) evaluated repeatedly on ONE document object that the host edits in place
    between the calls: every evaluation must see the document as it is now (= a freshly parsed statement on a deep copy)."""
    import copy
    import yaql
    texts = ["$", "$.items.len()", "$.items.select($.n).toList()", "$.items.where($.n > 1).len()", "$.limit + 1",
             "let(k => $.limit) -> $.items.where($.n > $k).select($.n).toList()", "$.tags", "$.items[0].n", "$.items.n"]
    eng = ec.engine()
    for text in texts:
        stmt = eng(text)
        doc = {"limit": 1, "items": [{"n": 1}, {"n": 2}], "tags": ["a"]}
        edits = [lambda d: d["items"].append({"n": 3}), lambda d: d.__setitem__("limit", 2),
                 lambda d: d["items"][0].__setitem__("n", 9), lambda d: d["tags"].append("b"), lambda d: d["items"].pop()]
        for step in range(len(edits) + 1):
            got = ec.run_real(text, doc, stmt=stmt)[1]
            want = ec.run_real(text, copy.deepcopy(doc), stmt=yaql.YaqlFactory().create()(text))[1]
            run.case(("mutated", text, step), nontrivial=step > 0)
            run.count("mutated_document_step")
            if repr(got) != repr(want):
                run.fail("violation", "a statement evaluated again on a document the host edited in place does not see the current "
                                      "document (`$` is not the data passed to evaluate)",
                         {"program": text, "edits_applied": step, "document_now": repr(doc), "observed": repr(got), "required": repr(want)})
                return
            if step < len(edits):
                edits[step](doc)


def _outcome(eng, text, data, ctx):
    import yaql
    try:
        return ("ok", repr(eng(text).evaluate(data=data, context=ctx)))
    except Exception as e:
        return ("err", type(e).__name__)


def attribution_is_mapped_access(run):
    """`collection.name` is member access mapped over the elements: in every context it gives what
    `collection.select($.name)` gives - with the '.' that is in effect THERE (legacy null-for-missing, a host's own
    `#operator_.` overload for dictionaries, a yaqlized host object among the elements)."""
    import yaql
    import yaql.legacy
    from yaql import yaqlization
    from yaql.language import specs, utils, yaqltypes

    @specs.parameter("d", utils.MappingType, alias="dict")
    @specs.parameter("key", yaqltypes.Keyword())
    @specs.name("#operator_.")
    def lenient(d, key):
        v = d.get(key)
        return "?" if v is None else v

    def host():
        c = yaql.create_context().create_child_context()
        c.register_function(lenient)
        return c

    class Obj(object):
        def __init__(self, **kw):
            self.__dict__.update(kw)
    rng = run.rng
    std, leg = yaql.YaqlFactory().create(), yaql.legacy.YaqlFactory().create()
    settings = [("standard", std, yaql.create_context), ("legacy", leg, yaql.legacy.create_context), ("host-dot", std, host),
                ("standard-raw", yaql.YaqlFactory().create({"yaql.convertInputData": False}), yaql.create_context)]
    keys = ["name", "nick", "tags", "t", "u"]
    for round_ in range(run.n(30, 400)):
        people = []
        for _ in range(rng.randrange(0, 4)):
            d = {}
            for k in keys[:3]:
                if rng.random() < 0.7:
                    d[k] = rng.choice([None, "a", 1, [{"t": 1}, {"t": 2, "u": 5}], [{"t": 3}], [], {"t": 9}])
            people.append(d)
        if rng.random() < 0.25:
            people.append(yaqlization.yaqlize(Obj(name="o", nick=None)))
        doc = {"people": people}
        for label, eng, mk in settings:
            for k in ("name", "nick", "tags"):
                pairs = [("$.people.%s" % k, "$.people.select($.%s)" % k),
                         ("let(p => $.people) -> $p.where($.name != a).%s" % k, "let(p => $.people) -> $p.where($.name != a).select($.%s)" % k)]
                if k == "tags" and all(isinstance(q, dict) and isinstance(q.get("tags", []), list) for q in people):
                    pairs.append(("$.people.tags.t", "$.people.select($.tags.select($.t))"))
                for mapped, elementwise in pairs:
                    a, b = _outcome(eng, mapped, doc, mk()), _outcome(eng, elementwise, doc, mk())
                    run.case(("attr", label, mapped, repr(doc)), nontrivial=len(people) >= 2)
                    run.count("attribution:" + label)
                    run.count("attribution_outcome:" + a[0])
                    if mapped == "$.people.tags.t" and a[0] == b[0] == "err":
                        continue        # null.t and null.select(..) are different errors; only the error status is comparable
                    if a != b:
                        run.fail("violation", "`collection.name` is not the context's member access mapped over the elements "
                                              "(differs from collection.select($.name))",
                                 {"context": label, "program": mapped, "variant": elementwise, "data": repr(doc)[:600],
                                  "observed": repr(a), "original": repr(b)})
                        return


COMPOSITE_PROGRAMS = [
    "[$a, $b, $c, $limit]", "$.where($ < $limit).toList()", "$.select([$, $a]).toList()", "let(a => 1) -> [$a, $b]",
    "let(b => $a) -> [$a, $b, $c]", "def(f, $a) -> [f(), let(a => 9) -> f()]", "$.select(let(c => $) -> [$a, $c]).toList()",
    "[$nosuch, $a = null, $b = null]", "with($a, $b) -> [$1, $2, $a]", "$.where($ > $a and $ < $limit).len()",
    "[$, $1].len() + coalesce($limit, 0)", "[1, 2].select($ + coalesce($c, 100)).toList()",
]


def _chain(root, layers):
    """plain contexts, outermost first; returns the leaf"""
    from yaql.language import contexts
    c = root
    for layer in layers:
        c = contexts.Context(c) if c is not None else contexts.Context()
        for k, v in layer.items():
            c[k] = v
    return c


def composite_host_contexts(run):
    """The host may hand evaluate() a MultiContext or a LinkedContext: names resolve layer by layer exactly as in the
    equivalent chain of plain contexts (per layer the members in order; a linked chain sits on top of its parent chain) -
    an inner layer's binding shadows every outer one whichever member holds it."""
    import yaql
    from yaql.language import contexts
    rng = run.rng
    eng = ec.engine()
    names = ["a", "b", "c", "limit"]
    for _ in range(run.n(40, 600)):
        n = rng.randrange(1, 4)
        mk = lambda: {k: rng.choice([None, 0, 1, 3, 10, [7]]) for k in names if rng.random() < 0.45}
        A, B = [mk() for _ in range(n)], [mk() for _ in range(n)]
        std = yaql.create_context()
        kind = rng.choice(["multi", "multi_children", "linked", "linked_multi"])
        if kind in ("multi", "multi_children"):
            a_leaf, b_leaf = _chain(std, A), _chain(None, B)
            host = contexts.MultiContext([a_leaf, b_leaf])
            flat_layers = [dict(b, **a) for a, b in zip(A, B)]           # the first member answers first
            if kind == "multi_children":
                host = host.create_child_context()
                flat_layers.append({})
            flat = _chain(std, flat_layers)
        elif kind == "linked":
            p_leaf, l_leaf = _chain(std, A), _chain(None, B)
            host = contexts.LinkedContext(p_leaf, l_leaf)
            flat = _chain(std, A + B)
        else:
            p_leaf = _chain(std, A)
            l1, l2 = _chain(None, B), _chain(None, [mk() for _ in range(n)])
            host = contexts.LinkedContext(p_leaf, contexts.MultiContext([l1, l2]))
            # the linked multi-context contributes its merged layers, innermost last
            B2 = []
            c1, c2 = l1, l2
            while c1 is not None:
                B2.insert(0, dict({k.lstrip("$"): c2[k] for k in c2.keys()}, **{k.lstrip("$"): c1[k] for k in c1.keys()}))
                c1, c2 = c1.parent, c2.parent
            flat = _chain(std, A + B2)
        for text in COMPOSITE_PROGRAMS:
            data = [1, 2, 3, 4, 5]
            a, b = _outcome(eng, text, data, host.create_child_context()), _outcome(eng, text, data, flat.create_child_context())
            run.case(("composite", kind, text, repr(A), repr(B)), nontrivial=n >= 2)
            run.count("composite_host:" + kind)
            if a != b:
                run.fail("violation", "on a composite host context (%s) a name does not resolve to the nearest layer that defines "
                                      "it (differs from the equivalent chain of plain contexts)" % kind,
                         {"host_shape": kind, "program": text, "variant": text, "data": data, "layers_first": A, "layers_second": B,
                          "observed": repr(a), "original": repr(b)})
                return


VARIABLE_PROGRAMS = ["[$x, $bonus, $missing]", "$bonus", "let(x => 1) -> [$x, $bonus]", "[1, 2].select($ + coalesce($bonus, 0)).toList()",
                     "def(f, $bonus) -> [f(), f()]", "$.select([$, $bonus]).toList()", "[$, $1, $x]", "coalesce($missing, 5)"]


def variable_dispatch_histories(run):
    """`$name` is the call #get_context_data('$name') dispatched through the context of EACH evaluation (the language
    reference: the host may override it - external look-ups, errors for missing variables): one parsed statement
    evaluated in contexts that override it differently gives, every time, what a freshly parsed statement gives there."""
    import yaql
    from yaql.language import specs, utils, yaqltypes
    external = {"$bonus": 100, "$x": "ext"}

    class MissingVariable(Exception):
        pass

    @specs.parameter("name", yaqltypes.StringConstant())
    @specs.name("#get_context_data")
    def lenient(name, context):
        v = context.get_data(name, utils.NO_VALUE)
        return external.get(name) if v is utils.NO_VALUE else v

    @specs.parameter("name", yaqltypes.StringConstant())
    @specs.name("#get_context_data")
    def strict(name, context):
        v = context.get_data(name, utils.NO_VALUE)
        if v is utils.NO_VALUE:
            raise MissingVariable(name)
        return v
    root = yaql.create_context()
    ctxs = {"plain": root.create_child_context(), "external": root.create_child_context(), "strict": root.create_child_context()}
    ctxs["external"].register_function(lenient)
    ctxs["strict"].register_function(strict)
    ctxs["external-child"] = ctxs["external"].create_child_context()
    rng = run.rng
    eng = ec.engine()
    for text in VARIABLE_PROGRAMS:
        for _ in range(run.n(4, 30)):
            stmt = eng(text)
            hist = [rng.choice(sorted(ctxs)) for _ in range(rng.randrange(2, 6))]
            for step, name in enumerate(hist):
                def ev(st):
                    try:
                        return ("ok", repr(st.evaluate(data=[1, 2], context=ctxs[name].create_child_context())))
                    except Exception as e:
                        return ("err", type(e).__name__)
                got, want = ev(stmt), ev(eng(text))
                run.case(("vardispatch", text, tuple(hist[:step + 1])), nontrivial=step > 0 and hist[step] != hist[0])
                run.count("variable_dispatch_step")
                if got != want:
                    run.fail("violation", "a parsed statement reused in another context resolves `$name` through the "
                                          "#get_context_data of an EARLIER evaluation's context",
                             {"dispatch_history": hist[:step + 1], "program": text, "variant": text, "data": [1, 2],
                              "observed": repr(got), "original": repr(want)})
                    return


def python_parameter_names():
    """every Python-level parameter name of every registered definition (hidden ones included): names a host function
    may use internally must stay ordinary variable / keyword names for yaql programs"""
    import yaql
    names = set()
    c = yaql.create_context(delegates=True)
    while c is not None:
        for fds in getattr(c, "_functions", {}).values():
            for fd in fds:
                for k, pd in fd.parameters.items():
                    for n in (k, getattr(pd, "name", None), getattr(pd, "alias", None)):
                        if isinstance(n, str) and n.strip("*_").isidentifier():
                            names.add(n.strip("*"))
        c = c.parent
    names |= {"context", "engine", "receiver", "args", "kwargs", "self", "func", "name", "value", "data", "sender", "cls", "options"}
    return sorted(n for n in names if n and not n.startswith("__"))


def binding_names(run):
    """A name bound by let / with-chains / a def'd function's keyword argument is an ordinary variable whatever it is
    spelled like - also when it coincides with a parameter name the library uses internally."""
    eng = ec.engine()
    import yaql
    names = python_parameter_names()
    run.note("binding-name sweep over %d parameter names of the registry" % len(names))
    for nm in names:
        if nm in ("true", "false", "null", "and", "or", "not", "in", "mod"):
            continue
        rows = [("let(%s => 7) -> $%s + 1" % (nm, nm), 8),
                ("let(%s => 7, q9 => 1) -> [$%s, $q9]" % (nm, nm), [7, 1]),
                ("let(1, %s => [2]) -> [$1, $%s]" % (nm, nm), [1, [2]]),
                ("def(f, $%s) -> f(%s => 5)" % (nm, nm), 5),
                ("def(f, [$1, $%s]) -> f(3, %s => 5)" % (nm, nm), [3, 5]),
                ("let(%s => 1) -> let(%s => 2) -> $%s" % (nm, nm, nm), 2),
                ("[1, 2].select(let(%s => $) -> $%s * 2).toList()" % (nm, nm), [2, 4])]
        for text, want in rows:
            got = _outcome(eng, text, None, yaql.create_context())
            run.case(("bindname", text), nontrivial=True)
            run.count("binding_name_row")
            if got != ("ok", repr(want)):
                run.fail("violation", "a variable / keyword argument cannot be bound under an ordinary name (the name collides with "
                                      "something internal to the library)",
                         {"binding_name": nm, "program": text, "variant": text, "data": None, "observed": repr(got), "original": repr(("ok", repr(want)))})
                return


def structural_keys(run):
    """Maps and lists are values: a map (or a list holding maps) used as a KEY addresses its entry whatever order its
    own pairs were written in - equal keys are one key."""
    import yaql
    eng = ec.engine()
    rng = run.rng
    for _ in range(run.n(40, 400)):
        n = rng.randrange(2, 4)
        ks = rng.sample(["a", "b", "c", "d"], n)
        vs = [rng.choice(["1", "2", "'x'", "[1]", "null", "{z => 1}"]) for _ in ks]
        pairs = list(zip(ks, vs))
        perm = pairs[:]
        while perm == pairs:
            rng.shuffle(perm)
        K = "{%s}" % ", ".join("%s => %s" % p for p in pairs)
        K2 = "{%s}" % ", ".join("%s => %s" % p for p in perm)
        rows = [("{%s => 7}[%s]" % (K, K2), 7), ("{%s => 7}[%s, 0]" % (K, K2), 7), ("{%s => 7, %s => 8}.len()" % (K, K2), 1),
                ("{%s => 7, %s => 8}[%s]" % (K, K2, K), 8), ("{[%s] => 7}[[%s]]" % (K, K2), 7), ("dict(%s => 5).get(%s)" % (K, K2), 5),
                ("%s = %s" % (K, K2), True), ("{%s => 7}.keys().toList()[0] = %s" % (K, K2), True),
                ("{%s => 1}.containsKey(%s)" % (K, K2), True), ("%s in {%s => 1}.keys()" % (K2, K), True)]
        # containers that come from the DOCUMENT are the same values as the ones written in the program - the empty ones too
        doc = {"e": [], "ed": {}, "n": None, "z": 0, "s": "", "l": [[], {}, [[]]], "k": {ks[0]: 1}}
        rows += [("$.e = []", True), ("$.ed = {}", True), ("{[] => 7, [1] => 8}[$.e]", 7), ("$.e in [[], [1]]", True),
                 ("[$.e, []].distinct().len()", 1), ("dict($.e => 5).get([])", 5), ("$.l[0] = [] and $.l[2] = [[]]", True),
                 ("{$.ed => 1}.containsKey({})", True), ("[$.e, $.ed, $.l].len()", 3), ("$.l.indexOf([])", 0),
                 ("{[$.e] => 1}[[[]]]", 1), ("$.k = {%s => 1}" % ks[0], True)]
        for text, want in rows:
            got = _outcome(eng, text, doc if "$." in text else None, yaql.create_context())
            run.case(("structkey", text), nontrivial=True)
            run.count("structural_key_row")
            if got[0] == "err" and got[1] in ("NoMatchingMethodException", "NoMethodRegisteredException"):
                continue
            if got != ("ok", repr(want)):
                run.fail("violation", "a map used as a key does not address its entry when its own pairs are written in another order "
                                      "(equal keys are not one key)",
                         {"structural_key": True, "program": text, "variant": text, "data": None, "observed": repr(got), "original": repr(("ok", repr(want)))})
                return


LAMBDA_BODIES = ["$", "$ * 10", "$ > 1", "[$, $]", "$ + $k", "sq($)", "[$1, $2]", "$1 > $2", "$[0]", "$.len()"]
RECEIVERS = ["[1, 2, 3]", "[[1, a], [1, b], [2, c]]", "[[3, 4], [1]]", "{a => 1, b => 2}", "[3, 1, 2].select($ + 1)"]
PLAIN_ARGS = ["1", "[2, 5]", "{b => 3}", "true"]


def keyword_lambda_equivalence(run):
    """A lambda argument is the same lambda whether it is passed positionally or as `name => lambda` (in its scope `$`
    is its own argument, named variables and def'd functions come from the enclosing chain): for every stdlib method
    with lambda parameters, both spellings agree - result or error class - under both naming conventions."""
    import yaql
    from yaql.language import conventions, specs, yaqltypes
    rng = run.rng
    n = agree_ok = 0
    for conv_name, conv in (("camel", None), ("python", conventions.PythonConvention())):
        ctx = yaql.create_context(convention=conv) if conv else yaql.create_context()
        eng = ec.engine()
        seen, c = set(), ctx
        while c is not None:
            for name, fds in sorted(getattr(c, "_functions", {}).items()):
                for fd in fds:
                    if id(fd) in seen or not fd.is_method or not name[0].isalpha():
                        continue
                    seen.add(id(fd))
                    params = sorted([q for k, q in fd.parameters.items() if q.position is not None and k not in ("*", "**")
                                     and not isinstance(q.value_type, yaqltypes.HiddenParameterType)], key=lambda q: q.position)
                    if len(params) < 2 or not any(isinstance(q.value_type, yaqltypes.Lambda) for q in params[1:]):
                        continue
                    for _ in range(run.n(4, 30)):
                        recv = rng.choice(RECEIVERS)
                        vals = [rng.choice(LAMBDA_BODIES) if isinstance(q.value_type, yaqltypes.Lambda) else rng.choice(PLAIN_ARGS)
                                for q in params[1:]]
                        # drop a random suffix of optional parameters
                        keep = len(vals)
                        while keep > 1 and params[keep].default is not specs.NO_DEFAULT and rng.random() < 0.4:
                            keep -= 1
                        vals = vals[:keep]
                        meth = conv.convert_function_name(name) if conv else name
                        pname = lambda q: (conv.convert_parameter_name(q.alias or q.name) if conv else (q.alias or q.name))
                        prefix = "let(k => 100) -> def(sq, $ * $) -> "
                        positional = "%s%s.%s(%s)" % (prefix, recv, meth, ", ".join(vals))
                        base = _outcome(eng, positional, 7, ctx)
                        for j in range(len(vals)):
                            if not any(isinstance(q.value_type, yaqltypes.Lambda) for q in params[1 + j:1 + keep]):
                                continue
                            kw = "%s%s.%s(%s)" % (prefix, recv, meth, ", ".join(
                                vals[:j] + ["%s => %s" % (pname(q), v) for q, v in zip(params[1 + j:], vals[j:])]))
                            got = _outcome(eng, kw, 7, ctx)
                            n += 1
                            agree_ok += got[0] == "ok"
                            run.case(("kwlambda", kw), nontrivial=base[0] == "ok")
                            run.count("keyword_lambda:" + conv_name)
                            if got != base:
                                run.fail("violation", "a lambda passed by keyword evaluates differently from the same lambda passed "
                                                      "positionally (`$` / names inside it are not bound as for the positional lambda)",
                                         {"convention": conv_name, "program": positional, "variant": kw, "data": 7,
                                          "observed": repr(got), "original": repr(base)})
                                return
            c = c.parent
    run.note("keyword-lambda equivalence: %d calls, %d succeeded in both spellings" % (n, agree_ok))
    if n and agree_ok * 10 < n:
        run.note("WARNING: fewer than 10% of keyword-lambda calls succeed")


def load_corpus(pid):
    import json
    import os
    path = os.path.join(os.path.dirname(os.path.dirname(os.path.dirname(os.path.abspath(__file__)))), "corpus", pid + ".json")
    if not os.path.exists(path):
        return []
    return [(c["program"], c["data"]) for c in json.load(open(path))]


class _Probe:
    def __init__(self, rng):
        self.failed, self.rng, self.cov = False, rng, {}

    def case(self, *a, **k): pass
    def count(self, *a, **k): pass
    def note(self, *a, **k): pass
    def n(self, q, t): return q

    def fail(self, *a, **k):
        self.failed = True


def replay(run, data):
    d = data.get("data", {})
    if "context" in d or "convention" in d or "host_shape" in d or "dispatch_history" in d or "binding_name" in d or "structural_key" in d:
        probe = _Probe(run.rng)
        (attribution_is_mapped_access if "context" in d else keyword_lambda_equivalence if "convention" in d
         else composite_host_contexts if "host_shape" in d else variable_dispatch_histories if "dispatch_history" in d
         else binding_names if "binding_name" in d else structural_keys)(probe)
        return not probe.failed
    if "variant" in d:
        return repr(ec.run_real(d["variant"], d["data"])[1]) == repr(ec.run_real(d["program"], d["data"])[1])
    return not differs(run, d["program"], d["data"])
