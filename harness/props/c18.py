"""C18 - concurrent evaluations do not interfere.

P: Props/C18.v (footprint = frame theorem; any-order theorem for evaluations in fresh children of
   a shared chain; generic interleaving theorem under the footprint discipline).
C: 2-4 REAL threads evaluate fragment programs concurrently, each in its own child of ONE shared
   prepared context, under an explicit schedule; scheduling points: the entry of yaql.language.runner.call
   (function dispatch; lambdas applied per element dispatch through it as well), between overload selection and the
   payload, before every step of a lazy sequence that passes the `#iter` limiter (iterator-step granularity), between
   the tokens of a run-time parse (ply.lex.Lexer.token) and inside host-defined smart types (HOOK);
   each thread's (tick log, result) is compared with the reference interpreter run alone (inside Coq).
O: the same scheduler over a pool of statements touching every library module: per-thread result =
   sequential baseline; snapshots of the shared context, of every node of every shared statement, of
   every FunctionDefinition slot and of the yaql module globals are unchanged; free-running threads
   at a microsecond switch interval (thorough / deep)."""
import itertools
import sys
import threading

import eval_common as ec
from props import c09

GEN = []
RULE = ("C: pairs/triples of generated fragment programs (tick probability 0.3) on random documents, schedules = all "
        "merges when <= 200 else seeded random merges of the threads' dispatch steps; O: pool of 40 statements over all "
        "stdlib modules x documents assigned to 2-4 threads, random merges; non-trivial = at least two threads have "
        ">= 3 dispatch steps and the schedule switches thread >= 3 times; distinct = (programs, schedule)")
TRUSTED = ["the deterministic scheduler of this module (threads blocked on semaphores at runner.call entry, before payloads, "
           "before iterator steps, between tokens of run-time parses, inside host smart-type checks)",
           "Model/Eval.v reference interpreter (tied by the C04 correspondence)",
           "snapshot routines for shared objects"]
ASSUMPTIONS = ["a thread switch is modelled at function-dispatch and iterator-step granularity; preemption inside C code, the GIL and CPython "
               "object internals are outside the model: C18 is proved for the model and partial for the runtime"]
EXPLANATION = ("footprint/any-order/interleaving theorems + scheduled real threads compared with the solo reference "
               "interpreter + shared-object snapshots + free-running soak")

POOL = [
    "$.l.select($ * 2).where($ > 2)", "$.l.orderBy($).toList()", "$.l.orderByDescending($).thenBy(-$)", "$.ld.groupBy($.a)",
    "$.t.toUpper() + $.t.substring(0, 1)", "$.t.replace(a, b).split(b)", "$.l.sum()", "$.l.aggregate($1 + $2, 0)",
    "let(x => $.n) -> def(f, $ + $x) -> $.l.select(f($))", "$.d.keys().toList()", "$.d.set(z, 1).items()", "$.ld.a",
    "$.l.distinct().len()", "$.s.union([9]).len()", "$.l.zip($.l).toList()", "$.l.takeWhile($ > 1).toList()",
    "$.t.matches('a.')", "regex('a(.)').search($.t)", "$.t.replaceBy('a', $.value + 'x')", "$.l.memorize().select($).toList()",
    "switch($.n > 1 => 'big', true => 'small')", "$.n.switchCase(1, 2, 3)", "coalesce(null, $.n)", "$.l.any($ > 2) and $.l.all($ > 0)",
    "$.l.reverse()", "$.l.insert(1, 9)", "$.l.skip(1).take(1)", "$.ll.selectMany($)", "$.d.get(a) + $.n * 2 - 1",
    "[1, 2].unpack(a, b) -> $a + $b", "with(1, 2) -> [$1, $2]", "range(5).select($ * $.n).toList()", "$.l.enumerate().toList()",
    "dict($.ld.select([$.a, $.b]))", "$.l.join($.ll, true, [$1, $2]).len()", "$.t.len() + $.l.len()", "$.l.indexOf(1)",
    "$.l.accumulate($1 + $2).toList()", "max(1, $.n) + min(3, $.n)", "str($.n)",
    "sq($.n)", "$.l.select(sq($)).toList()", "addn($.n, 10)", "$.l.select(addn($, $.n)).sum()", "twice($.n) + sq(2)",
    "$.l.where(sq($) > 4).select(twice($)).toList()",
    "$.l.orderBy(-$).toList()", "$.l.orderByDescending($).toList()", "$.ld.orderBy($.b).select($.a).toList()",
    "$.ld.orderByDescending($.a).thenBy($.b).select($.b).toList()", "$.ll.orderBy($.len()).toList()", "$.l.orderBy($ mod 2).thenByDescending($).toList()",
    "$.ld.groupBy($.a mod 2, $.b).toList()", "$.l.groupBy($ mod 2, $, $.sum()).toList()", "$.l.distinct($ mod 2).toList()", "$.ld.toDict($.a, $.b)",
    "describe($.n)", "describe($.t)", "describe($.l)", "$.l.select(describe($)).toList()", "[describe($.t), describe($.n)]",
    "calc('$1 + 1 + 100', $.n)", "calc('$1 * 2', $.n)", "calc('[$1, $1].len() + $1', $.n)", "calc('$1.len()', $.t)",
    "$.l.select(calc('$1 - 1', $)).toList()",
]


def stepping(it, point):
    """the same lazy sequence with a scheduling point before every step"""
    it = iter(it)
    while True:
        point()
        try:
            x = next(it)
        except StopIteration:
            return
        yield x


class Scheduler:
    """Runs jobs (callables) in real threads; schedule letters release the named thread until it next
    enters the patched yield point (or finishes)."""

    def __init__(self, jobs, timeout=60.0):
        self.jobs, self.timeout = jobs, timeout
        n = len(jobs)
        self.go = [threading.Semaphore(0) for _ in range(n)]
        self.arrived = threading.Semaphore(0)
        self.state = ["new"] * n
        self.results = [None] * n
        self.tid = {}
        self.problems = []

    def gate(self):
        i = self.tid.get(threading.get_ident())
        if i is None:
            return
        self.state[i] = "gated"
        self.arrived.release()
        if not self.go[i].acquire(timeout=self.timeout * 6):
            raise RuntimeError("scheduler abandoned thread %d" % i)

    def body(self, i):
        self.tid[threading.get_ident()] = i
        if not self.go[i].acquire(timeout=self.timeout * 6):
            return
        try:
            self.results[i] = self.jobs[i]()
        except BaseException as e:
            self.results[i] = ("crash", type(e).__name__)
        self.state[i] = "done"
        self.arrived.release()

    def run(self, schedule):
        import yaql.language.runner as R
        orig = R.call
        sched = self

        def call(*a, **k):
            sched.gate()
            return orig(*a, **k)
        from yaql.language import specs
        orig_gd = specs.FunctionDefinition.get_delegate

        def get_delegate(fd, *a, **k):
            d = orig_gd(fd, *a, **k)

            def gated():
                sched.gate()          # a switch between overload selection and the payload
                return d()
            return gated
        import ply.lex
        orig_tok = ply.lex.Lexer.token

        def token(lexer):
            sched.gate()              # a switch between two tokens of a run-time parse
            return orig_tok(lexer)
        from yaql.language import utils as U
        orig_li = U.limit_iterable

        def limit_iterable(iterable, limit_or_engine):
            r = orig_li(iterable, limit_or_engine)
            if r is iterable:
                return r
            return stepping(r, sched.gate)        # a switch before every step of a lazy sequence
        threads = [threading.Thread(target=self.body, args=(i,), daemon=True) for i in range(len(self.jobs))]
        used = []
        U.limit_iterable = limit_iterable
        R.call = call
        specs.FunctionDefinition.get_delegate = get_delegate
        ply.lex.Lexer.token = token
        HOOK[0] = sched.gate
        try:
            for t in threads:
                t.start()
            order = list(schedule)
            k = 0
            guard = 0
            while any(s != "done" for s in self.state) and guard < 200000:
                guard += 1
                if k < len(order):
                    i = order[k]
                    k += 1
                else:
                    i = next(j for j, s in enumerate(self.state) if s != "done")
                if self.state[i] == "done":
                    continue
                self.go[i].release()
                if not self.arrived.acquire(timeout=self.timeout):
                    self.problems.append("thread %d did not reach a scheduling point within %.0fs" % (i, self.timeout))
                    break
                used.append(i)
            for t in threads:
                t.join(timeout=self.timeout)
        finally:
            R.call = orig
            specs.FunctionDefinition.get_delegate = orig_gd
            ply.lex.Lexer.token = orig_tok
            U.limit_iterable = orig_li
            HOOK[0] = None
        return used


def count_steps(job):
    """Number of dispatch steps (+1 for the start) of a job run alone."""
    import yaql.language.runner as R
    from yaql.language import specs
    orig, orig_gd = R.call, specs.FunctionDefinition.get_delegate
    n = [0]

    def call(*a, **k):
        n[0] += 1
        return orig(*a, **k)

    def get_delegate(fd, *a, **k):
        d = orig_gd(fd, *a, **k)

        def counted():
            n[0] += 1
            return d()
        return counted
    import ply.lex
    orig_tok = ply.lex.Lexer.token

    def token(lexer):
        n[0] += 1
        return orig_tok(lexer)

    def hook():
        n[0] += 1
    from yaql.language import utils as U
    orig_li = U.limit_iterable

    def limit_iterable(iterable, limit_or_engine):
        r = orig_li(iterable, limit_or_engine)
        return r if r is iterable else stepping(r, hook)
    U.limit_iterable = limit_iterable
    R.call = call
    specs.FunctionDefinition.get_delegate = get_delegate
    ply.lex.Lexer.token = token
    HOOK[0] = hook
    try:
        res = job()
    finally:
        R.call = orig
        specs.FunctionDefinition.get_delegate = orig_gd
        ply.lex.Lexer.token = orig_tok
        U.limit_iterable = orig_li
        HOOK[0] = None
    return n[0] + 1, res


def canon(r):
    return c09.freeze(r) if not (isinstance(r, tuple) and r and r[0] in ("ok", "err")) else (r[0], c09.freeze(r[1]))


HOOK = [None]          # called at extra scheduling points that live in host code (member types of an AnyOf parameter)


def _hook():
    h = HOOK[0]
    if h is not None:
        h()


def host_functions(shared):
    """Host functions of the kinds the documentation describes: one whose parameter is AnyOf(<host types>) - the member
    types reach a scheduling point inside check(), so a switch can fall INSIDE AnyOf.check and between check and
    convert - and one that parses and evaluates a formula at run time through the yaql_interface it is given."""
    from yaql.language import specs, yaqltypes

    class Tagged(yaqltypes.PythonType):
        __slots__ = ("tag",)

        def __init__(self, python_type, tag):
            super().__init__(python_type, False)
            self.tag = tag

        def check(self, value, context, *args, **kwargs):
            _hook()
            r = super().check(value, context, *args, **kwargs)
            _hook()
            return r

        def convert(self, value, *args, **kwargs):
            return "%s:%s" % (self.tag, super().convert(value, *args, **kwargs))

    @specs.parameter("value", yaqltypes.AnyOf(Tagged(int, "int"), Tagged(str, "str"), Tagged(tuple, "seq")))
    def describe(value):
        return value

    def calc(yaql_interface, formula, x):
        return yaql_interface(formula, x)
    shared.register_function(describe, name="describe")
    shared.register_function(calc, name="calc")


def shared_context():
    import yaql
    root = yaql.create_context()
    shared = root.create_child_context()
    host_functions(shared)
    shared["hv"] = [1, 2, 3]
    shared["own"] = {"w": 1}
    logs = {}

    def tick(id, value):
        logs.setdefault(threading.get_ident(), []).append(id)
        return value
    shared.register_function(tick, name="tick")
    # the prepared context also holds functions defined IN yaql (closures that live as long as the context and are
    # called by every thread)
    try:
        prepared = ec.engine()("def(sq, $ * $) -> def(addn, $1 + $2 + $hv.len()) -> def(twice, sq(sq($)))").evaluate(context=shared)
        if hasattr(prepared, "create_child_context"):
            shared = prepared
    except Exception:
        pass
    return shared, logs


def globals_snapshot():
    import yaql
    out = []
    for name, mod in sorted(sys.modules.items()):
        if name == "yaql" or name.startswith("yaql."):
            if name.startswith("yaql.tests"):
                continue
            for k, v in sorted(vars(mod).items()):
                if k.startswith("__"):
                    continue
                if isinstance(v, (int, str, float, bool, tuple, frozenset, type(None))):
                    out.append((name, k, repr(v)))
                elif isinstance(v, (list, dict, set)):
                    out.append((name, k, type(v).__name__, len(v)))
                else:
                    out.append((name, k, type(v).__name__, id(v)))      # rebinding a module global is a write
    return out


def _slots_of(obj):
    names = []
    for cls in type(obj).__mro__:
        sl = cls.__dict__.get("__slots__", ())
        names.extend([sl] if isinstance(sl, str) else list(sl))
    names.extend(getattr(obj, "__dict__", {}).keys())
    return [n for n in dict.fromkeys(names) if not n.startswith("__")]


def deep_state(v, depth=0):
    """Structural fingerprint of everything reachable from a FunctionDefinition through yaql-defined objects (parameter
    definitions, smart types and their member types): any write to a slot of any of them shows."""
    if isinstance(v, (int, str, bool, float, type(None))):
        return repr(v)
    if depth > 6:
        return type(v).__name__
    if isinstance(v, (list, tuple)):
        return (type(v).__name__,) + tuple(deep_state(x, depth + 1) for x in v)
    if isinstance(v, dict):
        return ("dict",) + tuple((repr(k), deep_state(x, depth + 1)) for k, x in v.items())
    mod = getattr(type(v), "__module__", "") or ""
    if mod.startswith("yaql.language.yaqltypes") or mod.startswith("yaql.language.specs") or type(v).__name__ == "Tagged":
        return (type(v).__name__,) + tuple((n, deep_state(getattr(v, n, "<unset>"), depth + 1)) for n in _slots_of(v))
    return (type(v).__name__, id(v))


def fd_snapshot(ctx):
    out = []
    c = ctx
    while c is not None:
        for name, fds in sorted(getattr(c, "_functions", {}).items()):
            for fd in fds:
                out.append((name, deep_state(fd)))
        c = c.parent
    return sorted(out, key=repr)


def fd_snapshot_shallow(ctx):
    out = []
    c = ctx
    while c is not None:
        for name, fds in sorted(getattr(c, "_functions", {}).items()):
            for fd in fds:
                slots = []
                for sl in getattr(type(fd), "__slots__", ()) or vars(fd).keys():
                    v = getattr(fd, sl, None)
                    slots.append((sl, id(v) if not isinstance(v, (int, str, bool, type(None))) else repr(v),
                                  len(v) if isinstance(v, (dict, list, set, tuple)) else None))
                out.append((name, tuple(slots)))
        c = c.parent
    return sorted(out, key=repr)


def make_job(stmt, data, shared, logs, with_log):
    def job():
        ctx = shared.create_child_context()
        try:
            v = stmt.evaluate(data=data, context=ctx)
            r = ("ok", v)
        except Exception as e:
            r = ("err", ec.err_kind(e))
        if with_log:
            return (list(logs.pop(threading.get_ident(), [])), r)
        return r
    return job


def random_merge(rng, counts):
    sched = [i for i, c in enumerate(counts) for _ in range(c)]
    rng.shuffle(sched)
    return sched


def correspondence(run):
    shared, logs = shared_context()
    snap = c09.ctx_snapshot([shared])
    g = ec.Gen(run.rng, tick_p=0.3, hist={})
    cases, meta = [], []
    n = run.n(400, 4000)
    for _ in range(n):
        k = run.rng.choice([2, 2, 3])
        progs = []
        for _ in range(k):
            kind = run.rng.choice(["int", "list", "dict", "none"])
            data = ec.gen_data(run.rng, kind)
            text = g.program(kind, run.rng.choice([2, 3, 3]))
            try:
                stmt = ec.engine()(text)
                ec.tr(stmt)
            except Exception:
                continue
            progs.append((text, data, stmt))
        if len(progs) < 2:
            continue
        # threads may share ONE statement object
        if run.rng.random() < 0.3:
            progs[1] = (progs[0][0], progs[1][1] if progs[1][1] is not None and False else progs[0][1], progs[0][2])
        jobs = [make_job(st, d, shared, logs, True) for _, d, st in progs]
        counts = [count_steps(j)[0] for j in jobs]
        logs.clear()
        total = sum(counts)
        if total <= 9 and len(jobs) == 2:
            scheds = list(itertools.islice(merges(counts), 60))
            scheds = run.rng.sample(scheds, min(len(scheds), 4 if run.quick else 40))
        else:
            scheds = [random_merge(run.rng, counts) for _ in range(2 if run.quick else 5)]
        for sched in scheds:
            s = Scheduler(jobs)
            used = s.run(sched)
            switches = sum(1 for a, b in zip(used, used[1:]) if a != b)
            run.case((tuple(p[0] for p in progs), tuple(used)), nontrivial=(sum(1 for c in counts if c >= 3) >= 2 and switches >= 3))
            run.count("threads:%d" % len(jobs))
            run.count("steps:%d" % (total // 10 * 10))
            if s.problems:
                run.fail("violation", "an evaluation did not terminate under a schedule: %s" % s.problems[0],
                         {"programs": [p[0] for p in progs], "schedule": used})
                return
            for (text, data, stmt), res in zip(progs, s.results):
                if not isinstance(res, tuple) or len(res) != 2 or res[0] == "crash":
                    run.fail("violation", "an evaluation crashed under a schedule", {"program": text, "observed": repr(res)})
                    return
                log, r = res
                try:
                    cases.append(ec.case_term(text, data, log, r, stmt=stmt))
                    meta.append((text, data, log, r, [p[0] for p in progs], used))
                except ec.Unsupported:
                    run.cov["skipped"] += 1
            logs.clear()
    if c09.ctx_snapshot([shared]) != snap:
        run.fail("violation", "the shared context changed during concurrent evaluations", {})
    bad = run.coq_mismatches(ec.HEADER, "ev_case", "ev_case_ok", cases, shard=250)
    for i in bad[:3]:
        text, data, log, r, progs, used = meta[i]
        solo = ec.run_real(text, data)
        run.fail("violation" if (solo[0], repr(solo[1])) != (log, repr(r)) else "mismatch",
                 "under a schedule a thread's evaluation differs from the same evaluation alone (reference interpreter)",
                 {"program": text, "data": data, "all_programs": progs, "schedule": used, "observed_log": log,
                  "observed": repr(r), "alone_on_the_implementation": repr(solo)})


def merges(counts):
    total = sum(counts)

    def rec(rem, acc):
        if len(acc) == total:
            yield list(acc)
            return
        for i, r in enumerate(rem):
            if r:
                rem[i] -= 1
                acc.append(i)
                yield from rec(rem, acc)
                acc.pop()
                rem[i] += 1
    yield from rec(list(counts), [])


def oracle(run, deep):
    shared, logs = shared_context()
    eng = ec.engine()
    stmts = {}
    for t in POOL:
        try:
            stmts[t] = eng(t)
        except Exception:
            pass
    docs = [c09.host_data(), dict(c09.host_data(), n=5, t="banana", l=[5, 5, 1])]
    # snapshots of everything shared are taken BEFORE the first evaluation
    snap_ctx = c09.ctx_snapshot([shared])
    snap_stmt = {t: c09.stmt_snapshot(st) for t, st in stmts.items()}
    snap_fd = fd_snapshot(shared)
    snap_glob = globals_snapshot()
    base = {}
    for t, st in stmts.items():
        for di, d in enumerate(docs):
            base[(t, di)] = canon(make_job(st, d, shared, logs, False)())
    texts = sorted(stmts)
    import re as _re
    families = {}
    for t in texts:
        for name in set(_re.findall(r"([A-Za-z]\w*)\(", t)):
            families.setdefault(name, []).append(t)
    families = {k: v for k, v in families.items() if len(v) >= 2}
    rounds = run.n(250, 3000) * (3 if deep else 1)
    for _ in range(rounds):
        k = run.rng.choice([2, 3, 4])
        picks = [(run.rng.choice(texts), run.rng.randrange(len(docs))) for _ in range(k)]
        if run.rng.random() < 0.4:
            picks[1] = (picks[0][0], picks[1][1])          # same statement in two threads
        elif run.rng.random() < 0.6 and families:
            # statements that go through the SAME library function (with other arguments, directions, documents)
            fam = families[run.rng.choice(sorted(families))]
            picks = [(run.rng.choice(fam), run.rng.randrange(len(docs))) for _ in range(k)]
        jobs = [make_job(stmts[t], docs[di], shared, logs, False) for t, di in picks]
        counts = [count_steps(j)[0] for j in jobs]
        sched = random_merge(run.rng, counts)
        s = Scheduler(jobs)
        used = s.run(sched)
        switches = sum(1 for a, b in zip(used, used[1:]) if a != b)
        run.case(("pool", tuple(picks), tuple(used)), nontrivial=(sum(1 for c in counts if c >= 3) >= 2 and switches >= 3))
        run.count("pool_round")
        if s.problems:
            run.fail("violation", "an evaluation did not terminate under a schedule: %s" % s.problems[0],
                     {"statements": picks, "schedule": used})
            return
        for (t, di), res in zip(picks, s.results):
            if canon(res) != base[(t, di)]:
                run.fail("violation", "a thread's result differs from the result of the same evaluation run alone",
                         {"statement": t, "document": di, "all": picks, "schedule": used, "observed": repr(canon(res))[:500],
                          "required": repr(base[(t, di)])[:500], "theorem": "C18_interleave / C18_any_order"})
                return
    bare_prepared_contexts(run)
    deep_statements(run)
    output_option_mix(run)
    document_histories(run)
    document_turnover(run, 3 if run.quick and not deep else 15)
    free_running(run, stmts, docs, shared, logs, base, seconds=(4 if run.quick and not deep else 25))
    what = None
    if c09.ctx_snapshot([shared]) != snap_ctx:
        what = "the shared context changed"
    elif any(c09.stmt_snapshot(st) != snap_stmt[t] for t, st in stmts.items()):
        what = "a node of a shared parsed statement was written"
    elif fd_snapshot(shared) != snap_fd:
        what = "a FunctionDefinition of the shared context was written"
    elif globals_snapshot() != snap_glob:
        what = "a yaql module global changed"
    if what:
        run.fail("violation", "shared state was modified by evaluation: %s" % what, {"pool": texts})
    # the module-level route keeps its own process-wide cache (module globals of yaql/__init__.py, by design): it is
    # exercised after the shared-state comparison above
    import evalrace
    evalrace.run_races(run, "C18")


BARE_POOL = ["$.l.select($ * 2).where($ > 2).toList()", "$.l.sum() + $.n", "$.t.toUpper()", "$.l.orderBy($).toList()",
             "$.d.get(a) + $.n * 2", "sq($.n) + $.l.len()", "[1, 2].select(sq($)).toList()", "$.l.len()", "$.n"]


def bare_context():
    """A prepared context that a host assembles itself from the library modules - no `#finalize`, no `#iter` - plus
    functions defined in yaql: the other documented way to build one (yaql.create_context is only a convenience)."""
    from yaql.language import contexts, conventions
    from yaql.standard_library import boolean, branching, collections, common, math, queries, strings, system
    ctx = contexts.Context(convention=conventions.CamelCaseConvention())
    system.register(ctx, False)
    for m in (common, boolean, strings, math, branching):
        m.register(ctx)
    collections.register(ctx, False)
    queries.register(ctx, True)
    shared = ctx.create_child_context()
    shared["hv"] = [1, 2, 3]
    shared.register_function(lambda x: x * x, name="sq")       # nothing is EVALUATED while the context is assembled
    return shared


def chain_of(ctx):
    out = []
    while ctx is not None:
        out.append(ctx)
        ctx = ctx.parent
    return out


def bare_prepared_contexts(run):
    """Threads whose evaluations are the FIRST ones ever made on a freshly assembled bare context (no finaliser in the
    chain): each returns what it returns alone, and every context of the shared chain is unchanged afterwards."""
    eng = ec.engine()
    docs = [c09.host_data(), dict(c09.host_data(), n=5, t="banana", l=[5, 5, 1])]
    stmts = {t: eng(t) for t in BARE_POOL}
    ref = bare_context()
    base = {(t, di): canon(make_job(stmts[t], d, ref, {}, False)()) for t in BARE_POOL for di, d in enumerate(docs)}
    for _ in range(run.n(25, 250)):
        shared = bare_context()
        chain = chain_of(shared)
        snap_ctx, snap_fd = c09.ctx_snapshot(chain), fd_snapshot(shared)
        k = run.rng.choice([2, 2, 3])
        picks = [(run.rng.choice(BARE_POOL), run.rng.randrange(len(docs))) for _ in range(k)]
        jobs = [make_job(stmts[t], docs[di], shared, {}, False) for t, di in picks]
        counts = [count_steps(make_job(stmts[t], docs[di], bare_context(), {}, False))[0] for t, di in picks]
        sched = random_merge(run.rng, counts)
        # the very first steps of all threads are interleaved first
        sched = list(range(k)) * 2 + sched
        s = Scheduler(jobs)
        used = s.run(sched)
        run.case(("bare", tuple(picks), tuple(used)), nontrivial=True)
        run.count("bare_context_round")
        if s.problems:
            run.fail("violation", "an evaluation did not terminate under a schedule: %s" % s.problems[0],
                     {"bare_context": True, "statements": picks, "schedule": used})
            return
        for (t, di), res in zip(picks, s.results):
            if canon(res) != base[(t, di)]:
                run.fail("violation", "bare prepared context: a thread's result differs from the result of the same evaluation run alone",
                         {"bare_context": True, "statement": t, "document": di, "all": picks, "schedule": used,
                          "observed": repr(canon(res))[:500], "required": repr(base[(t, di)])[:500]})
                return
        # later evaluations on the same context still work, and the chain is what the host built
        for t, di in picks[:1]:
            again = canon(make_job(stmts[t], docs[di], shared, {}, False)())
            if again != base[(t, di)]:
                run.fail("violation", "bare prepared context: an evaluation AFTER the concurrent ones differs from the evaluation alone",
                         {"bare_context": True, "statement": t, "document": di, "observed": repr(again)[:500], "required": repr(base[(t, di)])[:500]})
                return
        if c09.ctx_snapshot(chain) != snap_ctx or fd_snapshot(shared) != snap_fd:
            run.fail("violation", "shared state was modified by evaluation: a context of the bare prepared chain gained / lost "
                                  "variables or functions", {"bare_context": True, "statements": picks, "schedule": used})
            return


def deep_statements(run):
    """Several threads inside DEEPLY nested evaluations at the same moment (each alone stays well inside what one thread
    can nest): each returns what it returns alone."""
    shared, logs = shared_context()
    eng = ec.engine()
    deep = ["$.n" + " + 1" * 90, "1" + " + $.n" * 85, "max(1, " * 45 + "$.n" + ")" * 45, "$.l" + ".select($ + 1)" * 30 + ".toList()",
            "[" * 40 + "$.n" + "]" * 40, "not " * 60 + "true", "sq(" * 45 + "1" + ")" * 45]
    docs = [c09.host_data(), dict(c09.host_data(), n=5)]
    stmts, base = {}, {}
    for t in deep:
        try:
            stmts[t] = eng(t)
        except Exception:
            continue
        for di, d in enumerate(docs):
            base[(t, di)] = canon(make_job(stmts[t], d, shared, logs, False)())
    texts = [t for t in stmts if all(base[(t, di)][0] == "ok" for di in range(len(docs)))]
    for _ in range(run.n(10, 60)):
        k = 4
        # every deep form gets its turn (all four threads inside the same form), then mixes
        t0 = texts[_ % len(texts)] if _ < len(texts) else run.rng.choice(texts)
        picks = [(t0 if (_ < len(texts) or run.rng.random() < 0.7) else run.rng.choice(texts), run.rng.randrange(len(docs))) for _i in range(k)]
        jobs = [make_job(stmts[t], docs[di], shared, logs, False) for t, di in picks]
        counts = [count_steps(j)[0] for j in jobs]
        # all threads go down together: round-robin while any has steps left
        sched = [i for step in range(max(counts)) for i in range(k) if step < counts[i]]
        s = Scheduler(jobs)
        used = s.run(sched)
        run.case(("deep", tuple((t[:20], di) for t, di in picks), len(used)), nontrivial=True)
        run.count("deep_round")
        if s.problems:
            run.fail("violation", "an evaluation did not terminate under a schedule: %s" % s.problems[0], {"deep": True, "statements": picks})
            return
        for (t, di), res in zip(picks, s.results):
            if canon(res) != base[(t, di)]:
                run.fail("violation", "deeply nested evaluations in several threads at once: a thread's result differs from the result "
                                      "of the same evaluation run alone",
                         {"deep": True, "statement": t, "document": di, "all": picks, "schedule": used, "observed": repr(canon(res))[:400],
                          "required": repr(base[(t, di)])[:400]})
                return


def output_option_mix(run):
    """Threads whose statements were parsed with DIFFERENT output options (per-statement options of one engine, engines of
    one factory with other options, the legacy engine): each result is finalised under its own statement's options."""
    import yaql
    shared, logs = shared_context()
    base_eng = ec.engine()
    variants = [("default", lambda t: base_eng(t)),
                ("tuples-kept", lambda t: base_eng(t, options={"yaql.convertTuplesToLists": False})),
                ("sets-as-lists", lambda t: base_eng(t, options={"yaql.convertSetsToLists": True})),
                ("both", lambda t: yaql.YaqlFactory().create({"yaql.convertTuplesToLists": False, "yaql.convertSetsToLists": True})(t))]
    texts = ["$.ll.select($)", "$.ll.select([$, $.len()])", "$.l.select(set($, 1))", "$.ll.select($.select($ + 1))",
             "[$.l, $.ll, set(1, 2)]", "$.ld.select($.values())", "$.l.select([[$], set($)])", "dict(a => $.l, b => set(3))"]
    docs = [c09.host_data(), dict(c09.host_data(), l=[5, 5, 1], ll=[[9], [8, 7, 6], []])]
    stmts, base = {}, {}

    def exact(v):
        if isinstance(v, (list, tuple, set, frozenset)):
            items = [exact(x) for x in v]
            return (type(v).__name__, tuple(sorted(items, key=repr)) if isinstance(v, (set, frozenset)) else tuple(items))
        if isinstance(v, dict):
            return ("dict", tuple((repr(k), exact(x)) for k, x in v.items()))
        return repr(v)

    def job_of(key, di):
        def job():
            try:
                return ("ok", exact(stmts[key].evaluate(data=docs[di], context=shared.create_child_context())))
            except Exception as e:
                return ("err", type(e).__name__)
        return job
    for vn, mk in variants:
        for t in texts:
            try:
                stmts[(vn, t)] = mk(t)
            except Exception:
                continue
            for di in range(len(docs)):
                base[(vn, t, di)] = job_of((vn, t), di)()
    keys = sorted(stmts)
    for _ in range(run.n(40, 500)):
        k = run.rng.choice([2, 3])
        t0 = run.rng.choice(texts)
        picks = []
        for _ in range(k):
            vn = run.rng.choice(variants)[0]
            t = t0 if run.rng.random() < 0.6 else run.rng.choice(texts)
            if (vn, t) in stmts:
                picks.append(((vn, t), run.rng.randrange(len(docs))))
        if len(picks) < 2 or len({p[0][0] for p in picks}) < 2:
            continue
        jobs = [job_of(key, di) for key, di in picks]
        counts = [count_steps(j)[0] for j in jobs]
        s = Scheduler(jobs)
        used = s.run(random_merge(run.rng, counts))
        run.case(("optmix", tuple(picks), tuple(used)), nontrivial=True)
        run.count("output_option_mix_round")
        if s.problems:
            run.fail("violation", "an evaluation did not terminate under a schedule: %s" % s.problems[0], {"option_mix": True, "statements": picks})
            return
        for (key, di), res in zip(picks, s.results):
            if res != base[key + (di,)]:
                run.fail("violation", "statements with different output options evaluated concurrently: a result is not finalised under "
                                      "its own statement's options (differs from the same evaluation run alone)",
                         {"option_mix": True, "statement": key[1], "options_variant": key[0], "document": di, "all": [(k[0], k[1], d) for k, d in picks],
                          "schedule": used, "observed": repr(res)[:400], "required": repr(base[key + (di,)])[:400]})
                return


def document_histories(run):
    """One parsed statement evaluated over a HISTORY of different documents (then the same documents by several threads):
    every evaluation gives what a freshly parsed statement gives on that document - whatever the statement object, or the
    process, saw before."""
    import yaql
    shared, logs = shared_context()
    eng = ec.engine()
    rng = run.rng
    texts = ["$.pairs.groupBy($[0], $[1], [$[0], $[1].sum()])", "$.pairs.groupBy($[0], $[1], $.len())", "$.pairs.groupBy($[0], $[1])",
             "$.pairs.groupBy($[0], $[1], [$[0], $[1].len()])", "$.pairs.select($[1]).distinct().len()", "$.pairs.orderBy($[0]).thenBy($[1]).toList()",
             "$.pairs.toDict($[0], $[1])", "$.pairs.select($[0]).sum()", "$.pairs.where($[0] > 1).select($[1]).toList()", "$.pairs.len()"]

    def gen_doc():
        n = rng.randrange(1, 8)
        lists = rng.random() < 0.4
        keys = [rng.choice([1, 1, 2, 3]) for _ in range(n)]
        if rng.random() < 0.4:
            keys.sort()
        return {"pairs": [[k, ([rng.randrange(5) for _ in range(rng.randrange(1, 3))] if lists else rng.randrange(9))] for k in keys]}

    def ev(st, d):
        try:
            return ("ok", repr(st.evaluate(data=d, context=shared.create_child_context())))
        except Exception as e:
            return ("err", type(e).__name__)
    for text in texts:
        stmt = eng(text)
        hist = []
        for step in range(run.n(12, 80)):
            d = gen_doc()
            hist.append(d)
            got, want = ev(stmt, d), ev(yaql.YaqlFactory().create()(text), d)
            run.case(("dochist", text, step), nontrivial=step > 0)
            run.count("document_history_step")
            if got != want:
                run.fail("violation", "a parsed statement reused over a history of documents gives another result than a freshly parsed "
                                      "statement on the same document",
                         {"doc_history": True, "statement": text, "step": step, "documents": hist[-3:], "observed": repr(got)[:300],
                          "required": repr(want)[:300]})
                return
        # then two threads on the same statement object with documents of the history
        for _ in range(run.n(3, 20)):
            picks = [rng.choice(hist) for _ in range(2)]
            want = [ev(yaql.YaqlFactory().create()(text), d) for d in picks]
            jobs = [(lambda d=d: ev(stmt, d)) for d in picks]
            counts = [count_steps(j)[0] for j in jobs]
            s = Scheduler(jobs)
            used = s.run(random_merge(rng, counts))
            run.count("document_history_threads")
            if s.problems or list(s.results) != want:
                run.fail("violation", "two threads on one parsed statement with documents of its history: a result differs from a freshly "
                                      "parsed statement on that document",
                         {"doc_history": True, "statement": text, "documents": picks, "schedule": used, "observed": repr(s.results)[:300],
                          "required": repr(want)[:300]})
                return


def document_turnover(run, seconds):
    """Free-running threads that build a NEW input document for every evaluation (and drop it afterwards) while another
    thread keeps converting a large document: every evaluation sees its own document."""
    import time
    eng = ec.engine()
    shared, logs = shared_context()
    stmt = eng("[$.id, $.tags, $.items.len(), $.meta.k]")
    big_stmt = eng("$.rows.len()")
    big = {"rows": [{"i": i, "v": [i, i + 1, {"k": [i] * 3}]} for i in range(3000)]}
    old = sys.getswitchinterval()
    sys.setswitchinterval(1e-6)
    stop = time.time() + seconds
    bad = []

    def converter():
        while time.time() < stop and not bad:
            try:
                r = big_stmt.evaluate(data=big, context=shared.create_child_context())
            except Exception as e:
                r = ("exc", type(e).__name__)
            if r != 3000:
                bad.append(("big document", repr(r), "3000"))

    def worker(k):
        i = k * 100000
        while time.time() < stop and not bad:
            i += 1
            doc = {"id": i, "tags": [i, i + 1], "items": list(range(i % 7)), "meta": {"k": "v%d" % i}}
            want = [i, [i, i + 1], i % 7, "v%d" % i]
            try:
                r = stmt.evaluate(data=doc, context=shared.create_child_context())
            except Exception as e:
                r = ("exc", type(e).__name__)
            if r != want:
                bad.append((repr(doc), repr(r)[:200], repr(want)))
            del doc
    try:
        ths = [threading.Thread(target=converter)] + [threading.Thread(target=worker, args=(k,)) for k in range(3)]
        for t in ths:
            t.start()
        for t in ths:
            t.join()
    finally:
        sys.setswitchinterval(old)
    run.count("document_turnover_soak")
    run.case(("turnover", seconds), nontrivial=True)
    if bad:
        run.fail("violation", "free-running threads with a fresh input document per evaluation: an evaluation did not see its own document",
                 {"turnover": True, "document": bad[0][0], "observed": bad[0][1], "required": bad[0][2]})


def free_running(run, stmts, docs, shared, logs, base, seconds=None):
    import time
    seconds = seconds or (5 if run.quick else 25)
    old = sys.getswitchinterval()
    sys.setswitchinterval(1e-6)
    stop = time.time() + seconds
    bad = []
    texts = sorted(stmts)

    def worker(k):
        i = k
        while time.time() < stop and not bad:
            t = texts[i % len(texts)]
            di = i % len(docs)
            i += 7
            r = canon(make_job(stmts[t], docs[di], shared, logs, False)())
            if r != base[(t, di)]:
                bad.append((t, di, repr(r)[:300], repr(base[(t, di)])[:300]))
    try:
        ths = [threading.Thread(target=worker, args=(k,)) for k in range(4)]
        for t in ths:
            t.start()
        for t in ths:
            t.join()
    finally:
        sys.setswitchinterval(old)
    run.note("free-running soak: 4 threads, switch interval 1e-6 s, %d s" % seconds)
    if bad:
        run.fail("violation", "free-running threads: a result differs from the sequential baseline",
                 {"statement": bad[0][0], "document": bad[0][1], "observed": bad[0][2], "required": bad[0][3]})


class _Probe:
    def __init__(self, run):
        self.failed, self.rng, self.quick, self.cov = False, run.rng, True, {}

    def case(self, *a, **k): pass
    def count(self, *a, **k): pass
    def note(self, *a, **k): pass
    def n(self, q, t): return q

    def fail(self, *a, **k):
        self.failed = True


def replay(run, data):
    d = data.get("data", {})
    shared, logs = shared_context()
    eng = ec.engine()
    docs = [c09.host_data(), dict(c09.host_data(), n=5, t="banana", l=[5, 5, 1])]
    if d.get("deep") or d.get("turnover") or d.get("option_mix") or d.get("doc_history"):
        probe = _Probe(run)
        (deep_statements(probe) if d.get("deep") else document_turnover(probe, 5) if d.get("turnover")
         else output_option_mix(probe) if d.get("option_mix") else document_histories(probe))
        return not probe.failed
    if d.get("bare_context") or d.get("route") == "yaql.eval":
        probe = _Probe(run)
        (bare_prepared_contexts if d.get("bare_context") else __import__("evalrace").run_races)(*((probe,) if d.get("bare_context") else (probe, "C18")))
        return not probe.failed
    if "all" in d and "schedule" in d:
        picks = [tuple(p) for p in d["all"]]
        jobs = [make_job(eng(t), docs[di], shared, logs, False) for t, di in picks]
        basel = [canon(j()) for j in jobs]
        s = Scheduler(jobs)
        s.run(d["schedule"])
        return [canon(r) for r in s.results] == basel
    return True
