"""C16 - literals denote exactly the values they spell.

C (two kinds of case, both evaluated by the model inside Coq):
  * literal cases: a literal-shaped text -> what the implementation reads (one
    constant of which token type and value / lexical error / something else);
  * spelling cases: a string VALUE -> the model spells it in the three quote
    styles itself (Model/Literals.v spell_sq/dq/verbatim) and must read what
    the implementation read for the same spellings.
O: the round trip on the implementation: engine(spell(s)) is a constant that is
and evaluates to s, in the three styles (verbatim: inside the guard of
C16_verbatim_roundtrip_guarded; outside it the failure is the recorded finding
F10); integers and decimal floats denote the Python numbers; words denote the
JSON constants / themselves; __words are rejected."""
import json
import os
import unicodedata

import gal
import lexcommon as lc
import yaql
from props import c03
from yaql.language import expressions

GEN = ["charclass", "lexfacts"]
RULE = ("literal texts: every sampled code point (quick: all below U+0300, the specials and a seeded sample of the "
        "BMP; thorough: every BMP code point) raw in each quote style, embedded, and as \\x \\u \\U octal \\N{name} "
        "escapes; an astral sample; every escape shape of C03 with well/ill-formed payloads; integers up to 10^4000 "
        "and beyond the int-string limit, leading zeros, non-ASCII digits; decimal floats without exponent; "
        "identifier-shaped words, keywords, operator words, __words. spelling values: every sampled code point "
        "alone, quote/backslash/newline-biased random strings. non-trivial = not a plain ASCII-letter string; "
        "distinct = distinct text or value")
TRUSTED = ["Model/Lexer.v + Model/Literals.v are hand transcriptions of lexer.py's token rules and of the spelling "
           "functions used by this harness (lc spell functions below); tied by this correspondence",
           "\\N{name} resolution and decimal->binary rounding of float() are Python's (oracle / checked against exact "
           "integer division); the value of a \\d code point is int()'s (regenerated, checked by the generator)"]
ASSUMPTIONS = ["the default engine; warnings not turned into errors (octal escapes above \\377)",
               "evaluation of a constant uses the standard context"]
EXPLANATION = ("proof of the quoting round trip for every string on the lexer model (induction over the value), escape "
               "table, numerals and keywords + differential check of the model against engine(text) on literal texts")
ALLOWED_AXIOMS = []

HEADER = "From YV Require Import Model.Lexer Model.Literals."
HERE = os.path.dirname(os.path.dirname(os.path.dirname(os.path.abspath(__file__))))
F10_CLASS = "verbatim: a maximal run of an odd number of backslashes immediately followed by a back quote, a newline or the end of the string"

_ctx = None


def ctx():
    global _ctx
    if _ctx is None:
        _ctx = yaql.create_context()
    return _ctx


# ---------------------------------------------------------------- spelling (mirrors Model/Literals.v)
def spell(q, s):
    return q + "".join("\\" + c if c in ("\\", q) else c for c in s) + q


def spell_verbatim(s):
    return "`" + s.replace("`", "\\`") + "`"


def vb_ok(s):
    odd = False
    for c in s:
        if c == "\\":
            odd = not odd
        elif c == "`":
            if odd:
                return False
            odd = False
        else:
            if odd and c == "\n":
                return False
            odd = False
    return not odd


# ---------------------------------------------------------------- observation
def kind_of(expr):
    v = expr.value
    if isinstance(expr, expressions.KeywordConstant):
        return "KEYWORD_STRING"
    if v is True:
        return "TRUE"
    if v is False:
        return "FALSE"
    if v is None:
        return "NULL"
    if isinstance(v, str):
        return "QUOTED_STRING"
    if isinstance(v, (int, float)):
        return "NUMBER"
    return "?"


def observe(text):
    """('val', kind, canon) | ('lexerr',) | ('foreign', cls) | ('other', why)"""
    out = lc.run_engine(text)
    if out[0] == "ok":
        e = out[1].expression
        if isinstance(e, expressions.Constant):
            return ("val", kind_of(e), lc.canon_value(e.value, text.strip(" \t\r\n")))
        if isinstance(e, expressions.GetContextValue) and type(e.path) is expressions.Constant:
            return ("var", lc.canon_value(e.path.value, ""))
        return ("other", "not a constant")
    if out[0] == "lex":
        toks, end = lc.run_lexer(text)
        if not toks:
            return ("lexerr",)
        return ("other", "lexical error after %d tokens" % len(toks))
    if out[0] in ("foreign", "timeout"):
        return ("foreign", out[1] if len(out) > 1 else "timeout")
    return ("other", out[0])


def obs_term(o):
    if o[0] == "val":
        return gal.app("LVal", gal.s(o[1]), lc.val_term(o[2]))
    if o[0] == "var":
        return gal.app("LVar", lc.val_term(o[1]))
    return {"lexerr": "LLexErr", "foreign": "LForeign"}.get(o[0], "LOther")


def lcase_term(text, o):
    return "{| l_text := %s; l_names := %s; l_obs := %s |}" % (lc.text_term(text), lc.names_term(lc.names_in(text)), obs_term(o))


def scase_term(s, o1, o2, o3):
    return "{| s_value := %s; s_sq := %s; s_dq := %s; s_vb := %s |}" % (lc.text_term(s), obs_term(o1), obs_term(o2), obs_term(o3))


# ---------------------------------------------------------------- generators
SPECIAL = [0, 9, 10, 11, 12, 13, 32, 34, 36, 39, 40, 46, 48, 57, 92, 95, 96, 123, 125, 127, 0x85, 0xa0, 0x660, 0x2028,
           0x2029, 0xd7ff, 0xd800, 0xdbff, 0xdc00, 0xdfff, 0xe000, 0xfeff, 0xfffd, 0xfffe, 0xffff]
ASTRAL = [0x10000, 0x1f600, 0x1d7ce, 0x1d7ff, 0x20000, 0xe0001, 0xf0000, 0x10fffe, 0x10ffff]


def code_points(run):
    if run.quick:
        cps = set(range(0, 0x300)) | set(SPECIAL)
        while len(cps) < 0x300 + 1500:
            cps.add(run.rng.randrange(0x300, 0x10000))
        return sorted(cps)
    return list(range(0x10000))


def literal_texts(run):
    rng = run.rng
    out = []

    def add(kind, t):
        out.append((kind, t))

    for t in load_corpus():
        if isinstance(t, str):
            add("corpus", t)
    cps = code_points(run)
    for cp in cps:
        c = chr(cp)
        add("raw", "'" + c + "'")
        add("raw", '"' + c + '"')
        add("raw", "`" + c + "`")
        add("embedded", "'a" + c + "b" + c + "'")
        if cp < 256:
            add("esc-x", "'\\x%02x'" % cp)
        if cp < 512:
            add("esc-oct", '"\\%o"' % cp)
            add("esc-oct", "'\\%03oz'" % cp)
        add("esc-u", "'\\u%04x'" % cp if cp % 2 else '"\\u%04X"' % cp)
        add("esc-U", "'\\U%08x'" % cp)
        add("esc-c", "'\\" + c + "'")
        add("bare", c)
    named = [cp for cp in cps if unicodedata.name(chr(cp), None)]
    for cp in (named if not run.quick else rng.sample(named, min(len(named), 400))):
        add("esc-N", "'\\N{%s}'" % unicodedata.name(chr(cp)))
    for cp in ASTRAL + [rng.randrange(0x10000, 0x110000) for _ in range(run.n(150, 3000))]:
        c = chr(cp)
        add("astral", "'" + c + "'")
        add("astral", "`x" + c + "`")
        add("astral", "'\\U%08x'" % cp)
        add("astral", c + "a")
        n = unicodedata.name(c, None)
        if n:
            add("astral", '"\\N{%s}"' % n)
    for t in c03.escapes():
        add("escape-shape", t)
    for head, _ in ESC_HEADS:
        for tail, _ in ESC_TAILS:
            add("escape-combo", "'" + head + tail + "'")
            add("escape-combo", '"x' + head + tail + '"')
    for t, _ in ESC_LITERAL:
        add("escape-combo", t)
    for t, _ in mixed_literals(run, rng):
        add("mixed", t)
    for t in variable_texts(run, rng):
        add("variable", t)
    for t, _ in surrogate_literals():
        add("surrogates", t)
    for fam in near_duplicate_families():
        for t, _ in fam:
            add("near-duplicate", t)
    # integers
    for k in [1, 2, 3, 5, 10, 19, 20, 39, 100, 1000, 4000, 4299, 4300, 4301, 5000]:
        for _ in range(run.n(4 if k < 4000 else 2, 30 if k < 4000 else 8)):
            add("int", rng.choice("123456789") + "".join(rng.choice("0123456789") for _ in range(k - 1)))
        add("int", "0" * k)
        add("int", "0" * (k // 2) + "7" * (k - k // 2))
    for _ in range(run.n(60, 1500)):
        add("int", str(rng.randrange(10 ** rng.choice([1, 3, 9, 18, 19, 40, 300, 3999]))))
    for _ in range(run.n(40, 400)):
        z = rng.choice([0x660, 0x6f0, 0x966, 0xff10, 0x1d7ce, 0x1d7d8])
        add("int-unicode", "".join(chr(z + rng.randrange(10)) if rng.random() < 0.7 else rng.choice("0123456789")
                                   for _ in range(rng.randrange(1, 12))))
    # decimal floats without exponent
    for _ in range(run.n(300, 6000)):
        a = "".join(rng.choice("0123456789") for _ in range(rng.choice([1, 1, 2, 3, 8, 17, 25, 310, 400])))
        b = "".join(rng.choice("0123456789") for _ in range(rng.choice([1, 1, 2, 3, 8, 17, 25, 330, 400])))
        add("float", a + "." + b)
    for t in ["0.1", "0.5", "1.0", "3.14", "9007199254740993.0", "0.30000000000000004", "179769313486231580793728971405303415079934132710037826936173778980444968292764750946649017977587207096330286416692887910946555547851940402630657488671505820681908902000708383676273854845817711531764475730270069855571366959622842914819860834936475292719074168444365510704342711559699508093042880177904174497791.9",
              "0." + "0" * 330 + "1", "1" * 400 + ".0", "4.9" + "0" * 20, "1.", ".5", "1.5.5", "1..5", "1.5e3", "1e5", "٣.١٤", "1.٥"]:
        add("float", t)
    # identifier-shaped words
    alpha = "abcxyzABCZ_019éßλжあ"
    for w in ["true", "false", "null", "True", "NULL", "nul", "truee", "mod", "not", "and", "in", "or", "is", "__x",
              "__", "___", "_", "_x", "x__", "_1", "a__b", "é", "__é", "x1", "1x", "$x", "x y", "x.y", "not(", "x("]:
        add("word", w)
    for _ in range(run.n(400, 8000)):
        add("word", "".join(rng.choice(alpha) for _ in range(rng.randrange(1, 9))))
    seen, res = set(), []
    for k, t in out:
        if t not in seen:
            seen.add(t)
            res.append((k, t))
    return res


# escape sequences (text, value) and what may follow them (text, value)
ESC_HEADS = [("\\u0041", "A"), ("\\u00e9", "é"), ("\\x41", "A"), ("\\U0001f600", "\U0001f600"), ("\\101", "A"), ("\\n", "\n"),
             ("\\N{BULLET}", "•"), ("\\uD7FF", "퟿")]
ESC_TAILS = [("é", "é"), ("aé", "aé"), ("abcé", "abcé"), ("\\u0042", "B"), ("a\\u0042", "aB"), ("ab\\101", "abA"),
             ("abc\\n", "abc\n"), ("\\x42", "B"), ("ü\\t", "ü\t"), ("\\\\", "\\"), ("abcd\\u0042", "abcdB"), ("", ""),
             ("\\N{BULLET}", "•"), ("a\\7", "a\x07"), ("ж", "ж"), ("\U0001f600", "\U0001f600")]
ESC_TAIL_NAMES = ["a raw non-ASCII character", "a raw non-ASCII character", "a raw non-ASCII character", "another escape",
                  "another escape", "another escape", "another escape", "another escape", "a raw non-ASCII character",
                  "another escape", "another escape", "nothing", "another escape", "another escape",
                  "a raw non-ASCII character", "a raw astral character"]
ESC_LITERAL = [("'\\U0041'", "\\U0041"), ("'\\U0041 zz'", "\\U0041 zz"), ("'\\u41'", "\\u41"), ("'\\x4'", "\\x4"),
               ("'\\X41'", "\\X41"), ("'\\A'", "\\A"), ("'\\T'", "\\T"), ('"\\n{BULLET}"', "\n{BULLET}"), ("'\\N{}'", "\\N{}"),
               ("'\\8'", "\\8"), ("'\\N'", "\\N")]

# one literal mixing genuine escapes, stray (unpaired) backslashes before characters of every plane, and raw text.
# Each piece is (text, the value it denotes on its own); pieces are chosen so that neighbours cannot combine.
MIX_GENUINE = [("\\n", "\n"), ("\\t", "\t"), ("\\\\", "\\"), ("\\'", "'"), ('\\"', '"'), ("\\x41", "A"), ("\\xe9", "é"),
               ("\\u0041", "A"), ("\\u0100", "Ā"), ("\\U0001f600", "\U0001f600"), ("\\101", "A"), ("\\7", "\x07"),
               ("\\N{BULLET}", "•")]
MIX_AFTER_BACKSLASH = ["q", "A", " ", "-", "é", "ÿ", "\x80", "Ā", "ж", "あ", "\uffff", "\u2028", "\U0001f600", "\U00010000",
                       "\U0010ffff", "\ud800", "\udfff", "Z", "%", "8"]
MIX_STRAY = [("\\" + c, "\\" + c) for c in MIX_AFTER_BACKSLASH]
MIX_RAW = [(c, c) for c in ["z", " ", "é", "Ā", "ж", "\U0001f600", "\ud800", "\n", "$", "q q"]]
MIX_END = [(t, t) for t in ["\\N", "\\u12", "\\x4", "\\U0041", "\\N{", "\\N{}", "\\8", "\\u", "\\x", "\\U0001f60"]]


def mixed_literals(run, rng):
    """[(literal text, the value it must denote)]"""
    out = []

    def lit(pieces, k):
        q = "'" if k % 2 else '"'
        out.append((q + "".join(p[0] for p in pieces) + q, "".join(p[1] for p in pieces)))

    k = 0
    for g in MIX_GENUINE:
        for st in MIX_STRAY:
            for pieces in ([g, st], [st, g], [g, ("z", "z"), st], [st, ("z", "z"), g], [st, st, g], [g, st, g], [st, g, st]):
                lit(pieces, k)
                k += 1
        for e in MIX_END:
            lit([g, e], k)
            lit([g, ("z", "z"), e], k + 1)
            k += 2
    for st in MIX_STRAY:
        for e in MIX_END:
            lit([st, e], k)
            k += 1
    pool = MIX_GENUINE * 2 + MIX_STRAY * 2 + MIX_RAW
    for _ in range(run.n(800, 20000)):
        pieces = [rng.choice(pool) for _ in range(rng.randrange(2, 7))]
        if rng.random() < 0.25:
            pieces.append(rng.choice(MIX_END))
        lit(pieces, k)
        k += 1
    return out


def variable_texts(run, rng):
    """`$` followed by word characters of every kind: the variable's name is that very text."""
    nums = c03.numeric_code_points()
    pick = nums if not run.quick else nums[::9] + rng.sample(nums, 60)
    out = ["$", "$0", "$00", "$01", "$007", "$1", "$10", "$0010", "$x", "$x1", "$01a", "$_", "$_1", "$é", "$١", "$٠١", "$1٣", "$²",
           " $01 ", "$" + "0" * 50 + "1", "$" + "9" * 4301]
    for cp in pick:
        c = chr(cp)
        out += ["$" + c, "$0" + c, "$" + c + c, "$" + c + "0", "$a" + c]
    for _ in range(run.n(150, 3000)):
        out.append("$" + "".join(rng.choice("0123456789٠١٢٣०१９𝟗_aZé") for _ in range(rng.randrange(1, 8))))
    return out


# families of literal texts that differ only in details a careless normalisation could erase (white space inside /
# outside the quotes, tab/newline/space, letter case, quote style, escape vs raw, leading zeros): (text, value)
def near_duplicate_families():
    fams = []
    for variants in (["a b", "a  b", "a\tb", "a\nb", "a \tb", "a\u00a0b", "a\u2003b", "ab"],
                     [" ", "  ", "\t", "\n", "", " \n ", "\r"],
                     [" x ", "  x  ", "x", " x", "x ", "\tx\t"],
                     ["Ab c", "ab c", "AB C", "ab  c"],
                     ["1 + 2", "1+2", "1  +  2", "1 +2"]):
        fam = []
        for v in variants:
            for pad in ("", " ", "\n", "  "):
                fam.append((pad + spell("'", v) + pad, v))
                fam.append((pad + spell('"', v), v))
                fam.append((spell_verbatim(v) + pad, v))
        # the escaped spelling of the same white space is yet another text for the same value
        fam.append(("'a\\tb'", "a\tb"))
        fam.append(("'a\\x20b'", "a b"))
        fam.append(("'a\\u0020\\u0020b'", "a  b"))
        fams.append(fam)
    fams.append([("7", 7), ("007", 7), (" 7", 7), ("7 ", 7), ("7.0", 7.0), ("7.00", 7.0), ("07.0", 7.0), ("'7'", "7"), ("' 7'", " 7"),
                 ("true", True), (" true", True), ("'true'", "true"), ("`true`", "true"), ("True", "True"), ("null", None),
                 ("Null", "Null"), ("foo", "foo"), ("Foo", "Foo"), (" foo ", "foo"), ("'foo'", "foo"), ("' foo '", " foo "),
                 ("'f oo'", "f oo"), ("'f  oo'", "f  oo"), ("\"f\too\"", "f\too")])
    return fams


def surrogate_values():
    """strings with surrogate code points in every arrangement: lone high, lone low, high+low adjacent, low+high,
    separated, repeated, next to astral and ordinary characters"""
    H = ["\ud800", "\ud83d", "\udbff"]
    L = ["\udc00", "\ude00", "\udfff"]
    out = []
    for h in H:
        for l in L:
            out += [h, l, h + l, l + h, h + "x" + l, h + h + l, h + l + l, h + l + h + l, "a" + h + l + "b", h + " " + l, l + l, h + h,
                    "\U0001f600" + h + l, h + l + "\U0001f600", h + "\\" + l, h + "'" + l, h + "`" + l, "\n" + h + l + "\n"]
    return list(dict.fromkeys(out))


def surrogate_literals():
    """(literal text, value): the same arrangements spelled with \\uXXXX escapes, raw, and mixed"""
    out = []
    for v in surrogate_values():
        if any(c in v for c in "\\'`\n"):
            continue
        esc = "".join("\\u%04x" % ord(c) if 0xd800 <= ord(c) < 0xe000 else c for c in v)
        half = "".join("\\u%04x" % ord(c) if 0xd800 <= ord(c) < 0xdc00 else c for c in v)
        half2 = "".join("\\u%04x" % ord(c) if 0xdc00 <= ord(c) < 0xe000 else c for c in v)
        big = "".join("\\U%08x" % ord(c) if 0xd800 <= ord(c) < 0xe000 else c for c in v)
        for body in (esc, half, half2, big, v):
            out.append(("'" + body + "'", v))
            out.append(('"' + body + '"', v))
        out.append(("`" + v + "`", v))
    return out


BIASED = ["\\", "\\", "'", '"', "`", "\n", "\\n", "\\x41", "\\u", "\\N{", "}", "a", "z", " ", "\t", "0", "7", "\x00",
          "\ud800", "é", "\U0001f600", "\\\\", "\\`", "\\'", "$", "(", "\r"]


def spelling_values(run):
    rng = run.rng
    vals = [("cp", chr(cp)) for cp in code_points(run)]
    vals += [("cp", chr(cp)) for cp in ASTRAL]
    vals += [("surrogates", v) for v in surrogate_values()]
    vals += [("fixed", s) for s in ["", "\\", "\\\\", "\\\\\\", "`", "\\`", "\\\\`", "\\\\\\`", "a\\", "a\\\\", "\\\n", "\\\\\n",
                                     "'", '"', "it's", 'say "hi"', "a\\b", "C:\\dir\\", "\\x41", "\\N{BULLET}", "\n", "\\n",
                                     "`\\", "\\``", "x\\`y", "x\\\\`y", "'\"`\\", "\\'", '\\"']]
    for s in load_corpus():
        if isinstance(s, dict) and "value" in s:
            vals.append(("corpus", "".join(chr(c) for c in s["value"])))
    for _ in range(run.n(1500, 40000)):
        vals.append(("biased", "".join(rng.choice(BIASED) for _ in range(rng.randrange(0, 10)))))
    for _ in range(run.n(300, 5000)):
        vals.append(("random", "".join(c03.rand_cp(rng) for _ in range(rng.randrange(1, 8)))))
    seen, res = set(), []
    for k, v in vals:
        if v not in seen:
            seen.add(v)
            res.append((k, v))
    return res


# ---------------------------------------------------------------- C
def correspondence(run):
    lits = literal_texts(run)
    cases, meta = [], []
    for i, (kind, t) in enumerate(lits):
        o = observe(t)
        run.case(("lit", t), nontrivial=not (t.isascii() and t.isalpha()))
        run.count("lit:" + kind)
        run.count("obs:" + o[0] + (":" + o[1] if o[0] == "val" else ""))
        if i % 3001 == 0:
            run.sample({"text": lc.printable(t), "observed": [str(x)[:80] for x in o]})
        if o[0] == "foreign":
            run.fail("violation", "a literal-shaped text makes the parser raise a foreign exception: %s" % o[1],
                     {"input": lc.compress(t), "input_repr": lc.printable(t), "observed": list(o),
                      "required": "a constant, a YAQL lexical error or a YAQL grammar error"})
        cases.append(lcase_term(t, o))
        meta.append((kind, t, o))
    # long numerals cost the model seconds each (positional Horner on Z): small shards spread them over the workers
    order = sorted(range(len(cases)), key=lambda i: len(meta[i][1]) <= 800)
    nbig = sum(1 for m in meta if len(m[1]) > 800)
    cases = [cases[i] for i in order]
    meta = [meta[i] for i in order]
    bad = run.coq_mismatches(HEADER, "lcase", "lcase_ok", cases[:nbig], shard=3)
    bad += [nbig + i for i in run.coq_mismatches(HEADER, "lcase", "lcase_ok", cases[nbig:], shard=run.n(500, 1000))]
    for i in bad[:12]:
        kind, t, o = meta[i]
        report_mismatch(run, "literal", kind, t, [o])
    vals = spelling_values(run)
    scases, smeta = [], []
    for i, (kind, s) in enumerate(vals):
        o1, o2, o3 = observe(spell("'", s)), observe(spell('"', s)), observe(spell_verbatim(s))
        run.case(("val", s), nontrivial=not (s.isascii() and s.isalpha()))
        run.count("value:" + kind)
        run.count("verbatim:" + ("inside-guard" if vb_ok(s) else "outside-guard"))
        if i % 1501 == 0:
            run.sample({"value": lc.printable(s), "sq": lc.printable(spell("'", s)), "verbatim": lc.printable(spell_verbatim(s)),
                        "read": [str(o1)[:60], str(o3)[:60]]})
        scases.append(scase_term(s, o1, o2, o3))
        smeta.append((kind, s, (o1, o2, o3)))
    bad = run.coq_mismatches(HEADER, "scase", "scase_ok", scases, shard=run.n(500, 1000))
    for i in bad[:12]:
        kind, s, os_ = smeta[i]
        report_mismatch(run, "spelling", kind, s, list(os_))


def roundtrip_failure(s):
    """Which of the three spellings of s fail to denote s on the implementation."""
    bad = []
    for style, text in (("single", spell("'", s)), ("double", spell('"', s)), ("verbatim", spell_verbatim(s))):
        o = observe(text)
        ok = o[0] == "val" and o[1] == "QUOTED_STRING" and o[2] == ("text", s)
        if ok:
            try:
                v = lc.engine()(text).evaluate(context=ctx())
                ok = isinstance(v, str) and v == s
            except Exception as e:
                ok = False
                o = ("evaluate raised", lc.qualname(e))
        if not ok:
            bad.append((style, text, o))
    return bad


def report_mismatch(run, what, kind, x, obs):
    # is the implementation violating the property's predicate on this input?
    if what == "spelling":
        bad = roundtrip_failure(x)
        fatal = [b for b in bad if b[0] != "verbatim" or vb_ok(x)]
        if fatal:
            report_roundtrip(run, x, fatal)
            return
    try:
        if what == "literal":
            model = run.coq_eval(HEADER, "literal_obs (default_cfg (names_fn %s)) %s" % (lc.names_term(lc.names_in(x)), lc.text_term(x)))[-800:]
        else:
            model = run.coq_eval(HEADER, "let cfg := default_cfg (fun _ => None) in (literal_obs cfg (spell_sq %s), literal_obs cfg (spell_dq %s), literal_obs cfg (spell_verbatim %s))" % ((lc.text_term(x),) * 3))[-1200:]
    except Exception as e:
        model = repr(e)
    run.fail("mismatch", "the literal model and the implementation disagree on a %s" % what,
             {"input": lc.compress(x), "input_repr": lc.printable(x), "generator": kind,
              "impl": [[str(y)[:80] for y in o] for o in obs], "model": model})


_rt_reported = set()


def report_roundtrip(run, s, bad):
    for style, text, o in bad:
        known = style == "verbatim" and not vb_ok(s)
        key = (style, known, o[0])
        if key in _rt_reported:
            continue
        _rt_reported.add(key)
        run.fail("violation",
                 "the %s-quoted spelling of a string does not denote that string" % style,
                 {"value": [ord(c) for c in s], "value_repr": lc.printable(s), "spelling": lc.printable(text),
                  "style": style, "observed": [str(x)[:80] for x in o],
                  "required": "engine(spelling) is a constant that is, and evaluates to, the string",
                  "finding_class": F10_CLASS if known else None,
                  "theorems": ["C16_verbatim_roundtrip_guarded", "C16_verbatim_refuted"] if style == "verbatim"
                  else ["C16_sq_roundtrip", "C16_dq_roundtrip"]})


# ---------------------------------------------------------------- O
def oracle(run, deep):
    rng = run.rng
    nchecked = 0
    # every sampled code point alone + biased strings: the round trip
    vals = [v for _, v in spelling_values(run)]
    for _ in range(run.n(1500, 30000) * (3 if deep else 1)):
        vals.append("".join(rng.choice(BIASED) for _ in range(rng.randrange(0, 14))))
    for s in vals:
        bad = roundtrip_failure(s)
        nchecked += 1
        run.count("oracle:roundtrip:" + ("ok" if not bad else "+".join(b[0] for b in bad)))
        if bad:
            report_roundtrip(run, s, bad)
    # the documented escape table, checked directly on the implementation
    esc_failed = set()

    def expect(form, text, value):
        o = observe(text)
        run.count("oracle:escape:" + form)
        if o[0] == "val" and o[2] == ("text", value):
            # the evaluated (finalised) value too, under the default output conversion
            try:
                v = lc.engine()(text).evaluate(context=ctx())
                if not (isinstance(v, str) and v == value):
                    o = ("evaluates to", [ord(c) for c in v] if isinstance(v, str) else repr(v))
            except Exception as e:
                o = ("evaluate raised", lc.qualname(e))
        if not (o[0] == "val" and o[2] == ("text", value)) and form not in esc_failed:
            esc_failed.add(form)
            run.fail("violation", "an escape sequence does not decode as documented (%s)" % form,
                     {"input": lc.compress(text), "input_repr": lc.printable(text), "observed": [str(x)[:80] for x in o],
                      "required": "the string %s" % lc.printable(value), "theorems": ["C16_escape_table"]})

    for cp in code_points(run) + ASTRAL:
        c = chr(cp)
        q = "'" if cp % 2 else '"'
        if cp < 256:
            expect("\\xHH", q + "\\x%02x" % cp + q, c)
        if cp < 512:
            expect("\\ooo", q + "\\%03o" % cp + q, c)
            expect("\\o..o followed by a non-octal character", q + "\\%o" % cp + "z" + q, c + "z")
        if cp < 0x10000:
            expect("\\uHHHH", q + "\\u%04X" % cp + "0" + q, c + "0")
        expect("\\UHHHHHHHH", q + "a\\U%08x" % cp + q, "a" + c)
        if cp < 0x300 or cp % 13 == 0:
            name = unicodedata.name(c, None)
            if name:
                expect("\\N{name}", q + "\\N{%s}" % name + q, c)
        if c not in "\\'\"abfnrtvxuUN01234567\n" and not (0xd800 <= cp < 0xe000):
            expect("unknown escape keeps the backslash", q + "\\" + c + q, "\\" + c)
    for letter, cp in zip("\\'\"abfnrtv", [92, 39, 34, 7, 8, 12, 10, 13, 9, 11]):
        for q in "'\"":
            expect("single-character escapes", q + "x\\" + letter + "y" + q, "x" + chr(cp) + "y")
    # an escape followed closely by raw non-ASCII characters or by another escape: each decodes on its own
    for i, (head, hv) in enumerate(ESC_HEADS):
        for j, (tail, tv) in enumerate(ESC_TAILS):
            q = "'" if (i + j) % 2 else '"'
            expect("an escape followed by %s" % ESC_TAIL_NAMES[j], q + head + tail + q, hv + tv)
    for text, value in ESC_LITERAL:
        expect("an incomplete escape stays as written", text, value)
    for text, value in surrogate_literals():
        expect("surrogate code points, escaped or raw, read back as exactly the code points spelled", text, value)
    # one literal mixing genuine escapes, stray backslashes before characters of every plane, raw text
    for text, value in mixed_literals(run, rng):
        expect("a literal mixing escapes with stray backslashes and raw characters", text, value)
    # integers and floats denote the Python numbers
    for _ in range(run.n(300, 5000)):
        k = rng.choice([1, 2, 5, 18, 19, 20, 100, 1000, 4000, 4300])
        n = rng.randrange(10 ** k)
        t = str(n) if rng.random() < 0.8 else "0" * rng.randrange(1, 4) + str(n)
        if len(t) > 4300:
            continue
        o = observe(t)
        if not (o[0] == "val" and o[1] == "NUMBER" and o[2] == ("int", n)):
            run.fail("violation", "an integer literal does not denote its number",
                     {"input": lc.compress(t), "input_repr": lc.printable(t), "observed": [str(x)[:80] for x in o],
                      "required": "Constant(%d digits) with the int value" % len(t), "theorems": ["C16_integer", "C16_number_shape"]})
            break
    for _ in range(run.n(300, 5000)):
        a = "".join(rng.choice("0123456789") for _ in range(rng.randrange(1, 25)))
        b = "".join(rng.choice("0123456789") for _ in range(rng.randrange(1, 25)))
        t = a + "." + b
        o = observe(t)
        if not (o[0] == "val" and o[1] == "NUMBER" and o[2] == ("float", t)):
            run.fail("violation", "a decimal literal does not denote the correctly rounded float",
                     {"input": lc.compress(t), "input_repr": t, "observed": [str(x)[:80] for x in o],
                      "required": "Constant(float) equal to the exact quotient rounded to nearest", "theorems": ["C16_number_shape"]})
            break
    # keywords
    for w, want in [("true", ("val", "TRUE", ("true",))), ("false", ("val", "FALSE", ("false",))), ("null", ("val", "NULL", ("null",))),
                    ("foo", ("val", "KEYWORD_STRING", ("text", "foo"))), ("_x", ("val", "KEYWORD_STRING", ("text", "_x"))),
                    ("nulls", ("val", "KEYWORD_STRING", ("text", "nulls"))), ("__x", ("lexerr",)), ("__", ("lexerr",)), ("__class__", ("lexerr",))]:
        o = observe(w)
        if o != want:
            run.fail("violation", "a keyword does not denote what the language reference says",
                     {"input": lc.compress(w), "input_repr": w, "observed": [str(x) for x in o], "required": [str(x) for x in want],
                      "theorems": ["C16_keywords"]})
    run.note("oracle: %d values round-tripped in three quote styles" % nchecked)
    variable_names(run, rng)
    word_identity(run, rng)
    combined_literals(run, rng, deep)
    overlapping_literals(run)
    eval_route_oracle(run, deep)
    multi_engine_oracle(run, deep)


# ---------------------------------------------------------------- variable names
def variable_names(run, rng):
    """`$name` refers to the variable whose name is exactly the text written (no folding of leading zeros, digits of
    other scripts, case ...)."""
    reported = False
    for t in dict.fromkeys(variable_texts(run, rng)):
        o = observe(t)
        want = ("var", ("text", t.strip(" ")))
        run.count("oracle:variable:" + ("ok" if o == want else "fail"))
        if o != want and not reported:
            reported = True
            run.fail("violation", "a variable reference does not name the variable it spells",
                     {"input": lc.compress(t), "input_repr": lc.printable(t), "observed": [str(x)[:80] for x in o],
                      "required": "GetContextValue of the constant %s" % lc.printable(t.strip(" ")), "theorems": ["C16_variable_name"]})


# ---------------------------------------------------------------- words denote their own text, code point for code point
_UNSTABLE = None


def unstable_word_chars():
    """identifier characters that some Unicode normal form or case mapping changes (all planes)"""
    global _UNSTABLE
    if _UNSTABLE is None:
        import re
        import sys
        start = re.compile(r"[^\W\d]")
        out = []
        for cp in range(0x80, sys.maxunicode + 1):
            c = chr(cp)
            if not start.match(c):
                continue
            if any(unicodedata.normalize(f, c) != c for f in ("NFC", "NFD", "NFKC", "NFKD")) or c.lower() != c or c.upper() != c or c.casefold() != c:
                out.append(cp)
        _UNSTABLE = out
    return _UNSTABLE


def word_identity(run, rng):
    """A word that is not true/false/null or an operator denotes exactly its own text: no normalisation, no case folding."""
    cps = unstable_word_chars()
    pick = cps if not run.quick else cps[::37] + rng.sample(cps, 300) + [0x2126, 0x212a, 0x212b, 0x1100, 0xfb01, 0x130, 0xdf]
    reported = False
    for cp in dict.fromkeys(pick):
        c = chr(cp)
        for w in (c, c + "x", "x" + c, c + c, "ᄀ" + "ᅡ" if cp == 0x1100 else "a" + c + "1"):
            o = observe(w)
            want = ("val", "KEYWORD_STRING", ("text", w))
            run.count("oracle:word:" + ("ok" if o == want else "fail"))
            if o != want and not reported:
                reported = True
                run.fail("violation", "a word does not denote its own text",
                         {"input": lc.compress(w), "input_repr": lc.printable(w), "observed": [str(x)[:80] for x in o],
                          "required": "KeywordConstant with exactly the code points written", "theorems": ["C16_keywords"]})


# ---------------------------------------------------------------- several literals in one expression
COMBO_POOL = ["1", "1.0", "01", "1.00", "0", "0.0", "00", "0.00", "3", "3.0", "7", "7.0", "2", "2.0", "100000000000000000",
              "100000000000000000.0", "9007199254740993", "9007199254740993.0", "9007199254740992.0", "'1'", '"1"', "`1`", "'a'", '"a"',
              "`a`", "'A'", "''", "' '", "true", "false", "null", "True", "one", "'true'", "'null'", "0.5", "00.50", "'1.0'", "10", "10.0",
              "1" + "0" * 30, "1" + "0" * 30 + ".0"]


def constant_leaves(e, out):
    """the Constant nodes of a tree, left to right, as (token type, canonical value)"""
    if isinstance(e, expressions.Constant):
        v = e.value
        out.append((kind_of(e), ("float", v.hex()) if isinstance(v, float) else lc.canon_value(v, "")))
    elif isinstance(e, expressions.Wrap):
        constant_leaves(e.expr, out)
    elif isinstance(e, expressions.MappingRuleExpression):
        constant_leaves(e.source, out)
        constant_leaves(e.destination, out)
    elif isinstance(e, expressions.Function):
        for a in e.args:
            if isinstance(a, expressions.Expression):
                constant_leaves(a, out)
    return out


def typed(v):
    """a Python value with exact types, recursively"""
    if isinstance(v, (list, tuple)):
        return ["seq"] + [typed(x) for x in v]
    if isinstance(v, dict):
        return ["dict"] + sorted([typed(k), typed(x)] for k, x in v.items())
    if isinstance(v, float):
        return ["float", v.hex()]
    return [type(v).__name__, v]


def combined_literals(run, rng, deep):
    """Literals checked IN COMBINATION: in a list, as dict keys/values, as function arguments, as both operands of an
    operator, nested - every position must hold the constant ITS OWN spelling denotes (exact type), in the tree and in
    the evaluated result.  Pairs that are == but differ in type or spelling (1 / 1.0 / 01, 0 / 0.0, big ints and their
    floats, '1' / 1, true / 'true' / True) are the point."""
    alone = {}
    for t in COMBO_POOL:
        st = lc.engine()(t)
        alone[t] = (constant_leaves(st.expression, []), st.evaluate(context=ctx()))
    forms = [("[%s, %s]", True), ("[%s, %s, %s]", True), ("list(%s, %s)", True), ("[[%s], [%s]]", True), ("f(%s, %s)", False),
             ("%s = %s", False), ("%s + %s", False), ("{ka => %s, kb => %s}", False), ("{%s => %s}", False), ("[%s, [%s, %s]]", True),
             ("x(%s).y(%s, k => %s)", False), ("(%s) in [%s]", False), ("[%s, -%s]", False)]
    pairs = [(a, b) for a in COMBO_POOL for b in COMBO_POOL]
    if run.quick:
        near = [(a, b) for a, b in pairs if a != b and alone[a][1] == alone[b][1] and not isinstance(alone[a][1], str)]
        pairs = near + rng.sample(pairs, 350)
    reported = False
    for a, b in pairs:
        for form, evaluable in (forms if not run.quick else [forms[0], forms[1], rng.choice(forms[2:]), rng.choice(forms[2:])]):
            n = form.count("%s")
            lits = [a, b, a][:n] if rng.random() < 0.5 or n < 3 else [a, b, b]
            text = form % tuple(lits)
            want_leaves = [x for l in lits for x in alone[l][0]]
            try:
                st = lc.engine()(text)
                got_leaves = constant_leaves(st.expression, [])
                got_leaves = [g for g in got_leaves if not (g[0] == "KEYWORD_STRING" and g[1] in (("text", "k"), ("text", "ka"), ("text", "kb")))]
            except Exception as e:
                got_leaves = ["raised " + lc.qualname(e)]
            ok = got_leaves == want_leaves
            got_val = want_val = None
            if ok and evaluable:
                try:
                    got_val = typed(st.evaluate(context=ctx()))
                except Exception as e:
                    got_val = ["raised", lc.qualname(e)]
                vals = [alone[l][1] for l in lits]
                want_val = typed({"[%s, %s]": vals, "[%s, %s, %s]": vals, "list(%s, %s)": vals, "[[%s], [%s]]": [[vals[0]], [vals[-1]]] if n == 2 else None,
                                  "[%s, [%s, %s]]": [vals[0], vals[1:]]}[form])
                ok = got_val == want_val
            run.case(("combo", text), nontrivial=True)
            run.count("oracle:combined:" + ("ok" if ok else "fail"))
            if not ok and not reported:
                reported = True
                run.fail("violation", "a literal inside an expression holding several literals does not denote the value (and type) "
                                      "its own spelling denotes",
                         {"input": lc.compress(text), "input_repr": lc.printable(text),
                          "observed": {"constants": [str(x) for x in got_leaves], "evaluated": str(got_val)},
                          "required": {"constants": [str(x) for x in want_leaves], "evaluated": str(want_val)},
                          "theorems": ["C16_integer", "C16_number_shape", "C16_decimal_value", "C16_keywords", "C16_sq_roundtrip"]})


# ---------------------------------------------------------------- the yaql.eval() route over histories
def run_eval_history(texts, timeout=120):
    """yaql.eval(t) for every t of the history, in order, in ONE fresh interpreter (the route has a process-wide
    expression cache).  Returns the canonical results."""
    import subprocess
    import sys
    script = os.path.join(HERE, "harness", "evalroute.py")
    p = subprocess.run([sys.executable, "-W", "ignore", script], input=json.dumps({"texts": [[ord(c) for c in t] for t in texts]}),
                       capture_output=True, text=True, timeout=timeout)
    if p.returncode != 0:
        return [["raised", "harness process failed: " + p.stderr[-300:]]] * len(texts)
    return json.loads(p.stdout)


def canon_expected(v):
    if v is True or v is False:
        return ["bool", v]
    if v is None:
        return ["null"]
    if isinstance(v, str):
        return ["str", [ord(c) for c in v]]
    if isinstance(v, int):
        return ["int", str(v)]
    return ["float", v.hex()]


def eval_route_oracle(run, deep):
    """Every call of yaql.eval(text) gives the value that very text denotes, whatever near-duplicate texts the process
    evaluated before: histories of literal texts differing only in white space inside/outside the quotes, case, quote
    style, escape vs raw; each family in a seeded order and in the reverse order, each order in a fresh interpreter."""
    import concurrent.futures
    rng = run.rng
    hist = []
    for fam in near_duplicate_families():
        fam = list(dict(fam).items())
        for _ in range(run.n(1, 6) + (2 if deep else 0)):
            o = fam[:]
            rng.shuffle(o)
            hist.append(o)
            hist.append(list(reversed(o)))
    # mixed histories over all families, and random values spelled with random padding
    allt = [x for fam in near_duplicate_families() for x in dict(fam).items()]
    for _ in range(run.n(2, 12)):
        o = rng.sample(allt, min(len(allt), 120))
        hist += [o, list(reversed(o))]
    for _ in range(run.n(2, 20)):
        o = []
        for _ in range(60):
            v = "".join(rng.choice(["a", "b", " ", "  ", "\t", "\n", "A", "x"]) for _ in range(rng.randrange(0, 6)))
            pad = rng.choice(["", " ", "\n"])
            o.append((pad + rng.choice([spell("'", v), spell('"', v), spell_verbatim(v)]) + rng.choice(["", " "]), v))
        o = list(dict(o).items())
        hist += [o, list(reversed(o))]
    with concurrent.futures.ThreadPoolExecutor(max_workers=8) as ex:
        results = list(ex.map(lambda h: run_eval_history([t for t, _ in h]), hist))
    reported = False
    for h, res in zip(hist, results):
        run.case(("eval-history", tuple(t for t, _ in h)), nontrivial=True)
        for i, ((t, v), got) in enumerate(zip(h, res)):
            want = canon_expected(v)
            if t.strip(" \n") in ("1 + 2", "1+2", "1  +  2", "1 +2"):
                want = None                                  # not literals: only used as neighbours
            ok = want is None or got == want
            run.count("oracle:eval-route:" + ("ok" if ok else "fail"))
            if not ok and not reported:
                reported = True
                small = shrink_history(h, i)
                res2 = run_eval_history([t for t, _ in small])
                run.fail("violation", "yaql.eval(text) does not give the value the literal spells after other texts were "
                                      "evaluated in the same process",
                         {"eval_history": [[ord(c) for c in t] for t, _ in small], "history_repr": [lc.printable(t) for t, _ in small],
                          "observed": res2, "required_last": canon_expected(small[-1][1]),
                          "required": "each yaql.eval(text) denotes what that very text spells (Model/Literals.v reads the same "
                                      "texts in the correspondence stage)",
                          "theorems": ["C16_sq_roundtrip", "C16_dq_roundtrip", "C16_verbatim_roundtrip_guarded", "C16_styles_agree"]})
    run.note("oracle: %d yaql.eval histories in fresh interpreters" % len(hist))


def shrink_history(h, i):
    """[one earlier text, the failing text] if that already fails, else the prefix up to the failing text."""
    t, v = h[i]
    for j in range(i):
        cand = [h[j], h[i]]
        try:
            res = run_eval_history([x for x, _ in cand])
        except Exception:
            continue
        if res[-1] != canon_expected(v):
            return cand
    return h[:i + 1]


# ---------------------------------------------------------------- overlapping parses on one engine
OVERLAP_LITERALS = ["'aaa'", '"zzz"', "`a\\n`", "'\\x41\\n'", "12", "34.5", "007", "true", "false", "null", "foo", "bar_1",
                    "'it\\'s'", '"Ā\\u0100"']


def parse_overlapped(a, b, at):
    """engine(a) with a complete engine(b) on the SAME engine between two token fetches of a (what a thread switch
    at that point does, without threads).  Returns (observation of a, observation of b)."""
    import ply.lex
    eng = lc.engine()
    orig = ply.lex.Lexer.token
    state = {"n": 0, "inner": False, "b": None}

    def token(lexer):
        if state["inner"] is False:
            state["n"] += 1
            if state["n"] == at:
                state["inner"] = True
                state["b"] = observe(b)
                state["inner"] = "done"
        return orig(lexer)

    ply.lex.Lexer.token = token
    try:
        oa = observe(a)
    finally:
        ply.lex.Lexer.token = orig
    return oa, state["b"]


def overlapping_literals(run):
    """Every call of the engine reads its own text: a literal denotes the value it spells also when another literal is
    parsed on the same engine between two of its token fetches."""
    alone = {t: observe(t) for t in OVERLAP_LITERALS}
    reported = False
    for a in OVERLAP_LITERALS:
        for b in OVERLAP_LITERALS:
            for at in (1, 2):
                oa, ob = parse_overlapped(a, b, at)
                run.case(("overlap", a, b, at), nontrivial=True)
                ok = oa == alone[a] and ob == alone[b]
                run.count("oracle:overlap:" + ("ok" if ok else "fail"))
                if not ok and not reported:
                    reported = True
                    run.fail("violation", "a literal does not denote the value it spells when another parse on the same "
                                          "engine runs between two of its token fetches",
                             {"overlap": {"text": a, "other": b, "before_fetch": at},
                              "observed": {"text": [str(x) for x in oa], "other": [str(x) for x in (ob or ["not run"])]},
                              "required": {"text": [str(x) for x in alone[a]], "other": [str(x) for x in alone[b]]},
                              "theorems": ["C16_sq_roundtrip .. C16_keywords: the value is a function of the literal's own text"]})


# ---------------------------------------------------------------- several engines in one process
def run_scenario(scn, timeout=120):
    """Execute a multi-engine scenario in a FRESH process (so that the order of first use is exactly the scenario's)."""
    import subprocess
    import sys
    script = os.path.join(HERE, "harness", "multiengine.py")
    p = subprocess.run([sys.executable, "-W", "ignore", script], input=json.dumps(scn), capture_output=True, text=True,
                       timeout=timeout)
    if p.returncode != 0:
        return [{"engine": "?", "text": "?", "expected": "the scenario runs", "observed": ["harness process failed", p.stderr[-400:]],
                 "engines_used_before": []}]
    return json.loads(p.stdout)


def multi_engine_oracle(run, deep):
    """What a word denotes depends only on the engine that reads it: default, legacy, factories with inserted word
    operators (binary, right-associative binary, prefix, suffix), with operators removed, without the keyword operator -
    all in one process, every engine being the first to be used once (and the reverse orders)."""
    import concurrent.futures
    import multiengine as me
    rng = run.rng
    specs = me.ENGINES
    n = len(specs)
    extra = ["".join(rng.choice("abcdxyz_ABé019") for _ in range(rng.randrange(2, 8))) for _ in range(run.n(6, 40))]
    extra = [w for w in extra if not w[0].isdigit() and not w.startswith("__")]
    words = me.pool(specs, extra)
    orders = [[(i + k) % n for k in range(n)] for i in range(n)]
    orders += [list(reversed(o)) for o in orders[:run.n(2, n)]]
    for _ in range(run.n(0, 24) + (8 if deep else 0)):
        o = list(range(n))
        rng.shuffle(o)
        orders.append(o)
    scns = [{"engines": specs, "order": o, "words": words} for o in orders]
    with concurrent.futures.ThreadPoolExecutor(max_workers=8) as ex:
        results = list(ex.map(run_scenario, scns))
    reported = False
    for scn, fails in zip(scns, results):
        run.case(("engines", tuple(scn["order"])), nontrivial=True)
        run.count("oracle:engines:" + ("ok" if not fails else "fail"))
        run.count("oracle:engines:texts", sum(len(me.expectations(specs[i], words)) for i in scn["order"]))
        if fails and not reported:
            reported = True
            small, f = shrink_scenario(scn, fails[0])
            run.fail("violation",
                     "what a word denotes for one engine depends on what another engine of the process read before",
                     {"scenario": small, "failing_step": f,
                      "how_to_read": "engines are created and used in `order` inside one fresh process; each reads the texts "
                                     "multiengine.expectations() derives from its own operator table",
                      "required": "true/false/null are the constants; a word that is not a keyword operator OF THE ENGINE "
                                  "THAT READS IT denotes its own text; its own operators parse as operators; strings and "
                                  "numbers are unaffected",
                      "theorems": ["C16_keywords (the token type of a word is a function of the reading engine's own tables: "
                                   "kw_action cfg w)"]})
    run.note("oracle: %d multi-engine scenarios (%d engines, %d words each) in fresh processes" % (len(scns), n, len(words)))


def shrink_scenario(scn, failure):
    """Smallest scenario that still fails: [one earlier engine, the failing engine] reading only the failing word."""
    import re
    bad = failure.get("engine_index")
    word_texts = [w for w in scn["words"] if re.search(r"(?<!\w)%s(?!\w)" % re.escape(w), failure["text"])]
    for words in ([w] for w in word_texts):
        for i in scn["order"]:
            if i == bad:
                break
            cand = {"engines": scn["engines"], "order": [i, bad], "words": words}
            try:
                fails = run_scenario(cand)
            except Exception:
                continue
            if fails:
                return cand, fails[0]
    return scn, failure


def classify(failure, known_entries):
    cls = failure.data.get("finding_class")
    for k in known_entries:
        if cls and k.get("class") == cls:
            return "%s %s" % (k["id"], k.get("line", ""))
    return None


def load_corpus():
    path = os.path.join(HERE, "corpus", "C16.json")
    if not os.path.exists(path):
        return []
    out = []
    for d in json.load(open(path)):
        if isinstance(d, dict) and "value" in d:
            out.append(d)
        elif isinstance(d, dict):
            out.append(lc.decompress(d))
    return out


def replay(run, data):
    import sys
    import core
    core.build_proofs(run, sys.modules[__name__])
    if not run.proof["ok"]:
        return False
    d = data["data"]
    if "scenario" in d:
        return not run_scenario(d["scenario"])
    if "eval_history" in d:
        texts = ["".join(chr(c) for c in cps) for cps in d["eval_history"]]
        res = run_eval_history(texts)
        return res[-1] == d["required_last"]
    if "overlap" in d:
        o = d["overlap"]
        oa, ob = parse_overlapped(o["text"], o["other"], o["before_fetch"])
        return oa == observe(o["text"]) and ob == observe(o["other"])
    if "value" in d:
        s = "".join(chr(c) for c in d["value"])
        bad = [b for b in roundtrip_failure(s) if b[0] != "verbatim" or vb_ok(s)]
        if bad:
            return False
        os_ = (observe(spell("'", s)), observe(spell('"', s)), observe(spell_verbatim(s)))
        return not run.coq_mismatches(HEADER, "scase", "scase_ok", [scase_term(s, *os_)])
    t = lc.decompress(d["input"])
    o = observe(t)
    if o[0] == "foreign":
        return False
    return not run.coq_mismatches(HEADER, "lcase", "lcase_ok", [lcase_term(t, o)])
