"""C02 - the operator table decides the parse tree (precedence, associativity).

C: for the default engine, the legacy engine and engines built by random sequences of
   `insert_operator` calls, the tree of `engine(text).expression` is compared with
   `parse (table_of (build_table ops)) tokens` evaluated inside Coq (Model/Pratt.v), where
   `ops` is the live `factory.operators` and `tokens` come from the real lexer.  The model of
   `insert_operator` is compared with `factory.operators` after every call, and the model of
   `_build_operator_table` with the live table of every engine.
O: the real tree must be THE tree of the token sequence that satisfies the table's local
   reading (earlier group tighter, group associates as declared, prefix takes the tightest
   operand its group allows, brackets start afresh), found by a brute-force chart search in
   Python that knows nothing of the parsing algorithm.  For the default and legacy engines the
   table used is the copy pinned below (the specification), not the live one."""
import json
import os

import gal
import gen_optables

GEN = ["optables"]
RULE = ("texts: (a) every ordered pair of textual binary operators of the engine with no prefix operator, one "
        "prefix operator at each operand position, and two prefix operators at each pair of positions; (b) random "
        "expressions (depth <= 5) over atoms, prefix/suffix/binary operators, parentheses, index, list, map, "
        "function and method calls with the full args grammar (empty slots, named arguments), random whitespace; "
        "(c) a few percent of token soups / damaged texts to compare acceptance; thorough adds every sequence of "
        "<= 3 binary operators x every placement of <= 1 prefix operator (exhaustive), every pair x every placement "
        "of <= 2 prefix operators (exhaustive), 60000 sampled triples with <= 2 prefix operators per engine, and 200 "
        "random tables x 2000 texts. "
        "Engines: default, legacy, allow_delegates=True variants of both, keyword_operator=None and custom keyword operators (`:=`, `~>`), fixed and random insert_operator sequences over all of these (1-6 calls; new symbols from a pool of "
        "punctuation and words or an EXISTING symbol in its other role - binary symbol as new prefix operator, prefix "
        "symbol as new binary one; anchors on either role of two-role symbols and on arities the symbol lacks; "
        "prefix/suffix/left/right; with and without create_group; aliases); every call is compared with the "
        "insert_operator model and the contract on groups, and the engine's trees with the table the CALL SEQUENCE "
        "describes (not factory.operators read back). "
        "Inserted symbols include word-shaped ones over the whole \\w alphabet (underscore, digits, mixed case, non-ASCII "
        "letters) in all four roles; every generated text remembers its pieces and the real lexer must turn every "
        "table symbol among them into its operator token. Factory histories: create() calls interleaved with "
        "insert_operator calls on ONE factory object (fixed + 30 % of the random sequences); every engine created on "
        "the way is checked, after the whole history ran, against the table of its creation time. "
        "Every engine is also asked through its other parse routes - engine(text, options), engine.copy(options)(text), a "
        "copy of a copy - and all routes must give the tree of engine(text) (60 texts for engines whose factory was "
        "edited after their creation, 12 for the others). "
        "non-trivial = the text holds >= 2 operator tokens (binary/prefix/suffix/index) outside brackets of each "
        "other, i.e. precedence or associativity decides something; distinct = distinct (operator list, token list)")
TRUSTED = ["Model/Pratt.v (precedence climbing with the yacc rank rule) stands in for ply's LALR(1) tables with "
           "precedence resolution; that the two compute the same function is NOT proved, it is what C tests",
           "the real lexer supplies the token list (the lexer is not part of this property's model)",
           "harness/props/c02.py: tree canonicalisation (class, operator/function name, argument trees; Wrap kept), "
           "the pinned copies SPEC_DEFAULT/SPEC_LEGACY of the documented tables, the brute-force wf-tree search"]
ASSUMPTIONS = ["the delegate call `value(args)` (allow_delegates=True) has a rank of its own below every operator "
               "(ply: `(` carries no precedence, every operator rule does); Model/Pratt.call_rank, tested by C/O",
                              "no symbol is both a suffix and a binary operator (tables with one are reported as uncovered)",
               "operator tables are edited only through insert_operator; NAME_VALUE_PAIR is never inserted through it"]
EXPLANATION = ("proof on the model that parse returns the unique tree (all constructs) satisfying the table's local "
               "reading, that insert_operator keeps groups contiguous, pinned default/legacy tables; differential check "
               "of parse trees and of insert_operator/_build_operator_table against the model; brute-force wf-tree oracle")
LEVEL_NOTE = ("all theorems are about the reference parser Model/Pratt.v; that ply's LALR tables with yacc precedence "
              "resolution compute the same trees is tested (C, O), not proved")
ALLOWED_AXIOMS = []

HEADER = "From YV Require Import Model.OpTable Model.Pratt."

P, S, L, R, NV = "PREFIX_UNARY", "SUFFIX_UNARY", "BINARY_LEFT_ASSOCIATIVE", "BINARY_RIGHT_ASSOCIATIVE", "NAME_VALUE_PAIR"

# ---- the specification: the documented tables (doc/source/language_reference.rst, factory.py:102-141) ----
_STD = [(".", L), ("?.", L), (), ("[]", L), ("{}", L), (), ("+", P), ("-", P), (), ("=~", L), ("!~", L), (),
        ("*", L), ("/", L), ("mod", L), (), ("+", L), ("-", L), (),
        (">", L), ("<", L), (">=", L), ("<=", L), ("!=", L, "not_equal"), ("=", L, "equal"), ("in", L), (),
        ("not", P), (), ("and", L), (), ("or", L), (), ("->", R)]


def canon_ops(ops):
    """factory.operators -> list of () / (sym, kind, alias)"""
    return [() if len(t) < 2 else (t[0], t[1], t[2] if len(t) > 2 else None) for t in ops]


SPEC_DEFAULT = canon_ops([("=>", NV)] + _STD)
SPEC_LEGACY = canon_ops(_STD[:-2] + [(), ("=>", L, None)] + _STD[-2:])

# engine kinds: "default" | "legacy" | "nokw" (keyword_operator=None) | "kw<SYM>" (custom keyword operator),
# each optionally followed by "+delegates" (allow_delegates=True)
BASE_KINDS = ["default", "legacy", "default+delegates", "legacy+delegates", "nokw", "kw:=", "kw~>+delegates"]


def kind_parts(kind):
    base, _, opt = kind.partition("+")
    return base, opt == "delegates"


def make_factory(kind):
    import yaql
    from yaql import legacy
    base, deleg = kind_parts(kind)
    if base == "legacy":
        return legacy.YaqlFactory(allow_delegates=deleg)
    if base == "default":
        return yaql.YaqlFactory(allow_delegates=deleg)
    if base == "nokw":
        return yaql.YaqlFactory(keyword_operator=None, allow_delegates=deleg)
    assert base.startswith("kw"), kind
    return yaql.YaqlFactory(keyword_operator=base[2:], allow_delegates=deleg)


def spec_base(kind):
    """the documented operator list of a factory of this kind"""
    base, _ = kind_parts(kind)
    if base == "legacy":
        return SPEC_LEGACY
    if base == "default":
        return SPEC_DEFAULT
    if base == "nokw":
        return canon_ops(_STD)
    return canon_ops([(base[2:], NV)] + _STD)


# --------------------------------------------------------------------------------------------
# table reading used by the oracle (directly off an operator list)
# --------------------------------------------------------------------------------------------
class Roles:
    def __init__(self, ops):
        self.pre, self.suf, self.bin = {}, {}, {}
        g = 1
        for t in ops:
            if len(t) < 2:
                g += 1
                continue
            sym, kind = t[0], t[1]
            if kind == P:
                self.pre.setdefault(sym, g)
            elif kind == S:
                self.suf.setdefault(sym, (g, S))
            elif kind in (L, R):
                self.bin.setdefault(sym, (g, kind))

    def tokrole(self, sym):
        """role of an operator symbol met AFTER a complete operand"""
        if sym in self.bin:
            return self.bin[sym]
        return self.suf.get(sym)


def shifts(role, pend_group):
    """does a look-ahead operator of this role extend the operand of a pending operator of group pend_group?"""
    g, kind = role
    return g < pend_group or (g == pend_group and kind in (R, S))


def right_spine_ok(x, role, T):
    while True:
        if x[0] == "Un":
            if shifts(role, T.pre[x[1]]):
                return False
            x = x[2]
        elif x[0] == "Bin":
            if shifts(role, T.bin[x[1]][0]):
                return False
            x = x[3]
        else:
            return True


def left_spine_ok(x, pend_group, T):
    while True:
        if x[0] == "Bin":
            if not shifts(T.bin[x[1]], pend_group):
                return False
            x = x[2]
        elif x[0] == "Suf":
            if not shifts(T.suf[x[1]], pend_group):
                return False
            x = x[2]
        elif x[0] == "Index":
            if not shifts(T.bin["[]"], pend_group):
                return False
            x = x[1]
        elif x[0] == "CallV":
            if not shifts(CALL_ROLE, pend_group):
                return False
            x = x[1]
        else:
            return True


OPENERS = {"(": ")", "[": "]", "{": "}", "func": ")"}


def tk(t):
    return t if isinstance(t, str) else t[0]


CALL_ROLE = (float("inf"), L)     # `value(args)`: looser than every operator, so nothing pending is extended by it


def wf_trees(toks, ops, limit=4, delegates=False):
    """all trees with yield == toks that satisfy the table's local reading (brute force, chart)."""
    T = Roles(ops)
    n = len(toks)
    match, depth, stack = {}, [0] * (n + 1), []
    for i, t in enumerate(toks):
        k = tk(t)
        depth[i] = len(stack)
        if k in OPENERS:
            stack.append(i)
        elif k in (")", "]", "}"):
            if not stack or OPENERS[tk(toks[stack[-1]])] != k:
                return []
            match[stack.pop()] = i
    if stack:
        return []
    memo = {}

    def slots(i, j):
        """argument lists for toks[i:j] (list of tuples of slots)"""
        if i == j:
            return [()]
        # depth[i] is the depth in front of token i; a comma belongs to this list iff it is at that depth
        commas = [k for k in range(i, j) if depth[k] == depth[i] and tk(toks[k]) == ","]
        bounds = [i - 1] + commas + [j]
        per_slot = []
        for a, b in zip(bounds, bounds[1:]):
            lo, hi = a + 1, b
            if lo == hi:
                per_slot.append([("E",)])
                continue
            maps = [k for k in range(lo, hi) if depth[k] == depth[lo] and tk(toks[k]) == "=>"]
            if len(maps) == 0:
                per_slot.append([("V", t) for t in trees(lo, hi)])
            elif len(maps) == 1:
                per_slot.append([("N", k, v) for k in trees(lo, maps[0]) for v in trees(maps[0] + 1, hi)])
            else:
                per_slot.append([])
        out = [()]
        for alts in per_slot:
            out = [o + (a,) for o in out for a in alts][:limit * 4]
        return [o for o in out if shape_ok("".join(s[0] for s in o))]

    def trees(i, j):
        if (i, j) in memo:
            return memo[(i, j)]
        res = []
        if j > i:
            first, last = toks[i], toks[j - 1]
            if j - i == 1 and tk(first) == "atom":
                res.append(("Atom", first[1]))
            if tk(first) in OPENERS and match.get(i) == j - 1:
                if tk(first) == "(":
                    res += [("Wrap", x) for x in trees(i + 1, j - 1)]
                elif tk(first) == "[":
                    res += [("List", a) for a in slots(i + 1, j - 1)]
                elif tk(first) == "{":
                    res += [("Map", a) for a in slots(i + 1, j - 1)]
                else:
                    res += [("Call", first[1], a) for a in slots(i + 1, j - 1)]
            if tk(last) == "]" and "[]" in T.bin:
                k = [o for o, c in match.items() if c == j - 1][0]
                if k > i and depth[k] == depth[i]:
                    for x in trees(i, k):
                        if right_spine_ok(x, T.bin["[]"], T):
                            res += [("Index", x, a) for a in slots(k + 1, j - 1)]
            if tk(last) == ")" and delegates:
                k = [o for o, c in match.items() if c == j - 1][0]
                if k > i and depth[k] == depth[i] and tk(toks[k]) == "(":
                    for x in trees(i, k):
                        if right_spine_ok(x, CALL_ROLE, T):
                            res += [("CallV", x, a) for a in slots(k + 1, j - 1)]
            if tk(first) == "op" and first[1] in T.pre:
                for x in trees(i + 1, j):
                    if left_spine_ok(x, T.pre[first[1]], T):
                        res.append(("Un", first[1], x))
            if tk(last) == "op" and depth[j - 1] == depth[i] and last[1] in T.suf and last[1] not in T.bin:
                for x in trees(i, j - 1):
                    if right_spine_ok(x, T.suf[last[1]], T):
                        res.append(("Suf", last[1], x))
            for k in range(i + 1, j - 1):
                t = toks[k]
                if depth[k] == depth[i] and tk(t) == "op" and t[1] in T.bin:
                    role = T.bin[t[1]]
                    ls = [x for x in trees(i, k) if right_spine_ok(x, role, T)]
                    if ls:
                        rs = [y for y in trees(k + 1, j) if left_spine_ok(y, role[0], T)]
                        res += [("Bin", t[1], x, y) for x in ls for y in rs]
            res = res[:limit]
        memo[(i, j)] = res
        return res

    return trees(0, n)


def shape_ok(pat):
    """args / arglist / incomplete_arglist / named_arglist (parser.py) as a condition on the slot pattern:
    positional slots (V, E) first, then named ones; the positional part ends with a value, or with `V E`
    when a named argument follows; it is never empty slots only."""
    if pat == "":
        return True
    npos = len(pat.rstrip("N"))
    pos, named = pat[:npos], pat[npos:]
    if "N" in pos:
        return False
    if not pos:
        return True
    if pos.endswith("V"):
        return True
    return bool(named) and pos.endswith("VE")


# --------------------------------------------------------------------------------------------
# the implementation side
# --------------------------------------------------------------------------------------------
class Eng:
    """an engine together with what is needed to read its tokens and trees"""

    def __init__(self, kind, calls=(), creates=()):
        """`creates`: positions i (before call i) at which an EXTRA engine is created on the same factory
        object; each is kept in self.views together with the table the factory had at that moment"""
        self.kind, self.calls = kind, [tuple(c) for c in calls]
        self.creates = sorted(set(int(i) for i in creates if 0 <= int(i) < len(self.calls)))
        self.views, self.view_index = [], None
        self.factory = make_factory(kind)
        self.delegates = kind_parts(kind)[1]
        self.history = []          # (ops before, call, ops after | None)
        for i, c in enumerate(self.calls):
            if i in self.creates:
                self.views.append(EngView(self, i, len(self.views)))
            before = canon_ops(self.factory.operators)
            try:
                self.factory.insert_operator(*c)
                after = canon_ops(self.factory.operators)
            except ValueError:
                after = None
            self.history.append((before, c, after))
        self._create_now(self.calls)

    def _create_now(self, calls_so_far):
        """factory.create() NOW; remember the table the factory holds at this moment"""
        from yaql.language import exceptions
        self.ops = canon_ops(self.factory.operators)
        try:
            self.built = self.factory._build_operator_table(self.factory._name_generator())
        except exceptions.InvalidOperatorTableException:
            self.built = None
        self.engine, self.create_error = None, None
        if self.built is not None:
            try:
                self.engine = self.factory.create()
            except Exception as e:      # ply refuses the grammar / precedence list
                self.create_error = "%s: %s" % (type(e).__name__, e)
            self.name2sym = {v[2]: k for k, v in self.built.operators.items()}
        # the table the engine must follow: the pinned base table with the call sequence applied by the
        # CONTRACT of insert_operator (spec_insert), not factory.operators read back
        self.spec_ops = spec_base(self.kind)
        for c in calls_so_far:
            self.spec_ops = spec_insert(self.spec_ops, c)

    def spec(self):
        d = {"kind": self.kind, "calls": self.calls}
        if self.creates:
            d["creates"] = self.creates
        return d

    def lex(self, text):
        """model tokens (python form) or None if the lexer rejects the text"""
        from yaql.language import exceptions
        lx = self.engine.lexer.clone()
        lx.input(text)
        out = []
        try:
            while True:
                t = lx.token()
                if t is None:
                    break
                out.append(self.token(t))
        except exceptions.YaqlLexicalException:
            return None
        return out

    def token(self, t):
        ty = t.type
        if ty in ("(", ")", "]", ",", "}"):
            return ty
        if ty == "INDEXER":
            return "["
        if ty == "MAP":
            return "{"
        if ty == "MAPPING":
            return "=>"
        if ty == "FUNC":
            return ("func", t.value)
        if ty == "KEYWORD_STRING":
            return ("atom", ("kw", t.value))
        if ty == "DOLLAR":
            return ("atom", ("ctx", t.value))
        if ty in ("QUOTED_STRING", "NUMBER", "TRUE", "FALSE", "NULL"):
            return ("atom", ("const", type(t.value).__name__, t.value))
        return ("op", self.name2sym.get(ty, t.value))

    def tree(self, text, route="call"):
        """('ok', tree) | ('err',)  -- tree in python form; raises on anything else.
        route: how the engine is asked - engine(text), engine(text, options), a copy, a copy of a copy"""
        from yaql.language import exceptions
        try:
            if route == "call":
                e = self.engine(text).expression
            elif route == "call+options":
                e = self.engine(text, options={"yaql.limitIterators": 1000}).expression
            elif route == "copy":
                e = self.engine.copy({"yaql.memoryQuota": 100000})(text).expression
            elif route == "copy of copy":
                e = self.engine.copy({"yaql.limitIterators": 7}).copy({"yaql.convertSetsToLists": True})(text).expression
            else:
                raise ValueError(route)
        except exceptions.YaqlGrammarException:
            return ("err",)
        return ("ok", self.conv(e))

    def conv(self, e):
        from yaql.language import expressions as E
        if isinstance(e, E.GetContextValue):
            return ("Atom", ("ctx", e.path.value))
        if isinstance(e, E.KeywordConstant):
            return ("Atom", ("kw", e.value))
        if isinstance(e, E.Constant):
            return ("Atom", ("const", type(e.value).__name__, e.value))
        if isinstance(e, E.Wrap):
            return ("Wrap", self.conv(e.expr))
        if isinstance(e, E.BinaryOperator):
            self.check_name(e, "#operator_")
            return ("Bin", e.operator, self.conv(e.args[0]), self.conv(e.args[1]))
        if isinstance(e, E.UnaryOperator):
            self.check_name(e, "#unary_operator_")
            up = self.built.operators[e.operator][0]
            return ("Un" if up > 0 else "Suf", e.operator, self.conv(e.args[0]))
        if isinstance(e, E.IndexExpression):
            return ("Index", self.conv(e.args[0]), self.conv_args(e.args[1:]))
        if isinstance(e, E.ListExpression):
            return ("List", self.conv_args(e.args))
        if isinstance(e, E.MapExpression):
            return ("Map", self.conv_args(e.args))
        if type(e) is E.Function and e.name == "#call" and self.delegates:
            return ("CallV", self.conv(e.args[0]), self.conv_args(e.args[1:]))
        if type(e) is E.Function:
            return ("Call", e.name, self.conv_args(e.args))
        raise TypeError("unexpected node %r" % type(e).__name__)

    def check_name(self, e, prefix):
        alias = self.built.operators[e.operator][3]
        want = ("*" + alias) if alias is not None else prefix + e.operator
        if e.name != want:
            raise NameMismatch(e.operator, e.name, want)

    def conv_args(self, args):
        from yaql.language import expressions as E, utils
        out = []
        for a in args:
            if a is utils.NO_VALUE:
                out.append(("E",))
            elif isinstance(a, E.MappingRuleExpression):
                out.append(("N", self.conv(a.source), self.conv(a.destination)))
            else:
                out.append(("V", self.conv(a)))
        return tuple(out)


class EngView(Eng):
    """an engine created part-way through a history on ONE factory object: it must follow the table the
    factory had when it was created, whatever is inserted or created on the factory afterwards"""

    def __init__(self, parent, pos, index):
        self.parent, self.kind, self.delegates, self.factory = parent, parent.kind, parent.delegates, parent.factory
        self.calls, self.history, self.views, self.creates = parent.calls[:pos], [], [], []
        self.view_index, self.mixed = index, False
        self._create_now(self.calls)

    def spec(self):
        return dict(self.parent.spec(), view=self.view_index)


def eng_from_spec(d):
    e = Eng(d["kind"], [tuple(c) for c in d["calls"]], d.get("creates", ()))
    return e.views[d["view"]] if d.get("view") is not None else e


class NameMismatch(Exception):
    pass


# --------------------------------------------------------------------------------------------
# printing to Gallina
# --------------------------------------------------------------------------------------------
class Printer:
    """prints tokens/trees of ONE text; atoms are numbered per distinct (kind, value)"""

    def __init__(self, symdefs):
        self.symdefs = symdefs     # shared: symbol -> Coq identifier defined in the shard header
        self.atoms = {}

    def sym(self, s):
        if s not in self.symdefs:
            self.symdefs[s] = "y%d" % len(self.symdefs)
        return self.symdefs[s]

    def atom(self, a):
        return self.atoms.setdefault(a, len(self.atoms))

    def tok(self, t):
        if isinstance(t, str):
            return {"(": "TLP", ")": "TRP", "[": "TLB", "]": "TRB", "{": "TLC", "}": "TRC", ",": "TComma", "=>": "TMap"}[t]
        if t[0] == "atom":
            return "TAtom %d" % self.atom(t[1])
        return "%s %s" % ({"op": "TOp", "func": "TFunc"}[t[0]], self.sym(t[1]))

    def tree(self, t):
        k = t[0]
        if k == "Atom":
            return "Atom %d" % self.atom(t[1])
        if k in ("Un", "Suf"):
            return "%s %s (%s)" % (k, self.sym(t[1]), self.tree(t[2]))
        if k == "Bin":
            return "Bin %s (%s) (%s)" % (self.sym(t[1]), self.tree(t[2]), self.tree(t[3]))
        if k == "Wrap":
            return "Wrap (%s)" % self.tree(t[1])
        if k == "Index":
            return "Index (%s) (%s)" % (self.tree(t[1]), self.args(t[2]))
        if k == "List":
            return "ListE (%s)" % self.args(t[1])
        if k == "Map":
            return "MapE (%s)" % self.args(t[1])
        if k == "CallV":
            return "CallV (%s) (%s)" % (self.tree(t[1]), self.args(t[2]))
        if k == "Call":
            return "Call %s (%s)" % (self.sym(t[1]), self.args(t[2]))
        raise ValueError(t)

    def args(self, a):
        out = "ANil"
        for s in reversed(a):
            if s[0] == "E":
                out = "AEmpty (%s)" % out
            elif s[0] == "V":
                out = "AVal (%s) (%s)" % (self.tree(s[1]), out)
            else:
                out = "ANamed (%s) (%s) (%s)" % (self.tree(s[1]), self.tree(s[2]), out)
        return out


def case_term(symdefs, toks, obs):
    p = Printer(symdefs)
    ts = gal.lst(p.tok(t) for t in toks)
    tr = "None" if obs[0] == "err" else "(Some (%s))" % p.tree(obs[1])
    return "{| c_toks := %s; c_tree := %s |}" % (ts, tr)


def ok_fn(eng):
    return "(case_ok_with %s the_built)" % gal.boolean(eng.delegates)


def header_for(ops, symdefs):
    lines = [HEADER, "From Coq Require Import List ZArith.", "Import ListNotations."]
    lines += ["Definition %s : list Z := %s." % (v, gal.s(k)) for k, v in symdefs.items()]
    lines.append("Definition the_ops : oplist := %s." % gen_optables.oplist_term(ops))
    lines.append("Definition the_built := build_table the_ops.")
    return "\n".join(lines)


def entry_of_call(c):
    return "(Op %s %s %s)" % (gal.s(c[2]), gen_optables.KIND[c[3]], gal.opt(c[5] if len(c) > 5 else None, gal.s))


def ins_case_term(before, c, after):
    return ("{| i_ops := %s; i_anchor := %s; i_binary := %s; i_new := %s; i_create := %s; i_after := %s |}" % (
        gen_optables.oplist_term(before), gal.opt(c[0], gal.s), gal.boolean(c[1]), entry_of_call(c),
        gal.boolean(c[4]), "None" if after is None else "(Some %s)" % gen_optables.oplist_term(after)))


# --------------------------------------------------------------------------------------------
# generators
# --------------------------------------------------------------------------------------------
WORD = set("abcdefghijklmnopqrstuvwxyzABCDEFGHIJKLMNOPQRSTUVWXYZ0123456789_$")
ATOMS = ["a", "b", "c", "d", "x1", "$", "$v", "1", "2", "30", "4.5", "'s'", '"t"', "`u`", "true", "false", "null", "k_"]


class Text(str):
    """a generated text that remembers the pieces (intended tokens) it was joined from"""
    parts = None


def isw(c):
    return c.isalnum() or c in "_$"


def join(rng, parts, wild=True):
    """concatenate text pieces with random whitespace; pieces that would fuse get at least one blank"""
    out = ""
    for p in parts:
        if out:
            a, b = out[-1], p[0]
            need = (isw(a) and isw(b)) or (not isw(a) and not isw(b) and a not in "()[]{}," and b not in "()[]{},") \
                or (isw(a) and b == "(") or (a in "0123456789" and b == ".") or (a == "." and b in "0123456789")
            ws = rng.choice(["", "", " ", " ", "  ", "\t", "\n", " \n "]) if wild else ""
            if need and not ws:
                ws = " "
            out += ws
        out += p
    out = Text(out)
    out.parts = list(parts)
    return out


def intended_kinds(eng, parts):
    """what each piece of a generated text is under the engine's table: every symbol of the table is an
    operator token, whatever characters it is made of"""
    syms = set(eng.built.operators) - {"[]", "{}"}
    kw = eng.built.name_value_op
    out = []
    for p in parts:
        if p in ("(", ")", "[", "]", "{", "}", ","):
            out.append(p)
        elif kw is not None and p == kw:
            out.append("=>")
        elif p in syms:
            out.append(("op", p))
        elif p.endswith("(") and len(p) > 1:
            out.append(("func", p[:-1]))
        else:
            out.append("atom")
    return out


def lexed_kinds(toks):
    return [t if isinstance(t, str) else ("atom" if t[0] == "atom" else (t[0], t[1])) for t in toks]


def lexer_violation(eng, text, toks):
    """None, or (what, data): the lexer does not turn the operators of the table into operator tokens"""
    parts = getattr(text, "parts", None)
    if parts is None or toks is None:
        return None
    want, got = intended_kinds(eng, parts), lexed_kinds(toks)
    if want == got:
        return None
    bad = [p for p, w in zip(parts, want) if isinstance(w, tuple) and w[0] == "op" and w not in got]
    return ("the lexer does not produce the operator tokens of the engine's table, so the expression cannot get the "
            "tree the table dictates", {"engine": eng.spec(), "text": str(text), "pieces": list(parts),
                                        "operators_not_lexed": sorted(set(bad)), "observed": [repr(t) for t in got],
                                        "required": [repr(t) for t in want]})


class TableView:
    def __init__(self, eng):
        T = Roles(eng.ops)
        self.binary = [s for s in T.bin if s not in ("[]", "{}")]
        self.prefix = list(T.pre)
        self.suffix = [s for s in T.suf if s not in T.bin]
        self.has_index = "[]" in T.bin
        self.has_map = "{}" in T.bin
        self.kw = eng.built.name_value_op
        self.delegates = eng.delegates


def gen_pairs(eng, rng, nops, max_prefix, sample=None):
    """every sequence of `nops` binary operators x every placement of <= max_prefix prefix operators"""
    import itertools
    V = TableView(eng)
    atoms = ["a", "b", "c", "d"]
    placements = [()]
    slots_ = list(range(nops + 1))
    for k in range(1, max_prefix + 1):
        for pos in itertools.combinations(slots_, k):
            for ops in itertools.product(V.prefix, repeat=k):
                placements.append(tuple(zip(pos, ops)))
    combos = itertools.product(itertools.product(V.binary, repeat=nops), placements)
    if sample is not None:
        combos = list(combos)
        combos = rng.sample(combos, min(sample, len(combos)))
    for bins, pl in combos:
        pl = dict(pl)
        parts = []
        for i in range(nops + 1):
            if i in pl:
                parts.append(pl[i])
            parts.append(atoms[i])
            if i < nops:
                parts.append(bins[i])
        yield join(rng, parts, wild=rng.random() < 0.3)


def gen_focus(eng, rng):
    """every (prefix, binary), (binary, suffix), (prefix, suffix), (suffix, binary) and (prefix/suffix, index)
    combination once: the places where the unary roles' ranks decide"""
    V = TableView(eng)
    for p in V.prefix:
        for o in V.binary:
            yield join(rng, [p, "a", o, "b"])
            yield join(rng, ["a", o, p, "b", o, "c"])
        for s_ in V.suffix:
            yield join(rng, [p, "a", s_])
        if V.has_index:
            yield join(rng, [p, "a", "[", "1", "]"])
    for s_ in V.suffix:
        for o in V.binary:
            yield join(rng, ["a", o, "b", s_])
            yield join(rng, ["a", s_, o, "b"])
        if V.has_index:
            yield join(rng, ["a", s_, "[", "1", "]", s_])
    if V.delegates:
        for o in V.binary:
            yield join(rng, ["a", o, "b", "(", "c", ")"])
            yield join(rng, ["a", "(", "b", ")", o, "c"])
        for p in V.prefix:
            yield join(rng, [p, "a", "(", "b", ")"])
        for s_ in V.suffix:
            yield join(rng, ["a", s_, "(", "b", ")", s_])
        for t in (["a", "(", "b", ")", "(", "c", ")"], ["a", "[", "1", "]", "(", "b", ")", "[", "2", "]"],
                  ["(", "a", ")", "(", "b", ")"], ["f(", "x", ")", "(", ",", "y", ")"], ["a", "(", ")"]):
            yield join(rng, t)
    for o in V.binary:
        if V.has_index:
            yield join(rng, ["a", o, "b", "[", "1", "]"])
        yield join(rng, ["a", o, "f(", "b", ")", o, "c"])


def gen_expr(V, rng, depth):
    """random token-piece list of an expression; NO parentheses are added for grouping, so the
    structure is whatever the parser makes of it"""
    r = rng.random()
    if depth <= 0 or r < 0.22:
        return [rng.choice(ATOMS)]
    if r < 0.50 and V.binary:
        return gen_expr(V, rng, depth - 1) + [rng.choice(V.binary)] + gen_expr(V, rng, depth - 1)
    if r < 0.60 and V.prefix:
        return [rng.choice(V.prefix)] + gen_expr(V, rng, depth - 1)
    if r < 0.66 and V.suffix:
        return gen_expr(V, rng, depth - 1) + [rng.choice(V.suffix)]
    if r < 0.70 and V.delegates:
        return gen_expr(V, rng, depth - 1) + ["("] + gen_args(V, rng, depth - 1, small=True) + [")"]
    if r < 0.72:
        return ["("] + gen_expr(V, rng, depth - 1) + [")"]
    if r < 0.80 and V.has_index:
        return gen_expr(V, rng, depth - 1) + ["["] + gen_args(V, rng, depth - 1, small=True) + ["]"]
    if r < 0.84 and V.has_index:
        return ["["] + gen_args(V, rng, depth - 1) + ["]"]
    if r < 0.87 and V.has_map:
        return ["{"] + gen_args(V, rng, depth - 1) + ["}"]
    if r < 0.94:
        return [rng.choice(["f", "g", "len", "not", "h_2"]) + "("] + gen_args(V, rng, depth - 1) + [")"]
    if "." in V.binary:
        return gen_expr(V, rng, depth - 1) + [".", rng.choice(["m", "where", "select"]) + "("] + gen_args(V, rng, depth - 1) + [")"]
    return [rng.choice(ATOMS)]


def gen_args(V, rng, depth, small=False):
    r = rng.random()
    if r < 0.15:
        return []
    n = rng.choice([1, 1, 2]) if small else rng.choice([1, 1, 2, 2, 3, 4])
    if rng.random() < 0.8:      # a pattern of the grammar
        npos = rng.randrange(0, n + 1)
        nnamed = n - npos if V.kw else 0
        pos = ["V" if rng.random() < 0.8 else "E" for _ in range(npos if V.kw else n)]
        if pos:
            pos[-1] = "V"
            if nnamed and rng.random() < 0.15:
                pos.append("E")
        pat = pos + ["N"] * nnamed
    else:                        # any pattern (mostly outside the grammar)
        pat = [rng.choice("VVEN" if V.kw else "VVE") for _ in range(n)]
    out = []
    for i, s in enumerate(pat):
        if i:
            out.append(",")
        if s == "V":
            out += gen_expr(V, rng, depth - 1)
        elif s == "N":
            out += gen_expr(V, rng, depth - 2) + [V.kw] + gen_expr(V, rng, depth - 1)
    return out


def damage(rng, parts, V):
    parts = list(parts)
    k = rng.randrange(4)
    i = rng.randrange(len(parts) + 1)
    junk = V.binary + V.prefix + V.suffix + ["(", ")", "[", "]", ",", "a", "{", "}"] + ([V.kw] if V.kw else [])
    if k == 0 and parts:
        del parts[min(i, len(parts) - 1)]
    elif k == 1:
        parts.insert(i, rng.choice(junk))
    elif k == 2 and parts:
        parts[min(i, len(parts) - 1)] = rng.choice(junk)
    else:
        parts = [rng.choice(junk + ATOMS) for _ in range(rng.randrange(1, 7))]
    return parts or ["a"]


def gen_random(eng, rng, n):
    V = TableView(eng)
    for _ in range(n):
        parts = gen_expr(V, rng, rng.choice([2, 3, 3, 4, 5]))
        if rng.random() < 0.06:
            parts = damage(rng, parts, V)
        yield join(rng, parts)


POOL_PUNCT = ["!", "~", "@", "%", "^", "&", "|", "**", "//", "<>", "??", "::", ":", ";", "#", "<<", ">>", "|>", "~>", "&&", "||"]
# word-shaped symbols over the whole \\w alphabet: letters, digits, underscore, mixed case, non-ASCII letters
POOL_WORD = ["xor", "div", "is", "then", "implies", "nand", "isa", "u_op", "not_in", "is_a", "div2", "neg_", "x9_",
             "isNull", "Xor", "AND2", "_u", "\u00fcnd", "\u0438\u043b\u0438", "\u00e9t\u00e9_1", "\u03b1\u03b2"]


def gen_calls(rng, base_ops, ncalls, mixed):
    """a random sequence of insert_operator calls; unless `mixed`, each keeps every group homogeneous:
    binary operators of one associativity with optional prefix operators, or suffix operators only.
    New operators often REUSE an existing symbol in its other role (a binary symbol as a new prefix
    operator, a prefix symbol as a new binary one), later calls anchor on either role of such symbols,
    and some calls name an arity the anchor symbol does not have (must raise ValueError)."""
    ops = [t for t in base_ops]
    calls = []
    for _ in range(ncalls):
        T = Roles(ops)
        groups, g = {}, 1
        for t in ops:
            if len(t) < 2:
                g += 1
            elif t[1] != NV:
                groups.setdefault(g, []).append(t)
        anchors = [(t[0], t[1] in (L, R)) for t in ops if len(t) >= 2 and t[1] != NV]
        dual = [(s_, b) for s_ in T.bin if s_ in T.pre or s_ in T.suf for b in (True, False)]
        for _try in range(50):
            create = rng.random() < 0.5
            kind = rng.choice([P, P, S, L, L, R, R])
            r = rng.random()
            if r < 0.07:
                anchor = None
            elif r < 0.45 and dual:
                anchor = rng.choice(dual)
            else:
                anchor = rng.choice(anchors)
            if anchor is not None and rng.random() < 0.08:
                anchor = (anchor[0], not anchor[1])            # possibly an arity the symbol does not have
            used_un = set(T.pre) | set(T.suf)
            used_bin = set(T.bin)
            other = []
            if kind == P:
                other = [s_ for s_ in T.bin if s_ not in used_un and s_ not in ("[]", "{}")]
            elif kind in (L, R):
                other = [s_ for s_ in T.pre if s_ not in used_bin]
            if other and rng.random() < 0.4:
                sym = rng.choice(other)
            else:
                sym = rng.choice(POOL_PUNCT + POOL_WORD + (list(T.pre) + list(T.bin) if rng.random() < 0.1 else []))
            if sym in ("[]", "{}"):
                continue
            dup = (kind in (P, S) and sym in used_un) or (kind in (L, R) and sym in used_bin)
            clash = (kind == S and sym in used_bin) or (kind in (L, R) and sym in T.suf)
            if clash or (dup and rng.random() < 0.97):
                continue
            exists = anchor is None or spec_groups(ops, (anchor[0], anchor[1], sym, kind, create, None)) is not None
            if exists and not create and not mixed:
                # the group the new operator would join
                if anchor is None:
                    grp = groups.get(1, [])
                else:
                    role_g = (T.bin[anchor[0]][0] if anchor[1] else (T.pre.get(anchor[0]) or T.suf[anchor[0]][0]))
                    grp = groups.get(role_g, [])
                kinds = {t[1] for t in grp}
                if kind == S and kinds - {S}:
                    continue
                if kind != S and S in kinds:
                    continue
                if kind == L and R in kinds or kind == R and L in kinds:
                    continue
            alias = rng.choice([None, None, None, "al_" + str(len(calls))])
            c = (anchor[0] if anchor else None, anchor[1] if anchor else False, sym, kind, create, alias)
            calls.append(c)
            ops = spec_insert(ops, c)       # the list the sequence describes (independent of the implementation)
            break
    if rng.random() < 0.05:
        calls.append((rng.choice(["nosuch", "+", "not"]), rng.random() < 0.5, "@@", L, rng.random() < 0.5, None))
    return calls


# --------------------------------------------------------------------------------------------
# C and O
# --------------------------------------------------------------------------------------------
def nontrivial(toks):
    """>= 2 operator tokens at the same bracket depth and inside the same bracket pair"""
    depth, counts, stack = 0, {}, [0]
    uid = 0
    for t in toks:
        k = tk(t)
        if k in OPENERS:
            if k == "[":
                counts[stack[-1]] = counts.get(stack[-1], 0) + 1
            uid += 1
            stack.append(uid)
        elif k in (")", "]", "}"):
            if len(stack) > 1:
                stack.pop()
        elif k == ",":
            uid += 1
            stack[-1] = uid
        elif k == "op":
            counts[stack[-1]] = counts.get(stack[-1], 0) + 1
    return any(v >= 2 for v in counts.values())


_lexer_reported = set()
ROUTES = ["call+options", "copy", "copy of copy"]
_route_budget = {}
_route_reported = set()


def route_observation(eng, text, route):
    try:
        return eng.tree(text, route)
    except KeyError as ex:              # a copy that follows another table produces nodes this engine's table lacks
        return ("tree with an operator the engine's own table does not have", str(ex))
    except Exception as ex:
        return ("exception", "%s: %s" % (type(ex).__name__, ex))


def check_routes(run, eng, text, obs):
    """every way of asking ONE engine - engine(text), engine(text, options), engine.copy(options)(text), copies of
    copies - must give the same tree: the one of the table the engine was created from.  Engines whose factory
    was edited after their creation are asked this for 60 texts, every other engine for 12."""
    key = id(eng)
    left = _route_budget.setdefault(key, 60 if eng.view_index is not None else 12)
    if left <= 0 or len(_route_reported) >= 6:
        return
    _route_budget[key] = left - 1
    for route in ROUTES:
        got = route_observation(eng, text, route)
        run.count("route %s:%s" % (route, "same tree" if got == obs else "DIFFERENT"))
        if got != obs and (key, route) not in _route_reported:
            _route_reported.add((key, route))
            _route_budget[key] = 0 if sum(1 for k, _ in _route_reported if k == key) >= 2 else _route_budget[key]
            run.fail("violation", "one engine gives different trees through its parse routes: %s does not follow the table "
                     "the engine was created from" % {"call+options": "engine(text, options)", "copy": "engine.copy(options)(text)",
                                                      "copy of copy": "a copy of a copy"}[route],
                     {"engine": eng.spec(), "text": str(text), "route": route, "observed": got,
                      "required": obs, "how_to_read": "required = engine(text).expression, which C/O check against the "
                      "table of the engine's creation time"})


def check_text(run, eng, text, cases, meta, where):
    """run the real lexer and parser on one text; queue the Coq case; returns the python observation"""
    toks = eng.lex(text)
    lv = lexer_violation(eng, text, toks)
    if lv:
        run.count("lexer misses an operator of the table")
        key = ("lexer", tuple(lv[1]["operators_not_lexed"]), repr(eng.spec()))
        if key not in _lexer_reported and len(_lexer_reported) < 8:
            _lexer_reported.add(key)
            run.fail("violation", lv[0], lv[1])
    if toks is None:
        run.cov["skipped"] += 1
        run.count("lexer rejects (not this property)")
        if eng.view_index is not None:      # still: every route of the engine must reject it the same way
            check_routes(run, eng, text, route_observation(eng, text, "call"))
        return None
    try:
        obs = eng.tree(text)
    except NameMismatch as e:
        run.fail("violation", "operator node carries the wrong function name (alias handling)",
                 {"engine": eng.spec(), "text": text, "operator": e.args[0], "observed": e.args[1], "required": e.args[2]})
        return None
    check_routes(run, eng, text, obs)
    nt = nontrivial(toks)
    run.case((eng.kind, tuple(eng.calls), tuple(map(repr, toks))), nontrivial=nt and obs[0] == "ok")
    run.count("%s:%s" % (where, "tree" if obs[0] == "ok" else "grammar error"))
    cases.append((toks, obs))
    meta.append(text)
    return obs


def oracle_one(eng, text, toks, obs):
    """None if fine, else (what, data)"""
    ops = eng.spec_ops if eng.spec_ops is not None else eng.ops
    want = wf_trees(toks, ops, delegates=eng.delegates)
    label = ("the pinned %s table" % eng.kind) + (" with the insert_operator calls applied as documented" if eng.calls else "")
    base = {"engine": eng.spec(), "text": text, "tokens": [repr(t) for t in toks],
            "observed": obs[1] if obs[0] == "ok" else "YaqlGrammarException", "table": label}
    if len(want) > 1:
        return ("oracle: more than one precedence-correct tree (C02_unique contradicted)", dict(base, required=want))
    if obs[0] == "ok":
        if not want:
            return ("the parser built a tree although no tree of this text satisfies %s" % label, dict(base, required=None))
        if want[0] != obs[1]:
            return ("parse tree differs from the tree dictated by %s" % label, dict(base, required=want[0]))
    elif want:
        return ("the parser rejects a text that has a precedence-correct tree under %s" % label, dict(base, required=want[0]))
    return None


_pending = []


def flush(run, eng, cases, meta):
    """queue the cases of one engine; batches of engines are evaluated inside Coq together (one header with
    every engine's operator list, shards run in parallel)"""
    if cases:
        _pending.append((eng, list(cases), [str(m) for m in meta]))
    del cases[:], meta[:]
    if len(_pending) >= 16 or sum(len(c) for _, c, _ in _pending) >= 6000:
        flush_all(run)


def flush_all(run):
    """evaluate everything queued inside Coq; classify disagreements"""
    if not _pending:
        return
    batch = list(_pending)
    del _pending[:]
    symdefs, terms, index = {}, [], []
    for k, (eng, cases, meta) in enumerate(batch):
        for j, (toks, obs) in enumerate(cases):
            terms.append("(%s, the_built_%d, %s)" % (gal.boolean(eng.delegates), k, case_term(symdefs, toks, obs)))
            index.append((k, j))
    lines = [HEADER, "From Coq Require Import List ZArith.", "Import ListNotations."]
    lines += ["Definition %s : list Z := %s." % (v, gal.s(k)) for k, v in symdefs.items()]
    for k, (eng, _, _) in enumerate(batch):
        lines.append("Definition the_built_%d := build_table %s." % (k, gen_optables.oplist_term(eng.ops)))
    bad = run.coq_mismatches("\n".join(lines), "bool * option built * case",
                             "(fun x => case_ok_with (fst (fst x)) (snd (fst x)) (snd x))", terms, shard=400)
    per_engine = {}
    for i in bad:
        k, j = index[i]
        per_engine[k] = per_engine.get(k, 0) + 1
        if per_engine[k] > 20:
            continue
        eng, cases, meta = batch[k]
        toks, obs = cases[j]
        v = oracle_one(eng, meta[j], toks, obs)
        if v:
            run.fail("violation", v[0], v[1])
        else:
            run.fail("mismatch", "model parse and real parse disagree, yet the real tree is the precedence-correct one",
                     {"engine": eng.spec(), "text": meta[j], "tokens": [repr(t) for t in toks], "observed": obs})


def check_tables(run, engs):
    """insert_operator and _build_operator_table against the model, for all engines at once"""
    ins, ins_meta, bld, bld_meta = [], [], [], []
    for e in engs:
        for before, c, after in e.history:
            ins.append(ins_case_term(before, c, after))
            ins_meta.append((e, before, c, after))
            run.count("insert_operator:%s" % ("ValueError" if after is None else ("new group" if c[4] else "join group")))
        cov = precedence_covers(e)
        if not cov:
            run.fail("violation", "the precedence tuple handed to ply does not mention every operator of the table "
                     "(a level was dropped by `range(1, len(precedence_dict) + 1)`)",
                     {"engine": e.spec(), "ops": e.ops, "error": "precedence level dropped"})
        bld.append("{| bc_ops := %s; bc_built := %s; bc_covered := %s |}" % (
            gen_optables.oplist_term(e.ops), gen_optables.built_term(e.factory), gal.boolean(cov)))
        bld_meta.append(e)
        run.count("build_table:%s" % ("rejected" if e.built is None else "ok"))
    for i in run.coq_mismatches(HEADER, "ins_case", "ins_case_ok", ins, shard=200):
        e, before, c, after = ins_meta[i]
        v = insert_violation(before, c, after)
        run.fail("violation" if v else "mismatch",
                 v or "insert_operator: factory.operators differs from the model after the call",
                 {"engine": e.spec(), "call": c, "before": before, "after": after})
    for i in run.coq_mismatches(HEADER, "build_case", "build_case_ok", bld, shard=100):
        e = bld_meta[i]
        run.fail("mismatch", "_build_operator_table differs from the model (levels, names or aliases)",
                 {"engine": e.spec(), "ops": e.ops, "built": None if e.built is None else dict(e.built.operators)})
    for e in engs:
        if e.built is not None and any(up < 0 and bp for up, bp, _, _ in e.built.operators.values()):
            run.cov["uncovered"].append("table with a suffix+binary symbol: %r" % (e.calls,))


def precedence_covers(e):
    """True iff every operator token name of the live table occurs in the `precedence` attribute of a
    real Parser object built for it (parser.py:79-88)"""
    if e.built is None:
        return True
    from yaql.language import lexer, parser
    pr = parser.Parser(lexer.Lexer(e.built), e.built, e.factory)
    have = {n for level in pr.precedence for n in level[1:]}
    want = set()
    for up, bp, name, _ in e.built.operators.values():
        if up:
            want.add("UNARY_" + name if bp else name)
        if bp:
            want.add(name)
    return want <= have


def split_groups(ops):
    gs = [[]]
    for t in ops:
        if len(t) < 2:
            gs.append([])
        else:
            gs[-1].append(t)
    return gs


def spec_groups(before, c):
    """the contract of insert_operator on the groups of the list: the anchor is the first row with the given
    symbol AND arity; returns the groups afterwards, or None when the call must raise ValueError"""
    new = (c[2], c[3], c[5] if len(c) > 5 else None)
    gb = split_groups(before)
    if c[0] is None:
        return ([[new]] + gb) if c[4] else ([[new] + gb[0]] + gb[1:])
    ks = [i for i, g in enumerate(gb)
          if any(t[0] == c[0] and t[1] != NV and (t[1] in (L, R)) == bool(c[1]) for t in g)]
    if not ks:
        return None
    k = ks[0]
    if not c[4]:
        return gb[:k] + [gb[k] + [new]] + gb[k + 1:]
    j = k + 1
    while j < len(gb) and not gb[j]:
        j += 1
    return gb[:j] + [[new]] + gb[j:]


def join_groups(gs):
    ops = []
    for i, g in enumerate(gs):
        if i:
            ops.append(())
        ops += g
    return ops


def spec_insert(ops, c):
    """operator list the call sequence describes (unchanged when the call must raise)"""
    want = spec_groups(ops, c)
    return ops if want is None else join_groups(want)


def insert_violation(before, c, after):
    """the property's own predicate for one insert_operator call (what C02_insert_operator states)"""
    want = spec_groups(before, c)
    if after is None:
        return None if want is None else "insert_operator raised although the anchor (symbol and arity) exists"
    if want is None:
        return "insert_operator returned although no row has the anchor's symbol and arity"
    if split_groups(after) != want:
        return ("insert_operator: groups after the call are not the old groups with the new operator %s"
                % ("in a new group right after the anchor's" if c[4] else "added to the anchor's group"))
    return None


# tables built in every run (besides the random ones): a prefix operator inside the right-associative
# group, a tighter right-associative group with its own prefix operator, suffix operators in a group
# of their own (tightest / loosest), an operator with alias, a symbol that is prefix and binary
FIXED = [
    ("default", [("->", True, "!", P, False, None)]),
    ("default+delegates", [(".", True, "**", R, True, "power"), ("**", True, "~", P, False, None),
                           ("-", False, "!", S, True, None)]),
    ("default", [(".", True, "**", R, True, "power"), ("**", True, "~", P, False, None)]),
    ("default", [("-", False, "!", S, True, None), ("!", False, "?", S, False, "maybe")]),
    ("default", [("->", True, "!!", S, True, None), ("or", True, "xor", L, False, None)]),
    ("legacy", [("=>", True, "|", R, True, None), ("|", True, "~", P, False, None), ("not", False, "!", P, False, "bang")]),
    ("default", [(None, False, "@", L, True, None), ("*", True, "!", L, False, None), ("not", False, "!", P, True, None)]),
    # a call that must raise ValueError (no binary `not`, no operator `nosuch`), then a valid one
    ("default", [("not", True, "@", L, False, None), ("nosuch", False, "@", L, True, None), ("and", True, "&", L, False, "amp")]),
    # a symbol whose binary row lies ABOVE its unary row, then anchors on each of its roles
    ("default", [("not", False, "*", P, False, None), ("*", False, "@", L, True, None), ("*", True, "%", L, False, None)]),
    ("default", [("and", True, "%", L, False, None), ("or", True, "%", P, False, None), ("%", False, "@", R, True, None),
                 ("%", True, "#", L, False, None)]),
    # a prefix symbol reused as a binary operator further down; anchors on both roles
    ("legacy", [("or", True, "not", L, False, "bin_not"), ("not", True, "@", L, True, None), ("not", False, "!", P, False, None)]),
    # arities the anchor symbol does not have: both calls must raise ValueError
    ("default", [("and", False, "@", L, True, None), ("not", True, "@", L, False, None), ("or", True, "@", L, True, None)]),
    # word-shaped operators with underscore / digit / upper case / non-ASCII letters in all four roles
    ("default", [("in", True, "not_in", L, False, None), ("not", False, "neg_", P, False, None),
                 ("-", False, "is_set9", S, True, None), ("->", True, "then_2", R, False, "then"),
                 ("and", True, "\u00fcnd", L, False, None), ("or", True, "\u0438\u043b\u0438", L, False, None)]),
    ("legacy", [("mod", True, "Div2", L, False, None), ("not", False, "isNull", P, True, None), ("=>", True, "x_9", R, True, None)]),
    # a table _build_operator_table must reject: second binary role for `+`
    ("default", [("or", True, "+", R, False, None)]),
]


# histories on ONE factory object: create() at the given positions (before call i), then the remaining calls,
# then the final create(); every engine must follow the table the factory held when it was created
FIXED_HISTORIES = [
    ("default", [("-", True, "--", L, False, None)], [0]),
    ("legacy", [("or", True, "xor", L, False, None), ("not", False, "!", P, False, None)], [0, 1]),
    ("default+delegates", [("->", True, "!", P, False, None), ("*", True, "**", R, True, None),
                           ("-", False, "is_set9", S, True, None)], [1, 2]),
]


def engines_for(run, n_random):
    engs = [Eng(k) for k in BASE_KINDS] + [Eng(k, c) for k, c in FIXED] + [Eng(k, c, cr) for k, c, cr in FIXED_HISTORIES]
    for e in engs:
        e.mixed = False
    for i in range(n_random):
        base = run.rng.choice(["default"] * 5 + ["legacy", "legacy", "default+delegates", "legacy+delegates", "nokw", "kw:="])
        mixed = run.rng.random() < 0.2
        calls = gen_calls(run.rng, spec_base(base), run.rng.randrange(1, 7), mixed)
        creates = [i for i in range(len(calls)) if run.rng.random() < 0.5] if run.rng.random() < 0.3 else []
        e = Eng(base, calls, creates)
        e.mixed = mixed
        engs.append(e)
    return engs


def with_views(engs):
    """the engines followed by every earlier engine of their factory histories (checked AFTER the whole history ran)"""
    return list(engs) + [v for e in engs for v in e.views]


def load_corpus():
    path = os.path.join(os.path.dirname(os.path.dirname(os.path.dirname(os.path.abspath(__file__)))), "corpus", "C02.json")
    if not os.path.exists(path):
        return []
    return json.load(open(path))


def texts_for(run, eng, idx):
    """(where, text) for one engine"""
    rng = run.rng
    view = eng.view_index is not None
    if view and eng.parent.built is not None and eng.built is not None:
        # texts written for the table the factory holds LATER (they use operators this engine does not know):
        # whatever they mean to this engine, they must mean the same through every route
        new_syms = set(eng.parent.built.operators) - set(eng.built.operators)
        foreign = [t for t in list(gen_focus(eng.parent, rng)) + list(gen_pairs(eng.parent, rng, 2, 1, sample=300))
                   if any(p in new_syms for p in t.parts)]
        for t in rng.sample(foreign, min(40, len(foreign))):
            yield "text of the factory's later table", str(t)
    for t in gen_focus(eng, rng):
        yield "focus", t
    if idx < 2 and not view:                        # default, legacy
        for t in gen_pairs(eng, rng, 2, 1):
            yield "pairs", t
        for t in gen_pairs(eng, rng, 2, 2, sample=run.n(800, 0)):
            yield "pairs+2prefix", t
        if not run.quick:
            for t in gen_pairs(eng, rng, 2, 2):
                yield "pairs+2prefix", t
            for t in gen_pairs(eng, rng, 3, 1):
                yield "triples+<=1prefix", t
            for t in gen_pairs(eng, rng, 3, 2, sample=60000):
                yield "triples+2prefix (sample)", t
        for t in gen_random(eng, rng, run.n(500, 10000)):
            yield "random", t
    elif not eng.calls and not view:                # the other factory kinds (delegates, keyword operator variants)
        for t in gen_pairs(eng, rng, 2, 1, sample=run.n(250, 7000)):
            yield "%s pairs" % eng.kind, t
        for t in gen_random(eng, rng, run.n(250, 8000)):
            yield "%s random" % eng.kind, t
    else:
        tag = "earlier engine of a factory history" if view else "custom"
        for t in gen_pairs(eng, rng, 2, 1, sample=run.n(30 if view else 60, 600)):
            yield tag + " pairs", t
        for t in gen_random(eng, rng, run.n(40 if view else 60, 1400)):
            yield tag + " random", t


_engs = None


def correspondence(run):
    global _engs
    engs = engines_for(run, run.n(12, 200))
    _engs = engs
    for e in engs:
        if e.create_error:
            run.fail("violation", "factory.create() fails although _build_operator_table accepts the operator list",
                     {"engine": e.spec(), "error": e.create_error, "ops": e.ops})
    check_tables(run, engs)
    corpus_engs = {}
    for c in load_corpus():
        key = json.dumps(c["engine"], sort_keys=True)
        if key not in corpus_engs:
            corpus_engs[key] = (eng_from_spec(c["engine"]), [], [])
        e, cases, meta = corpus_engs[key]
        if e.engine is not None:
            text = c["text"]
            if c.get("pieces"):
                text = Text(" ".join(c["pieces"]))
                text.parts = list(c["pieces"])
            check_text(run, e, text, cases, meta, "corpus")
    for e, cases, meta in corpus_engs.values():
        flush(run, e, cases, meta)
    for e in engs:
        for v in e.views:
            if v.create_error:
                run.fail("violation", "factory.create() fails although _build_operator_table accepts the operator list",
                         {"engine": v.spec(), "error": v.create_error, "ops": v.ops})
    for idx, e in enumerate(with_views(engs)):
        if e.engine is None:
            continue
        cases, meta = [], []
        for k, (where, text) in enumerate(texts_for(run, e, idx)):
            obs = check_text(run, e, text, cases, meta, where)
            if obs is not None and k % 997 == 0:
                run.sample({"engine": e.spec(), "text": text, "tree": obs})
        flush(run, e, cases, meta)
    flush_all(run)
    run.note("engines: %s; %d built by insert_operator sequences (%d of them with mixed groups)"
             % (", ".join(BASE_KINDS), len(engs) - len(BASE_KINDS), sum(1 for e in engs if getattr(e, "mixed", False))))
    run.note("%d engines were created part-way through a history on one factory object (create / insert_operator / "
             "create ...) and checked against the table of their creation time after the whole history had run"
             % sum(len(e.views) for e in engs))
    run.note("of these %d are fixed tables (prefix operator inside the right-associative group, tighter "
             "right-associative group, suffix groups, aliases, prefix+binary symbol)" % len(FIXED))


def oracle(run, deep):
    """brute-force unique-wf-tree oracle on the implementation (independent of the Coq model)"""
    engs = _engs or engines_for(run, run.n(12, 200))
    for idx, e in enumerate(engs[:len(BASE_KINDS)]):
        if canon_ops(e.factory.operators) != e.spec_ops:
            run.note("the %s factory's operator list differs from the pinned table; searching for a text that shows it" % e.kind)
            deep = True
    seen_fail = set()
    for idx, e in enumerate(with_views(engs)):
        if e.engine is None:
            continue
        rng = run.rng
        if idx < 2 and e.view_index is None:
            texts = list(gen_pairs(e, rng, 2, 1)) if deep else list(gen_pairs(e, rng, 2, 1, sample=run.n(1200, 4000)))
            texts += list(gen_pairs(e, rng, 3, 1, sample=run.n(300, 20000) * (3 if deep else 1)))
            texts += list(gen_random(e, rng, run.n(400, 6000) * (3 if deep else 1)))
        elif not e.calls and e.view_index is None:
            texts = list(gen_focus(e, rng)) + list(gen_pairs(e, rng, 2, 1, sample=run.n(150, 3000))) + list(gen_random(e, rng, run.n(150, 4000)))
        else:
            texts = list(gen_focus(e, rng)) + list(gen_pairs(e, rng, 2, 1, sample=run.n(40, 300))) + list(gen_random(e, rng, run.n(40, 400)))
        for text in texts:
            toks = e.lex(text)
            if toks is None or len(toks) > 40:
                continue
            try:
                obs = e.tree(text)
            except NameMismatch:
                continue
            run.count("oracle:%s" % ("tree" if obs[0] == "ok" else "grammar error"))
            v = oracle_one(e, text, toks, obs)
            if v and (v[0], idx) not in seen_fail:
                seen_fail.add((v[0], idx))
                run.fail("violation", v[0], shrink_text(e, v[1]))


def shrink_text(eng, data):
    """greedy token deletion keeping the oracle failing"""
    text = data["text"]
    toks_text = text.split()
    changed = True
    while changed and len(toks_text) > 1:
        changed = False
        for i in range(len(toks_text)):
            cand = " ".join(toks_text[:i] + toks_text[i + 1:])
            toks = eng.lex(cand)
            if not toks:
                continue
            try:
                v = oracle_one(eng, cand, toks, eng.tree(cand))
            except Exception:
                continue
            if v:
                toks_text = cand.split()
                data = v[1]
                changed = True
                break
    return data


def replay(run, data):
    d = data["data"]
    if "error" in d:
        e = eng_from_spec(d["engine"])
        return e.create_error is None and precedence_covers(e)
    if "route" in d:
        e = eng_from_spec(d["engine"])
        if e.engine is None:
            return False
        toks = e.lex(d["text"])
        main = route_observation(e, d["text"], "call")
        if toks is not None and main[0] != "exception" and oracle_one(e, d["text"], toks, main):
            return False
        return all(route_observation(e, d["text"], r) == main for r in ROUTES)
    if "pieces" in d:
        e = eng_from_spec(d["engine"])
        if e.engine is None:
            return False
        t = Text(d["text"])
        t.parts = d["pieces"]
        return lexer_violation(e, t, e.lex(t)) is None
    if "call" in d and "text" not in d:
        e = Eng(d["engine"]["kind"], [])
        before = [tuple(t) for t in d["before"]]
        e.factory.operators = [t for t in before]
        c = tuple(d["call"])
        try:
            e.factory.insert_operator(*c)
            after = canon_ops(e.factory.operators)
        except ValueError:
            after = None
        if insert_violation(before, c, after):
            return False
        return not run.coq_mismatches(HEADER, "ins_case", "ins_case_ok", [ins_case_term(before, c, after)])
    if "text" not in d:
        return False
    e = eng_from_spec(d["engine"])
    if e.engine is None:
        return False
    toks = e.lex(d["text"])
    if toks is None:
        return True
    try:
        obs = e.tree(d["text"])
    except NameMismatch:
        return False
    if oracle_one(e, d["text"], toks, obs):
        return False
    symdefs = {}
    term = case_term(symdefs, toks, obs)
    return not run.coq_mismatches(header_for(e.ops, symdefs), "case", ok_fn(e), [term])
