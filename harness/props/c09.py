"""C09 - evaluation has no side effects on host data, context or statement.

P: Props/C09.v - frame theorem for Statement.evaluate on any host context chain (reference
   interpreter) + finite obligation over Gen/Mutations.v (every in-place mutation found by the
   fail-closed AST scan of all registered payloads has a receiver built by that very call).
C: programs of the core fragment evaluated in a HOST context chain that already holds variables;
   the snapshot of every host context after the real evaluation is compared with the contexts the
   reference interpreter ends with (inside Coq).
O: the mutation sweep on the implementation: every registered function / method applied to mutable
   lists, dicts and sets in every position, yaql.convertInputData on and off; deep snapshot of the
   data, of every context of the host chain (keys, values, function sets), of every node of the
   statement before/after; then the RESULT is mutated in depth and the data compared again
   (aliasing); every statement is evaluated twice (reuse)."""
import copy
import signal

import eval_common as ec
import gal

GEN = ["mutations"]
RULE = ("C: generated fragment programs over host chains of 2-3 contexts holding x,y,l,$; O: every registered name x "
        "arity 1-3 x arguments drawn from a pool of mutable host values (list, nested list, dict, set, list of dicts) and "
        "lambdas, as function and as method, in both convertInputData modes; non-trivial = the call resolved and ran "
        "(no resolution error) with at least one mutable container argument; distinct = (expression, mode)")
TRUSTED = ["harness/gen_mutations.py: the AST scanner and its provenance classification (fail-closed: unknown = not ok); "
           "ENGINE_PRIVATE allow-list entries carry their reason in that file",
           "Model/Eval.v reference interpreter (tied by the C04/C09 correspondence)",
           "Model/Convert.v and Model/ConvertId.v (conversion model with object identities; C09_input_frozen, "
           "C09_result_not_aliased, C09_dollar_not_aliased) are tied to utils.convert_input_data / convert_output_data by the "
           "C10 correspondence (identity cases `icase`); here the aliasing clause is additionally observed by the sweep",
           "deep snapshot/compare routines of this module"]
ASSUMPTIONS = ["payload helper code outside the registered payload functions (e.g. methods of OrderingIterable) is covered by the "
               "sweep only, not by the scanner",
               "host objects other than list/dict/set/tuple/scalars (arbitrary classes) are out of scope of the sweep"]
EXPLANATION = ("frame theorem for evaluate on host context chains + machine-checked finite obligation over the regenerated "
               "table of in-place mutations + mutation/aliasing/reuse sweep over the whole registry")


class Timeout(Exception):
    pass


def _alarm(signum, frame):
    raise Timeout()


def timed(fn, seconds=2.0):
    old = signal.signal(signal.SIGALRM, _alarm)
    signal.setitimer(signal.ITIMER_REAL, seconds)
    try:
        return fn()
    finally:
        signal.setitimer(signal.ITIMER_REAL, 0)
        signal.signal(signal.SIGALRM, old)


def freeze(v):
    """Structural, type-tagged, order-aware fingerprint of host data."""
    if isinstance(v, dict):
        return ("dict", tuple((freeze(k), freeze(x)) for k, x in v.items()))
    if isinstance(v, list):
        return ("list", tuple(freeze(x) for x in v))
    if isinstance(v, tuple):
        return ("tuple", tuple(freeze(x) for x in v))
    if isinstance(v, (set, frozenset)):
        return (type(v).__name__, tuple(sorted((freeze(x) for x in v), key=repr)))
    if v is None or isinstance(v, (bool, int, float, str, bytes)):
        return (type(v).__name__, repr(v))
    if type(v).__name__ == "HostRecord":
        return ("HostRecord", freeze(vars(v)))
    return (type(v).__name__, "<object>")


class HostRecord(object):
    """a yaqlized host object inside the input document: its attributes are REAL lists / dicts that never pass through
    input conversion (only `$` is converted; attribute reads hand out what the host object holds)"""

    def __init__(self, **kw):
        self.__dict__.update(kw)


def scramble(v, depth=0):
    """Mutate a result in depth (to detect aliasing with host data)."""
    if depth > 6:
        return
    if isinstance(v, tuple):
        for x in v:
            scramble(x, depth + 1)
    elif isinstance(v, list):
        for x in v:
            scramble(x, depth + 1)
        v.append("SCRAMBLED")
        if len(v) > 1:
            v[0] = "SCRAMBLED0"
    elif isinstance(v, dict):
        for x in list(v.values()):
            scramble(x, depth + 1)
        v["SCRAMBLED"] = 1
        for k in list(v.keys())[:1]:
            v[k] = "SCRAMBLEDV"
    elif isinstance(v, set):
        v.add("SCRAMBLED")


def host_data():
    return {"l": [3, 1, 2], "ll": [[1, 2], [3], []], "d": {"a": 1, "b": [1, 2], "c": {"x": 1}}, "s": {1, 2, 3},
            "ld": [{"a": 1, "b": 2}, {"a": 3, "b": 4}], "n": 2, "t": "ab", "e": [], "k": "a",
            "odd": {"__src": 1, "2nd-unit": 2, "": 3, "-x": 4, "ok": 5},
            "obj": _record(),
            "tt": (("cpu", [10, 20, 30]), ("mem", {"k": [3]}), ((1, [2]),)), "tl": ([1, 2], (3, [4]))}


def _record():
    from yaql import yaqlization
    return yaqlization.yaqlize(HostRecord(items=[1, 2, 3], cfg={"a": [1], "b": 2}, tags={1, 2}))


ARGS = ["$.l", "$.ll", "$.d", "$.s", "$.ld", "$.n", "$.t", "$.e", "$.k", "1", "0", "'a'", "$", "$ + 1", "$.a", "[$, $]",
        "$1 + $2", "$ > 1", "$.l.select($ + 1)", "{z => 1}", "[9]", "true", "null"]


def engines():
    import yaql
    base = {"yaql.limitIterators": 300, "yaql.memoryQuota": 200000}
    on = yaql.YaqlFactory().create(dict(base))
    off = yaql.YaqlFactory().create(dict(base, **{"yaql.convertInputData": False}))
    # the less used output options: results may then legitimately contain tuples and sets - but never the host's own
    # containers
    off_tuples = yaql.YaqlFactory().create(dict(base, **{"yaql.convertInputData": False, "yaql.convertTuplesToLists": False}))
    off_setlists = yaql.YaqlFactory().create(dict(base, **{"yaql.convertInputData": False, "yaql.convertSetsToLists": True}))
    # input conversion ON but results handed back unconverted: what the result holds is what evaluation carried
    on_rawout = yaql.YaqlFactory().create(dict(base, **{"yaql.convertOutputData": False}))
    return {"on": on, "off": off, "off_tuples": off_tuples, "off_setlists": off_setlists, "on_rawout": on_rawout}


def ctx_snapshot(chain):
    snap = []
    for c in chain:
        keys = sorted(c.keys())
        data = tuple((k, freeze(c[k])) for k in keys if k.lstrip("$") != "1")
        funcs = tuple(sorted((name, tuple(sorted(id(f) for f in fs))) for name, fs in getattr(c, "_functions", {}).items()))
        excl = tuple(sorted(getattr(c, "_exclusive_funcs", ())))
        snap.append((data, funcs, excl, id(c.parent) if c.parent is not None else None))
    return snap


def stmt_snapshot(stmt):
    from yaql.language import expressions as E
    out = []

    def walk(n):
        if isinstance(n, E.Expression):
            d = {k: (id(v) if isinstance(v, (E.Expression, tuple, list)) else repr(v)) for k, v in sorted(vars(n).items())}
            out.append((type(n).__name__, tuple(d.items())))
            for v in vars(n).values():
                if isinstance(v, (tuple, list)):
                    for x in v:
                        walk(x)
                else:
                    walk(v)
    walk(stmt)
    return out


POOL = [("$.l", [3, 1, 2]), ("$.ll", [[1, 2], [3], []]), ("$.d", {"a": 1, "b": [1, 2], "c": {"x": 1}}), ("$.s", {1, 2, 3}),
        ("$.ld", [{"a": 1, "b": 2}, {"a": 3, "b": 4}]), ("$.odd", {"__src": 1, "2nd-unit": 2, "": 3, "-x": 4, "ok": 5}),
        ("$hd", {"q": [1], "__p": 2, "9z": 3}), ("$hv", [1, 2, 3]), ("$.obj.items", [1, 2, 3]), ("$.obj.cfg", {"a": [1], "b": 2}),
        ("$.obj.tags", {1, 2}), ("$.tt", (("cpu", [10, 20, 30]),)), ("$.tt[0][1]", [10, 20, 30]), ("$.tt[1][1]", {"k": [3]}),
        ("$.tl", ([1, 2],)), ("$.n", 2), ("$.t", "ab"), ("$.e", []), ("$.k", "a"), ("1", 1), ("0", 0),
        ("'a'", "a"), ("true", True), ("null", None), ("[9]", [9]), ("{z => 1}", {"z": 1}), ("-1", -1), ("[[7, 8]]", [[7, 8]])]
LAMBDAS = ["$", "$ + 1", "$.a", "[$, $]", "$1 + $2", "$ > 1", "$ = 1", "[$, $ + 1]"]
MUTABLE_ARGS = ("$.l", "$.ll", "$.d", "$.s", "$.ld", "$.e", "$.odd", "$hd", "$hv", "$.obj.items", "$.obj.cfg", "$.obj.tags", "$.tt", "$.tt[0][1]", "$.tt[1][1]", "$.tl")
SKIP = {"now", "random", "randomInt", "assert", "cycle", "repeat", "sequence", "generate", "generateMany", "range"}


def all_fds():
    import yaql
    out, seen = [], set()
    c = yaql.create_context()
    while c is not None:
        for name, fds in getattr(c, "_functions", {}).items():
            for fd in fds:
                if id(fd) not in seen:
                    seen.add(id(fd))
                    out.append((name, fd))
        c = c.parent
    return sorted(out, key=lambda t: (t[0], repr(sorted(t[1].parameters))))


def candidates(fd, eng, ctx):
    """Per visible positional parameter: the pool texts whose value the live type check accepts."""
    from yaql.language import utils, yaqltypes
    params = [p for k, p in fd.parameters.items() if p.position is not None and k != "*"
              and not isinstance(p.value_type, yaqltypes.HiddenParameterType)]
    params.sort(key=lambda p: p.position)
    out = []
    for p in params:
        if isinstance(p.value_type, yaqltypes.LazyParameterType):
            out.append((p, list(LAMBDAS)))
            continue
        ok = []
        for text, sample in POOL:
            try:
                if p.value_type.check(utils.convert_input_data(sample), ctx, eng):
                    ok.append(text)
            except Exception:
                pass
        out.append((p, ok))
    star = fd.parameters.get("*")
    return out, star


def call_text(run, name, fd, cands, star):
    from yaql.language import specs, yaqltypes
    args = []
    for p, ok in cands:
        if not ok:
            return None
        if p.default is not specs.NO_DEFAULT and run.rng.random() < 0.35:
            break
        args.append(run.rng.choice(ok))
    if star is not None and len(args) == len(cands):
        if isinstance(star.value_type, yaqltypes.LazyParameterType):
            extra = LAMBDAS
        else:
            extra = [t for t, _ in POOL]
        args += [run.rng.choice(extra) for _ in range(run.rng.choice([0, 1, 2]))]
    if name.startswith("#operator_"):
        if len(args) != 2:
            return None
        return "%s %s %s" % (args[0], name[len("#operator_"):], args[1]), args
    if name.startswith("#unary_operator_"):
        if len(args) != 1:
            return None
        return "%s %s" % (name[len("#unary_operator_"):], args[0]), args
    if name == "#indexer" and args:
        return "%s[%s]" % (args[0], ", ".join(args[1:])), args
    if not (name[0].isalpha() or name[0] == "_"):
        return None
    if fd.is_method and args and (not fd.is_function or run.rng.random() < 0.6):
        return "%s.%s(%s)" % (args[0], name, ", ".join(args[1:])), args
    if fd.is_function:
        return "%s(%s)" % (name, ", ".join(args)), args
    return None


def names_of_flagged_payloads():
    """yaql names of payloads for which the scanner reports a Param/Unknown receiver (P is then broken)."""
    try:
        import gen_mutations
        rows, _ = gen_mutations.scan()
        bad = {q for q, l, op, rn, c in rows if c in (2, 3)}
        if not bad:
            return set()
        out = set()
        for name, fd in gen_mutations.all_function_definitions():
            fn = getattr(fd.payload, "__wrapped__", fd.payload)
            q = "%s.%s" % (getattr(fn, "__module__", "?"), getattr(fn, "__qualname__", "?"))
            if q in bad:
                out.add(name)
        return out
    except Exception:
        return set()


def sweep(run, deep):
    import yaql
    engs = engines()
    root = yaql.create_context()
    parent = root.create_child_context()
    parent["hv"] = [1, 2, 3]
    parent["hd"] = {"q": [1], "__p": 2, "9z": 3}
    parent.register_function(lambda x: x, name="hostfn")
    host = parent.create_child_context()
    host["own"] = {"w": 1}
    chain = [host, parent]
    per_fd = run.n(5, 40)
    flagged = names_of_flagged_payloads() if deep else set()
    if flagged:
        run.note("search directed at payloads flagged by the scanner: %s" % sorted(flagged))
    ran = 0
    probe_eng, probe_ctx = engs["on"], yaql.create_context()
    for name, fd in all_fds():
        if name in SKIP:
            continue
        try:
            cands, star = candidates(fd, probe_eng, probe_ctx)
        except Exception:
            continue
        tried = set()
        for _ in range(per_fd * (40 if name in flagged else 1)):
            ct = call_text(run, name, fd, cands, star)
            if ct is None:
                break
            text, args = ct
            if text in tried:
                continue
            tried.add(text)
            for mode, eng in engs.items():
                try:
                    stmt = eng(text)
                except Exception:
                    break
                data = host_data()
                before = freeze(data)
                cb, sb = ctx_snapshot(chain), stmt_snapshot(stmt)
                kind = "ok"
                res = None
                try:
                    res = timed(lambda: stmt.evaluate(data=data, context=host))
                except Timeout:
                    kind = "timeout"
                except Exception as e:
                    kind = ec.err_kind(e)
                run.count("sweep:" + ("resolved" if kind != "KRes" else "unresolved"))
                if kind == "KRes":
                    continue
                ran += 1
                run.case((text, mode), nontrivial=any(a in MUTABLE_ARGS for a in args))
                what = None
                if freeze(data) != before:
                    what = "evaluation changed the host's input data in place"
                elif ctx_snapshot(chain) != cb:
                    what = "evaluation changed a context of the host's chain (other than $)"
                elif stmt_snapshot(stmt) != sb:
                    what = "evaluation wrote to a node of the parsed statement"
                else:
                    # with output conversion switched off by the host, values that never pass input conversion (context
                    # variables, attributes of yaqlized host objects) are handed back as they are - by request
                    unconverted_source = mode == "on_rawout" and any(a in ("$hv", "$hd") or a.startswith("$.obj") for a in args)
                    if kind == "ok" and not unconverted_source:
                        try:
                            scramble(res)
                        except Exception:
                            pass
                        if freeze(data) != before:
                            what = "the result aliases mutable host data (mutating the result changed the input)"
                    if what is None and kind == "ok" and mode == "on":
                        try:
                            r1 = timed(lambda: stmt.evaluate(data=host_data(), context=host))
                            r2 = timed(lambda: stmt.evaluate(data=host_data(), context=host))
                            if freeze(r1) != freeze(r2) and "object at 0x" not in repr(r1):
                                what = "evaluating the same statement twice with equal data gives different results"
                        except Exception:
                            pass
                if what:
                    run.fail("violation", what, {"expression": text, "convertInputData": mode == "on", "engine_mode": mode,
                                                 "data_before": repr(before)[:600], "data_after": repr(freeze(data))[:600]})
                    return
    run.note("mutation sweep: %d resolved calls" % ran)


def sequences(run):
    """Pools of statements evaluated in sequence on ONE shared parent vs fresh contexts."""
    import yaql
    eng = ec.engine()
    pool = ["$.l.select($ * 2)", "let(x => $.n) -> $x + 1", "def(f, $ + 1) -> f($.n)", "$.d.set(z, 1)", "$.l.orderBy($)",
            "$.d.keys().toList()", "$.ld.a", "$.l + [4]", "$.s.union([9])", "$.l.insert(1, 7)", "with(1, 2) -> $1 + $2",
            "$.l.where($ > 1).len()", "$.d.get(a)", "[1, 2].unpack(a, b) -> $a + $b", "$hv", "$own"]
    stmts = [eng(t) for t in pool]
    root = yaql.create_context()
    shared = root.create_child_context()
    shared["hv"] = [1, 2, 3]
    shared["own"] = {"w": 1}
    snap = ctx_snapshot([shared])
    for _ in range(run.n(60, 600)):
        i = run.rng.randrange(len(pool))
        fresh_parent = root.create_child_context()
        fresh_parent["hv"] = [1, 2, 3]
        fresh_parent["own"] = {"w": 1}
        try:
            want = freeze(stmts[i].evaluate(data=host_data(), context=fresh_parent.create_child_context()))
        except Exception as e:
            want = ("exc", type(e).__name__)
        try:
            got = freeze(stmts[i].evaluate(data=host_data(), context=shared.create_child_context()))
        except Exception as e:
            got = ("exc", type(e).__name__)
        run.case(("seq", i), nontrivial=True)
        run.count("sequence_eval")
        if got != want:
            run.fail("violation", "a statement evaluated on a shared, previously used parent context differs from a fresh one",
                     {"expression": pool[i], "observed": repr(got)[:400], "required": repr(want)[:400]})
            return
    if ctx_snapshot([shared]) != snap:
        run.fail("violation", "the shared parent context changed over a sequence of evaluations", {"pool": pool})


# --------------------------------------------------------------------------
# C: host chain snapshot vs the reference interpreter's heap
# --------------------------------------------------------------------------
HEADER = ec.HEADER + "\nFrom YV Require Import Common.Corr.\nFrom Coq Require Import List. Import ListNotations.\n" + """
Definition c09_obs (s : st) (n : nat) : list (list (str * val)) := map cdata (firstn n (heap s)).
Fixpoint data_same (a b : list (str * val)) : bool :=
  match a, b with
  | [], [] => true
  | (k, v) :: a', (k', w) :: b' => Common.Corr.str_eqb k k' && val_same v w && data_same a' b'
  | _, _ => false
  end.
Record c09i_case := { i_host : list ctxrec; i_ctx : nat; i_pos : list val; i_kw : list (str * val); i_expr : expr;
                      i_after : list (list (str * val)); i_res : res val }.
Definition c09i_ok (k : c09i_case) : bool :=
  match iface_call 400 (i_host k) (i_ctx k) (i_pos k) (i_kw k) (i_expr k) with
  | (_, Unsup) | (_, Fuel) => true
  | (s, r) => Common.Corr.list_eqb data_same (c09_obs s (length (i_host k))) (i_after k)
              && match r, i_res k with
                 | Ok v, Ok w => val_same v w
                 | Err a, Err b => ekind_eqb a b
                 | _, _ => false
                 end
  end.
Record c09_case := { h_host : list ctxrec; h_ctx : nat; h_data : val; h_expr : expr; h_after : list (list (str * val)) }.
Definition c09_ok (k : c09_case) : bool :=
  match evaluate 400 (h_host k) (h_ctx k) (Some (h_data k)) (h_expr k) with
  | (_, Unsup) | (_, Fuel) => true
  | (s, _) => Common.Corr.list_eqb data_same (c09_obs s (length (h_host k))) (h_after k)
  end.
"""


def correspondence(run):
    import yaql
    g = ec.Gen(run.rng, tick_p=0.0, hist={})
    cases, meta = [], []
    for _ in range(run.n(500, 8000)):
        # host chain: root(index 0) <- parent(1) <- host(2); model contexts mirror them
        x, y = run.rng.randrange(0, 9), run.rng.randrange(0, 9)
        lst = [run.rng.randrange(0, 9) for _ in range(run.rng.randrange(0, 4))]
        kind = run.rng.choice(["int", "list", "dict", "none"])
        data = ec.gen_data(run.rng, kind)
        env = {"x": "int", "y": "int", "l": "list"}
        if kind != "none":
            env["$"] = kind
            if kind == "int":
                env["1"] = "int"
        g.next_tick = 0
        text = g.int_(env, run.rng.choice([2, 3, 4])) if run.rng.random() < 0.6 else g.list_(env, 3)
        root = ec.make_context([])
        parent = root.create_child_context()
        parent["x"] = x
        parent["l"] = tuple(lst)
        host = parent.create_child_context()
        host["y"] = y
        if run.rng.random() < 0.3:
            host["x"] = x + 10
        host_x = "$x" in host
        try:
            stmt = ec.engine()(text)
            model_expr = ec.tr(stmt)
        except Exception:
            run.cov["skipped"] += 1
            continue
        try:
            stmt.evaluate(data=data, context=host)
        except Exception:
            pass

        def snap(c):
            out = []
            for k in c.keys():          # insertion order of the context's own layer
                out.append((k.lstrip("$"), c[k]))
            return out
        try:
            after = [snap(parent), snap(host)]
            rec = lambda par, d: "{| cparent := %s; cdata := %s; cfuncs := [] |}" % (
                "None" if par is None else "(Some %d%%nat)" % par,
                gal.lst("(%s, %s)" % (gal.s(k), ec.val_term(v)) for k, v in d))
            host_model = [rec(None, [("x", x), ("l", tuple(lst))]),
                          rec(0, [("y", y)] + ([("x", x + 10)] if host_x else []))]
            term = "{| h_host := %s; h_ctx := 1%%nat; h_data := %s; h_expr := %s; h_after := %s |}" % (
                gal.lst(host_model), ec.val_term(data), model_expr,
                gal.lst(gal.lst("(%s, %s)" % (gal.s(k), ec.val_term(v)) for k, v in layer) for layer in after))
        except ec.Unsupported:
            run.cov["skipped"] += 1
            continue
        cases.append(term)
        meta.append((text, data, after))
        run.case(("host", text, repr(data)), nontrivial=("let(" in text or "def(" in text or "select(" in text))
        run.count("host_chain_case")
        if len(meta) % 97 == 0:
            run.sample({"program": text, "data": data, "host_contexts_after": repr(after)})
    bad = run.coq_mismatches(HEADER, "c09_case", "c09_ok", cases, shard=250)
    for i in bad[:3]:
        text, data, after = meta[i]
        run.fail("violation", "after evaluation the host's context chain is not what the frame theorem prescribes "
                              "(only `$` of the supplied context may change)",
                 {"program": text, "data": data, "host_contexts_after": repr(after), "theorem": "C09_context_frame"})
    interface_correspondence(run)


def interface_correspondence(run):
    """YaqlInterface(host_context, engine)(expression, *args, **kwargs) vs Model.Eval.iface_call: result and the host's
    context chain afterwards (theorem C09_interface_call_frame: the chain is untouched)."""
    from yaql import yaql_interface
    g = ec.Gen(run.rng, tick_p=0.0, hist={})
    cases, meta = [], []
    for _ in range(run.n(250, 4000)):
        x, y = run.rng.randrange(0, 9), run.rng.randrange(0, 9)
        lst = [run.rng.randrange(0, 9) for _ in range(run.rng.randrange(0, 4))]
        npos = run.rng.randrange(0, 3)
        pos = [run.rng.randrange(0, 9) for _ in range(npos)]
        kw = {k: run.rng.randrange(0, 9) for k in run.rng.sample(["k", "m", "x"], run.rng.randrange(0, 3))}
        env = {"x": "int", "y": "int", "l": "list"}
        for i in range(npos):
            env[str(i + 1)] = "int"
        if npos:
            env["$"] = "int"
        for k in kw:
            env[k] = "int"
        g.next_tick = 0
        text = g.int_(env, run.rng.choice([2, 3, 4])) if run.rng.random() < 0.6 else g.list_(env, 3)
        root = ec.make_context([])
        parent = root.create_child_context()
        parent["x"] = x
        parent["l"] = tuple(lst)
        host = parent.create_child_context()
        host["y"] = y
        try:
            stmt = ec.engine()(text)
            model_expr = ec.tr(stmt)
        except Exception:
            run.cov["skipped"] += 1
            continue
        try:
            r = ("ok", yaql_interface.YaqlInterface(host, ec.engine())(text, *pos, **kw))
        except Exception as e:
            r = ("err", ec.err_kind(e))
        snap = lambda c: [(k.lstrip("$"), c[k]) for k in c.keys()]
        try:
            after = [snap(parent), snap(host)]
            rec = lambda par, d: "{| cparent := %s; cdata := %s; cfuncs := [] |}" % (
                "None" if par is None else "(Some %d%%nat)" % par,
                gal.lst("(%s, %s)" % (gal.s(k), ec.val_term(v)) for k, v in d))
            term = "{| i_host := %s; i_ctx := 1%%nat; i_pos := %s; i_kw := %s; i_expr := %s; i_after := %s; i_res := %s |}" % (
                gal.lst([rec(None, [("x", x), ("l", tuple(lst))]), rec(0, [("y", y)])]),
                gal.lst(ec.val_term(v) for v in pos), gal.lst("(%s, %s)" % (gal.s(k), ec.val_term(v)) for k, v in kw.items()),
                model_expr, gal.lst(gal.lst("(%s, %s)" % (gal.s(k), ec.val_term(v)) for k, v in layer) for layer in after),
                ec.res_term(r))
        except ec.Unsupported:
            run.cov["skipped"] += 1
            continue
        cases.append(term)
        meta.append((text, pos, kw, after, r))
        run.case(("iface", text, tuple(pos), tuple(sorted(kw.items()))), nontrivial=bool(pos or kw))
        run.count("interface_call_case")
    bad = run.coq_mismatches(HEADER, "c09i_case", "c09i_ok", cases, shard=250)
    for i in bad[:3]:
        text, pos, kw, after, r = meta[i]
        run.fail("violation", "a call through a host-built YaqlInterface: the result or the host's context chain afterwards is not "
                              "what the reference model prescribes (the chain must be untouched)",
                 {"program": text, "positional": pos, "keyword": kw, "host_contexts_after": repr(after), "observed": repr(r),
                  "theorem": "C09_interface_call_frame"})


def handmade(run):
    """A host chain built by hand (no `#finalize`, no `#iter` anywhere): the very FIRST evaluation against it must
    leave variables, function tables and exclusivity of every level as they were."""
    from yaql.language import contexts, conventions
    from yaql.standard_library import (boolean as std_boolean, collections as std_collections, common as std_common,
                                       math as std_math, queries as std_queries, strings as std_strings,
                                       system as std_system)
    texts = ["1 + 2", "$.l.select($ * 2)", "$.d.keys()", "let(x => 1) -> $x", "def(f, $ + 1) -> f(1)", "[1, 2].len()",
             "$.t + 'x'", "$.l.where($ > 1).toList()", "$.s", "{a => [1]}"]
    for text in texts:
        for with_parent in (False, True):
            base = contexts.Context(convention=conventions.CamelCaseConvention())
            std_system.register_fallbacks(base)
            ctx = base.create_child_context() if with_parent else base
            std_system.register(ctx, False)
            for m in (std_common, std_boolean, std_strings, std_math):
                m.register(ctx)
            std_collections.register(ctx, False)
            std_queries.register(ctx, True)
            ctx["hv"] = [1, 2]
            chain = [ctx] + ([base] if with_parent else [])
            before = ctx_snapshot(chain)
            data = host_data()
            frozen = freeze(data)
            try:
                ec.engine()(text).evaluate(data=data, context=ctx)
            except Exception:
                pass
            run.case(("handmade", text, with_parent), nontrivial=True)
            run.count("handmade_chain")
            if ctx_snapshot(chain) != before or freeze(data) != frozen:
                run.fail("violation", "the first evaluation against a hand-built context chain changed the host's chain "
                                      "(variables / function table / exclusivity) or its data",
                         {"expression": text, "chain_has_parent": with_parent, "before": repr(before)[:700],
                          "after": repr(ctx_snapshot(chain))[:700]})
                return


def same_document_histories(run):
    """ONE engine, ONE context, ONE document object: evaluations interleaved with in-place edits by the host (and documents
    holding one-shot / non-sequence iterables); each evaluation must equal a fresh engine + context on a deep copy."""
    import yaql
    texts = ["$.tasks.len()", "$.tasks.select($.name).toList()", "$.tags.orderBy($)", "$.tags.len()", "$.limit", "$",
             "$.tasks.where($.done).len()", "$.names.toList()", "$.view.toList().len()"]
    for mode_opts in ({}, {"yaql.convertInputData": False}):
        eng = yaql.YaqlFactory().create(dict(mode_opts))
        ctx = yaql.create_context()

        def make():
            d = {"x": 1, "y": 2}
            return {"tasks": [{"name": "a", "done": True}, {"name": "b", "done": False}], "tags": frozenset(["q", "p"]),
                    "limit": 3, "names": ("n1", "n2"), "view": d.keys()}
        doc = make()
        edits = [lambda d: d["tasks"].append({"name": "c", "done": True}), lambda d: d.__setitem__("limit", 4),
                 lambda d: None, lambda d: d["tasks"][0].__setitem__("done", False), lambda d: None]
        shadow = make()          # an equal document edited the same way, rebuilt fresh for the reference
        applied = []
        for step in range(len(edits) + 1):
            for text in texts:
                ref_doc = make()
                for e in applied:
                    e(ref_doc)
                try:
                    got = freeze(eng(text).evaluate(data=doc, context=ctx.create_child_context()))
                except Exception as ex:
                    got = ("exc", type(ex).__name__)
                try:
                    want = freeze(yaql.YaqlFactory().create(dict(mode_opts))(text).evaluate(data=ref_doc, context=yaql.create_context()))
                except Exception as ex:
                    want = ("exc", type(ex).__name__)
                run.case(("samedoc", text, step, bool(mode_opts)), nontrivial=step > 0)
                run.count("same_document_eval")
                if got != want:
                    run.fail("violation", "evaluating on the same engine/document object again (after the host edited it in place, or "
                                          "with iterables inside) differs from a fresh engine on an equal document",
                             {"expression": text, "options": mode_opts, "edits_applied": step, "observed": repr(got)[:400],
                              "required": repr(want)[:400]})
                    return
            if step < len(edits):
                edits[step](doc)
                applied.append(edits[step])


def hidden_parameter_writers(run):
    """Host functions that WRITE through each kind of injected parameter (context, __context__, yaql_interface):
    whatever they bind lives in the per-call child context - it is gone after the call, never visible to a sibling
    expression or a later statement, and the host's chain is unchanged."""
    import yaql
    from yaql.language import specs, yaqltypes

    def set_ctx(context, name, value):
        context[name] = value
        return value

    @specs.inject("__context__", yaqltypes.Context())
    def set_dctx(__context__, name, value):
        __context__[name] = value
        return value

    def set_iface(yaql_interface, name, value):
        yaql_interface[name] = value
        return value

    @specs.parameter("body", yaqltypes.Lambda())
    def set_and_run(context, name, value, body):
        context[name] = value
        return body()
    for mode_opts in ({}, {"yaql.convertInputData": False}):
        eng = yaql.YaqlFactory(allow_delegates=True).create(dict(mode_opts))
        parent = yaql.create_context(delegates=True).create_child_context()
        for f, nm in ((set_ctx, "setCtx"), (set_dctx, "setDctx"), (set_iface, "setIface"), (set_and_run, "setAndRun")):
            parent.register_function(f, name=nm)
        parent["pv"] = 1
        host = parent.create_child_context()
        host["hv"] = [1]
        chain = [host, parent]
        before = ctx_snapshot(chain)
        for w in ("setCtx", "setDctx", "setIface"):
            cases = [("%s(v, 3)" % w, 3), ("[%s(v, 3), $v]" % w, [3, None]), ("[%s(pv, 9), $pv]" % w, [9, 1]),
                     ("%s(v, 3) + %s(w, 4)" % (w, w), 7), ("[1, 2].select(%s(v, $)).toList() + [$v]" % w, [1, 2, None]),
                     ("let(x => 1) -> [%s(x, 5), $x]" % w, [5, 1]), ("%s(hv, [7]).len() + $hv.len()" % w, 2)]
            for text, want in cases + [("setAndRun(v, 3, $v)", None)]:
                try:
                    got = eng(text).evaluate(data=host_data(), context=host)
                except Exception as e:
                    got = ("exc", type(e).__name__)
                run.case(("hiddenwriter", text, bool(mode_opts)), nontrivial=True)
                run.count("hidden_parameter_writer")
                after = ctx_snapshot(chain)
                if after != before or (want is not None and got != want) or ("$v" in host or "$v" in parent):
                    run.fail("violation", "a value bound by a function through an injected context / yaql_interface parameter outlives the call "
                                          "(leaks into the caller's scope or into the host's context chain)",
                             {"expression": text, "options": mode_opts, "observed": repr(got)[:300], "required": repr(want),
                              "host_chain_changed": after != before})
                    return
        # later statements on the same host chain see nothing of it
        for text in ("$v", "$w", "[$v, $pv]"):
            got = eng(text).evaluate(data=None, context=host)
            if got not in (None, [None, 1]):
                run.fail("violation", "a later statement sees a variable bound inside an earlier evaluation", {"expression": text, "observed": repr(got)})
                return


def no_context_histories(run):
    """Statement.evaluate(data) WITHOUT a context behaves as with a brand-new standard context every time: nothing of an
    earlier evaluation (its `$`, the host's later edits of that data) is visible to a later one, whichever statement,
    engine or order."""
    import yaql
    rng = run.rng
    engs = [yaql.YaqlFactory().create(), yaql.YaqlFactory().create({"yaql.convertInputData": False}),
            yaql.YaqlFactory(allow_delegates=True).create()]
    texts = ["$", "[$, $1]", "$.l", "$x", "let(x => $) -> $x", "[1, 2].select($ + 1).toList()", "$ = null", "$.len()",
             "coalesce($, 7)", "$.l.len() + 1"]
    docs = [None, 5, "s", [1, 2], {"l": [1, 2, 3]}, {"l": []}]
    NO = object()
    for _ in range(run.n(60, 600)):
        stmts = {}
        for step in range(rng.randrange(2, 7)):
            eng = rng.choice(engs)
            text = rng.choice(texts)
            stmt = stmts.setdefault((id(eng), text), eng(text)) if rng.random() < 0.6 else eng(text)
            doc = rng.choice(docs + [NO, NO, NO])
            kw = {} if doc is NO else {"data": doc}
            try:
                got = ("ok", freeze(stmt.evaluate(**kw)))
            except Exception as e:
                got = ("err", type(e).__name__)
            try:
                want = ("ok", freeze(eng(text).evaluate(context=yaql.create_context(), **kw)))
            except Exception as e:
                want = ("err", type(e).__name__)
            run.case(("noctx", text, repr(doc) if doc is not NO else "<none>", step), nontrivial=step > 0 and doc is NO)
            run.count("no_context_step")
            if got != want:
                run.fail("violation", "evaluate() without a context sees state of an earlier evaluation (it does not behave as "
                                      "with a fresh standard context)",
                         {"expression": text, "data_given": doc is not NO, "step": step, "observed": repr(got)[:300],
                          "required": repr(want)[:300]})
                return
            if doc is not NO and isinstance(doc, (list, dict)) and rng.random() < 0.5:
                # the host edits the document it passed; nothing may track it
                (doc.append(99) if isinstance(doc, list) else doc.__setitem__("edited", 1))
        for d in docs:          # restore the shared documents
            if isinstance(d, list):
                while 99 in d:
                    d.remove(99)
            elif isinstance(d, dict):
                d.pop("edited", None)


def host_interface_calls(run):
    """A YaqlInterface the HOST builds on its own context (the documented embedding API): expressions evaluated through
    it with positional and keyword parameters bind those parameters for that call only - the host's context chain is
    the same before and after, and a later statement sees nothing of them."""
    import yaql
    from yaql import yaql_interface
    for opts in ({}, {"yaql.convertInputData": False}):
        eng = yaql.YaqlFactory().create(dict(opts))
        parent = yaql.create_context().create_child_context()
        parent["limit"] = 10
        host = parent.create_child_context()
        host["own"] = [1]
        chain = [host, parent]
        before = ctx_snapshot(chain)
        yi = yaql_interface.YaqlInterface(host, eng)
        calls = [(lambda: yi("$1 + $2", 1, 2), 3), (lambda: yi("$limit", limit=2), 2), (lambda: yi("[$a, $limit]", a=5, limit=7), [5, 7]),
                 (lambda: yi("$1 + $threshold", 1, threshold=4), 5), (lambda: yi("$limit"), 10), (lambda: yi("$threshold"), None),
                 (lambda: yi.on([3, 1]).len(), 2), (lambda: yi.len([1, 2, 3]), 3), (lambda: yi("[1, 5, 20].where($ > $limit)"), [20]),
                 (lambda: yi("let(limit => 1) -> $limit", limit=3), 1), (lambda: yi("$own"), [1])]
        for i, (fn, want) in enumerate(calls):
            try:
                got = fn()
            except Exception as e:
                got = ("exc", type(e).__name__)
            run.case(("hostiface", i, bool(opts)), nontrivial=True)
            run.count("host_interface_call")
            after = ctx_snapshot(chain)
            if got != want or after != before:
                run.fail("violation", "a call through a host-built YaqlInterface changes the host's context chain (its parameters "
                                      "outlive the call) or returns another value than the expression alone",
                         {"expression": "YaqlInterface call #%d" % i, "options": opts, "observed": repr(got)[:300], "required": repr(want),
                          "host_chain_changed": after != before})
                return


def exotic_mappings(run):
    """Host mappings with side effects on a MISSING key (collections.defaultdict, a dict subclass with __missing__,
    ChainMap) that reach yaql unconverted (input conversion off, a context variable, a yaqlized attribute): read-only
    expressions - the indexer with a default, get, in, containsKey, keys, len ... - leave them as they are."""
    import collections
    import yaql
    from yaql import yaqlization

    class Missing(dict):
        def __missing__(self, key):
            self[key] = ["made"]
            return self[key]
    def fresh():
        return {"dd": collections.defaultdict(list, {"a": [1]}), "ms": Missing(a=1), "cm": collections.ChainMap({"a": 1}, {"b": 2}),
                "od": collections.OrderedDict(a=1), "rec": yaqlization.yaqlize(HostRecord(m=collections.defaultdict(int, {"a": 1})))}
    def fp(d):
        return repr({k: (sorted(map(repr, v.items())) if hasattr(v, "items") else sorted(map(repr, vars(v)["m"].items()))) for k, v in d.items()})
    texts = ["$.%s[zz, 0]", "$.%s.get(zz)", "$.%s.get(zz, 5)", "zz in $.%s.keys()", "$.%s.containsKey(zz)", "$.%s.len()", "$.%s.keys().toList().len()",
             "$.%s.values().toList().len()", "$.%s.items().toList().len()", "$.%s[a, 0]", "coalesce($.%s.get(zz), 1)", "$.%s.containsValue(77)"]
    for opts in ({"yaql.convertInputData": False}, {"yaql.convertInputData": False, "yaql.convertOutputData": False}):
        eng = yaql.YaqlFactory().create(dict(opts))
        for name in ("dd", "ms", "cm", "od", "rec.m"):
            for tpl in texts:
                text = tpl % name
                doc = fresh()
                ctx = yaql.create_context()
                ctx["v"] = doc[name.split(".")[0]]
                before = fp(doc)
                for t, kw in ((text, {"data": doc}), (text.replace("$.%s" % name, "$v" + (".m" if name == "rec.m" else "")), {"data": None})):
                    try:
                        eng(t).evaluate(context=ctx, **kw)
                    except Exception:
                        pass
                    run.case(("exoticmap", t, bool(kw["data"])), nontrivial=True)
                    run.count("exotic_mapping_read")
                    if fp(doc) != before:
                        run.fail("violation", "a read-only expression changed a host mapping (a look-up of a missing key was made with the "
                                              "mapping's own side-effecting subscript)",
                                 {"expression": t, "options": opts, "mapping": name, "data_before": before[:400], "data_after": fp(doc)[:400]})
                        return


def ancestor_updates(run):
    """The host's chain base <- tenant <- request: between two evaluations through `request` the host rebinds a variable in
    `base` (or binds `$` there by evaluating on it); the second evaluation sees the new value - exactly as a twin chain
    that was never evaluated on does."""
    import yaql
    eng = ec.engine()

    def chain():
        base = yaql.create_context().create_child_context()
        base["threshold"] = 2
        base["limits"] = {"cpu": 4}
        tenant = base.create_child_context()
        tenant["t"] = 1
        request = tenant.create_child_context()
        return base, tenant, request
    texts = ["$threshold", "[1, 2, 3, 4].where($ > $threshold).toList()", "$limits.cpu - $.len()", "[$threshold, $t, $limits]", "$", "$.len() + $threshold"]
    for text in texts:
        used = chain()
        stmt = eng(text)
        data = [1, 2, 3]
        updates = []
        for step, (nm, val) in enumerate([(None, None), ("threshold", 3), ("limits", {"cpu": 9}), ("threshold", None), ("$", [7])]):
            updates.append((nm, val))
            twin = chain()              # an identical chain nothing was ever evaluated on, brought to the same state by the host
            for b, todo in ((used[0], [(nm, val)]), (twin[0], updates)):
                for n2, v2 in todo:
                    if n2 == "$":
                        b["$"] = v2
                    elif n2:
                        b[n2] = v2
            outs = []
            for which, (b, t, r) in (("used", used), ("twin", twin)):
                for via in (r, t):
                    try:
                        outs.append((which, repr(stmt.evaluate(data=data, context=via.create_child_context()) if which == "used" or step == 4
                                                 else eng(text).evaluate(data=data, context=via.create_child_context()))))
                    except Exception as e:
                        outs.append((which, "exc:" + type(e).__name__))
                try:
                    outs.append((which + "-nodata", repr(eng(text).evaluate(context=t.create_child_context()))))
                except Exception as e:
                    outs.append((which + "-nodata", "exc:" + type(e).__name__))
            used_o = [o for w, o in outs if w.startswith("used")]
            twin_o = [o for w, o in outs if w.startswith("twin")]
            run.case(("ancestor", text, step), nontrivial=step > 0)
            run.count("ancestor_update_step")
            if used_o != twin_o:
                run.fail("violation", "after the host changed a variable in an ancestor context, an evaluation through a context that was "
                                      "evaluated on before does not see the change (differs from an identical chain never used)",
                         {"expression": text, "step": step, "changed": nm, "observed": repr(used_o)[:400], "required": repr(twin_o)[:400]})
                return


def oracle(run, deep):
    exotic_mappings(run)
    ancestor_updates(run)
    host_interface_calls(run)
    no_context_histories(run)
    hidden_parameter_writers(run)
    sweep(run, deep)
    sequences(run)
    handmade(run)
    same_document_histories(run)


def replay(run, data):
    d = data.get("data", {})
    if "expression" in d and "convertInputData" in d:
        eng = engines()["on" if d["convertInputData"] else "off"]
        import yaql
        host = yaql.create_context().create_child_context()
        hd = host_data()
        before = freeze(hd)
        try:
            res = eng(d["expression"]).evaluate(data=hd, context=host)
            scramble(res)
        except Exception:
            pass
        return freeze(hd) == before
    return True
