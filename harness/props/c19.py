"""C19 - string and regex functions agree with their reference model.

C: the real functions are called through evaluate() (arguments passed as data, so no
quoting is involved) on index grids and random cases; the finalised result is compared,
inside Coq, with Model/Strings.v and Model/Regex.v.  For the regex functions CPython's
`re` is an oracle: the harness hands the match records `re` computed to the model, which
computes what _publish_match exposes to the selector lambda.
O: the property's laws evaluated on the implementation alone (split/join inverse,
isEmpty vs norm, ...) and an independent brute-force Python twin of every documented
meaning (it never calls str.find/split/strip/replace or slices with computed bounds)."""
import itertools
import json
import os
import re
import string as string_module
import sys

import c19_regex
import gal
import yaql
from yaql.language import exceptions as yexc
from yaql.language import specs

GEN = ["casemap"]
RULE = ("strings over {a,b,c,' '} (length <= 7) plus Unicode samples (astral, combining, non-ASCII white space, "
        "lone surrogate); for substring/indexOf/lastIndexOf every start in [-len, len+2] and length in "
        "[-2, len+2] of each grid string; random cases for split/rightSplit/join/trim*/norm/isEmpty/replace/"
        "replace(dict)/startsWith/endsWith/toCharArray/len/in/*/characters; regex: generated patterns with "
        "numbered, named, nested and optional groups x subject strings x selectors reading $0.., $name, eager "
        "([..] lists) and LAZY (select/where over a constant list reading $k.value/start/end, k >= 2 or a name) x "
        "consumers of the searchAll result (plain, toList, reverse, toList().take(1), toList().skip(1)); "
        "the string calls again on engines with yaql.memoryQuota (600, 1000, 5000, 20000) / yaql.limitIterators (50, 1000): "
        "repetition counts and text lengths sweeping getsizeof(result) = quota from both sides, calls that fit must give "
        "the model's value; kinds of the collection results (raw type under convertOutputData=false, finalised type under "
        "the 4 output-option combinations and the legacy engine) and their use as values (=, indexOf, in, distinct, toSet, "
        "dict key, groupBy); every registry function with an injected Delegate (join in both spellings, with eager and lazy "
        "sequences, replace(dict), str) also in a child context whose host overrides str(); every string call also with its "
        "string operands delivered as instances of str subclasses (method-overriding, Markup-like escaping, __str__-overriding) "
        "as $ data with conversion on/off, as context variable and as host function result - value of the plain text, exact "
        "type plain str; non-trivial = not the empty string and (for index functions) a negative or past-the-end argument or "
        "a hit, (for regex) at least one match with at least one group; distinct = distinct call")
TRUSTED = ["Model/Strings.v transcribes CPython's str.find/rfind/slice/split/rsplit/strip/replace/join semantics and "
           "the yaql wrappers of strings.py; tied by this correspondence",
           "Model/RegexEngine.v models CPython's sre matcher for the pattern language of harness/c19_regex.py (literals, ., "
           "classes, ^ $, | , groups, greedy/lazy ? * + {m,n}, 3 flags on ASCII); tied to re by the engine-vs-re "
           "correspondence (finditer match records on every modelled pattern x flags x subject of the run); patterns "
           "outside that language, non-ASCII subjects and cases whose fuel runs out use re as an oracle (counted in the evidence)",
           "harness/c19_regex.py (pattern parser / Gallina printer)",
           "Gen/CaseMap.v: simple case mapping of the BMP regenerated from the running interpreter; full (multi-character) and "
           "context-sensitive mappings are outside the model",
           "str.isspace code points are pinned in Model/Strings.v (is_space) and swept against the running "
           "interpreter over all code points on every run",
           "the brute-force Python twin in harness/props/c19.py (used to classify a disagreement and as oracle)"]
ASSUMPTIONS = ["under yaql.memoryQuota only 'a call whose data document, arguments, result and result elements all fit is "
               "answered with the model value' is claimed (the refusal rule of repetition is C08's)",
               "regex group names are identifiers (do not start with a digit), so `$<n>` and `$<name>` never collide",
               "no memory quota is configured on the engine (string repetition)",
               "replacement dictionaries have keys that are distinct under Python equality"]
EXPLANATION = ("proofs of the documented meaning on the Gallina model of the string/regex wrappers and of a backtracking "
               "regex matcher + value correspondence of the models with strings.py/regex.py/re on index grids and a generated regex family")
LEVEL_NOTE = ("the regex engine is modelled for the generated pattern language (oracle outside it); case mapping is the "
              "regenerated simple table; everything yaql adds on top is modelled")
ALLOWED_AXIOMS = []

HEADER = "From YV Require Import Model.Strings Model.Regex Model.RegexEngine Model.CaseMap."
HERE = os.path.dirname(os.path.dirname(os.path.dirname(os.path.abspath(__file__))))

_engine = None
_ctx = None
_parsed = {}


def ev(expr, data):
    global _engine, _ctx
    if _engine is None:
        _engine = yaql.YaqlFactory().create()
        _ctx = yaql.create_context()
    p = _parsed.get(expr)
    if p is None:
        p = _parsed[expr] = _engine(expr)
    return p.evaluate(data=data, context=_ctx)


# ---- engines with other options -----------------------------------------------------------------
_cfg_engines = {}


def ev_on(cfg, expr, data):
    """Evaluate on an engine built with the given options.  cfg: "legacy" or a tuple of (option, value) pairs."""
    ent = _cfg_engines.get(cfg)
    if ent is None:
        if cfg == "legacy":
            from yaql import legacy
            ent = (legacy.YaqlFactory().create(), legacy.create_context(), {})
        else:
            ent = (yaql.YaqlFactory().create(options=dict(cfg)), yaql.create_context(), {})
        _cfg_engines[cfg] = ent
    eng, ctx, parsed = ent
    pe = parsed.get(expr)
    if pe is None:
        pe = parsed[expr] = eng(expr)
    return pe.evaluate(data=data, context=ctx)


def run_call_on(cfg, call):
    try:
        e, d = expr_of(call)
        return canon(call[0], ev_on(cfg, e, d))
    except ValueError:
        return ("err", 1)
    except Exception as e:
        return ("foreign", type(e).__name__)


class Unspec:
    def __repr__(self):
        return "UNSPEC"


UNSPEC = Unspec()

# ---------------------------------------------------------------------------------
# string calls: (fn, args...)  ->  expression + data
# ---------------------------------------------------------------------------------
FLAG_NAMES = ["digits", "hexdigits", "asciiLowercase", "asciiUppercase", "asciiLetters", "letters",
              "octdigits", "punctuation", "printable", "lowercase", "uppercase", "whitespace"]
FLAG_FIELDS = ["f_digits", "f_hexdigits", "f_ascii_lowercase", "f_ascii_uppercase", "f_ascii_letters", "f_letters",
               "f_octdigits", "f_punctuation", "f_printable", "f_lowercase", "f_uppercase", "f_whitespace"]


def expr_of(call):
    """Returns (expression text, data) for a string call."""
    fn = call[0]
    if fn == "substring":
        _, s, a, b = call
        if b is None:
            return "$.s.substring($.a)", {"s": s, "a": a}
        return "$.s.substring($.a, $.b)", {"s": s, "a": a, "b": b}
    if fn in ("indexOf", "lastIndexOf"):
        _, s, x, a = call
        if a is None:
            return "$.s.%s($.x)" % fn, {"s": s, "x": x}
        return "$.s.%s($.x, $.a)" % fn, {"s": s, "x": x, "a": a}
    if fn in ("indexOf3", "lastIndexOf3"):
        _, s, x, a, b = call
        return "$.s.%s($.x, $.a, $.b)" % fn[:-1], {"s": s, "x": x, "a": a, "b": b}
    if fn in ("split", "rightSplit"):
        _, s, x, n = call
        if n is None:
            if x is None:
                return "$.s.%s()" % fn, {"s": s}
            return "$.s.%s($.x)" % fn, {"s": s, "x": x}
        return "$.s.%s($.x, $.n)" % fn, {"s": s, "x": x, "n": n}
    if fn == "join":
        _, l, x, form = call
        return ("$.l.join($.x)" if form == 0 else "$.x.join($.l)"), {"l": list(l), "x": x}
    if fn in ("trim", "trimLeft", "trimRight"):
        _, s, c = call
        return "$.s.%s($.c)" % fn, {"s": s, "c": c}
    if fn == "norm":
        _, s, c = call
        return "$.s.norm($.c)", {"s": s, "c": c}
    if fn == "isEmpty":
        _, s, t, c = call
        return "$.s.isEmpty($.t, $.c)", {"s": s, "t": t, "c": c}
    if fn == "replace":
        _, s, o, n, k = call
        if k is None:
            return "$.s.replace($.o, $.n)", {"s": s, "o": o, "n": n}
        return "$.s.replace($.o, $.n, $.k)", {"s": s, "o": o, "n": n, "k": k}
    if fn == "replaceDict":
        _, s, items, k = call
        d = dict(items)
        assert len(d) == len(items)
        if k is None:
            return "$.s.replace($.d)", {"s": s, "d": d}
        return "$.s.replace($.d, $.k)", {"s": s, "d": d, "k": k}
    if fn in ("startsWith", "endsWith"):
        _, s, ps = call
        data = {"s": s}
        for i, p in enumerate(ps):
            data["p%d" % i] = p
        return "$.s.%s(%s)" % (fn, ", ".join("$.p%d" % i for i in range(len(ps)))), data
    if fn == "toCharArray":
        return "$.s.toCharArray()", {"s": call[1]}
    if fn == "len":
        return "$.s.len()", {"s": call[1]}
    if fn == "in":
        return "$.x in $.s", {"x": call[1], "s": call[2]}
    if fn == "mul":
        _, s, n, form = call
        return ("$.s * $.n" if form == 0 else "$.n * $.s"), {"s": s, "n": n}
    if fn == "cmp":
        return "$.a %s $.b" % call[1], {"a": call[2], "b": call[3]}
    if fn == "concat":
        ps = call[1]
        data = {"p%d" % i: p for i, p in enumerate(ps)}
        args = ", ".join("$.p%d" % i for i in range(len(ps)))
        if call[2] == 1 and len(ps) == 2:
            return "$.p0 + $.p1", data
        return "concat(%s)" % args, data
    if fn == "str":
        return "str($.v)", {"v": call[1]}
    if fn == "upper":
        return "$.s.toUpper()", {"s": call[1]}
    if fn == "lower":
        return "$.s.toLower()", {"s": call[1]}
    if fn == "hex":
        return "hex($.n)", {"n": call[1]}
    if fn == "isString":
        return "isString($.v)", {"v": call[1]}
    if fn == "isRegex":
        if call[1] == "<regex>":
            return "isRegex(regex($.p))", {"p": "a.c"}
        return "isRegex($.v)", {"v": call[1]}
    if fn == "escapeRegex":
        return "escapeRegex($.s)", {"s": call[1]}
    if fn == "characters":
        flags = call[1]
        on = [FLAG_NAMES[i] for i in range(12) if flags[i]]
        return "characters(%s)" % ", ".join("%s => true" % n for n in on), {}
    raise ValueError(call)


def canon(fn, v):
    """Finalised evaluate() result -> canonical observation."""
    if v is None:
        return ("null",)
    if isinstance(v, bool):
        return ("bool", v)
    if isinstance(v, int):
        return ("int", v)
    if isinstance(v, str):
        return ("str", v)
    if isinstance(v, (list, tuple)) and all(isinstance(x, str) for x in v):
        if fn == "characters":      # a set: observed sorted
            if any(len(x) != 1 for x in v) or len(set(v)) != len(v):
                return ("foreign", "characters: not a set of characters")
            return ("str", "".join(sorted(v)))
        return ("strs", list(v))
    return ("foreign", "unexpected result %r" % (v,))


def run_call(call):
    try:
        e, d = expr_of(call)
        return canon(call[0], ev(e, d))
    except ValueError:
        return ("err", 1)
    except Exception as e:
        return ("foreign", type(e).__name__)


# ---- Gallina printing -------------------------------------------------------------------
def scal(v):
    if v is None:
        return "SNull"
    if isinstance(v, bool):
        return "(SBool %s)" % gal.boolean(v)
    if isinstance(v, int):
        return "(SInt %s)" % gal.z(v)
    return "(SStr %s)" % gal.s(v)


def ostr(x):
    return gal.opt(x, gal.s)


def call_term(c):
    fn = c[0]
    S, Z = gal.s, gal.z
    if fn == "substring":
        return gal.app("KSubstring", S(c[1]), Z(c[2]), Z(-1 if c[3] is None else c[3]))
    if fn == "indexOf":
        return gal.app("KIndexOf", S(c[1]), S(c[2]), Z(0 if c[3] is None else c[3]))
    if fn == "lastIndexOf":
        return gal.app("KLastIndexOf", S(c[1]), S(c[2]), Z(0 if c[3] is None else c[3]))
    if fn == "indexOf3":
        return gal.app("KIndexOf3", S(c[1]), S(c[2]), Z(c[3]), Z(c[4]))
    if fn == "lastIndexOf3":
        return gal.app("KLastIndexOf3", S(c[1]), S(c[2]), Z(c[3]), Z(c[4]))
    if fn == "split":
        return gal.app("KSplit", S(c[1]), ostr(c[2]), Z(-1 if c[3] is None else c[3]))
    if fn == "rightSplit":
        return gal.app("KRSplit", S(c[1]), ostr(c[2]), Z(-1 if c[3] is None else c[3]))
    if fn == "join":
        return gal.app("KJoin", gal.lst(scal(v) for v in c[1]), S(c[2]))
    if fn == "trim":
        return gal.app("KTrim", S(c[1]), ostr(c[2]))
    if fn == "trimLeft":
        return gal.app("KTrimLeft", S(c[1]), ostr(c[2]))
    if fn == "trimRight":
        return gal.app("KTrimRight", S(c[1]), ostr(c[2]))
    if fn == "norm":
        return gal.app("KNorm", ostr(c[1]), ostr(c[2]))
    if fn == "isEmpty":
        return gal.app("KIsEmpty", ostr(c[1]), gal.boolean(c[2]), ostr(c[3]))
    if fn == "replace":
        return gal.app("KReplace", S(c[1]), S(c[2]), S(c[3]), Z(-1 if c[4] is None else c[4]))
    if fn == "replaceDict":
        return gal.app("KReplaceDict", S(c[1]), gal.lst(gal.pair(scal(k), scal(v)) for k, v in c[2]),
                       Z(-1 if c[3] is None else c[3]))
    if fn == "startsWith":
        return gal.app("KStartsWith", S(c[1]), gal.lst(S(p) for p in c[2]))
    if fn == "endsWith":
        return gal.app("KEndsWith", S(c[1]), gal.lst(S(p) for p in c[2]))
    if fn == "toCharArray":
        return gal.app("KToCharArray", S(c[1]))
    if fn == "len":
        return gal.app("KLen", S(c[1]))
    if fn == "in":
        return gal.app("KIn", S(c[1]), S(c[2]))
    if fn == "mul":
        return gal.app("KMul", S(c[1]), Z(c[2]))
    if fn == "cmp":
        return gal.app("KCmp", {"<": "OpLt", "<=": "OpLe", ">": "OpGt", ">=": "OpGe"}[c[1]], S(c[2]), S(c[3]))
    if fn == "concat":
        return gal.app("KConcat", gal.lst(S(p) for p in c[1]))
    if fn == "str":
        return gal.app("KStr", scal(c[1]))
    if fn == "upper":
        return gal.app("KUpper", S(c[1]))
    if fn == "lower":
        return gal.app("KLower", S(c[1]))
    if fn == "hex":
        return gal.app("KHex", Z(c[1]))
    if fn == "isString":
        return gal.app("KIsString", scal(c[1]))
    if fn == "isRegex":
        return gal.app("KIsRegex", "None" if c[1] == "<regex>" else "(Some %s)" % scal(c[1]))
    if fn == "escapeRegex":
        return gal.app("KEscapeRegex", S(c[1]))
    if fn == "characters":
        return "(KCharacters {| %s |})" % "; ".join("%s := %s" % (FLAG_FIELDS[i], gal.boolean(c[1][i])) for i in range(12))
    raise ValueError(c)


def res_term(r):
    k = r[0]
    if k == "null":
        return "RNull"
    if k == "bool":
        return "(RBool %s)" % gal.boolean(r[1])
    if k == "int":
        return "(RInt %s)" % gal.z(r[1])
    if k == "str":
        return "(RStr %s)" % gal.s(r[1])
    if k == "strs":
        return "(RStrs %s)" % gal.lst(gal.s(x) for x in r[1])
    if k == "err":
        return "(RErr %s)" % gal.z(r[1])
    return "(RErr 99%Z)"        # foreign exception / unexpected shape: never equal to a model result


# ---------------------------------------------------------------------------------
# The brute-force twin: the documented meaning, written without the str methods
# ---------------------------------------------------------------------------------
def occurs(s, x, i):
    if i < 0 or i + len(x) > len(s):
        return False
    for k in range(len(x)):
        if s[i + k] != x[k]:
            return False
    return True


def take(s, i, k):
    """k characters of s from position i (i >= 0, k >= 0), fewer at the end."""
    out = []
    for j in range(i, i + k):
        if j < len(s):
            out.append(s[j])
    return "".join(out)


def ref_window(s, start, length):
    n = len(s)
    st = start + n if start < 0 else start
    if st < 0:
        return None
    ln = n - st if length < 0 else length
    return st, min(n, st + ln)


def ref_find(s, x, lo, hi, last):
    rng = range(lo, hi - len(x) + 1)
    for i in (reversed(rng) if last else rng):
        if occurs(s, x, i):
            return i
    return -1


def ref_split(s, x, n, right=False):
    """fields of s separated by the non-overlapping occurrences of x taken from the left (right)."""
    if right:
        return [f[::-1] for f in reversed(ref_split(s[::-1], x[::-1], n))]
    out, cur, i, done = [], [], 0, 0
    while i < len(s):
        if (n < 0 or done < n) and occurs(s, x, i):
            out.append("".join(cur))
            cur = []
            i += len(x)
            done += 1
        else:
            cur.append(s[i])
            i += 1
    out.append("".join(cur))
    return out


def ref_wsplit(s, n, right=False):
    if right:
        return [f[::-1] for f in reversed(ref_wsplit(s[::-1], n))]
    out, i, done = [], 0, 0
    while True:
        while i < len(s) and s[i].isspace():
            i += 1
        if i == len(s):
            return out
        if n >= 0 and done >= n:
            out.append(take(s, i, len(s)))
            return out
        j = i
        while j < len(s) and not s[j].isspace():
            j += 1
        out.append(take(s, i, j - i))
        done += 1
        i = j


def ref_join(parts, x):
    out = []
    for i, p in enumerate(parts):
        if i:
            out.append(x)
        out.append(p)
    return "".join(out)


def ref_str(v):
    if v is None:
        return "null"
    if v is True:
        return "true"
    if v is False:
        return "false"
    return str(v)


def ref_strip(s, c, left, right):
    inset = (lambda ch: ch.isspace()) if c is None else (lambda ch: any(ch == d for d in c))
    i, j = 0, len(s)
    if left:
        while i < j and inset(s[i]):
            i += 1
    if right:
        while j > i and inset(s[j - 1]):
            j -= 1
    return take(s, i, j - i)


def ref_replace(s, o, nw, k):
    if o == "":
        out, done = [], 0
        for ch in s:
            if k < 0 or done < k:
                out.append(nw)
                done += 1
            out.append(ch)
        if k < 0 or done < k:
            out.append(nw)
        return "".join(out)
    return ref_join(ref_split(s, o, k), nw)


CLASSES = [string_module.digits, string_module.hexdigits, string_module.ascii_lowercase,
           string_module.ascii_uppercase, string_module.ascii_letters, string_module.ascii_letters,
           string_module.octdigits, string_module.punctuation, string_module.printable,
           string_module.ascii_lowercase, string_module.ascii_uppercase, string_module.whitespace]


def ref(call):
    """The documented result as a canonical observation, or UNSPEC outside the documented domain."""
    fn = call[0]
    if fn == "substring":
        _, s, a, b = call
        n = len(s)
        if a < -n:
            return UNSPEC
        st = a + n if a < 0 else a
        return ("str", take(s, st, n if (b is None or b < 0) else b))
    if fn in ("indexOf", "lastIndexOf"):
        _, s, x, a = call
        a = 0 if a is None else a
        lo = max(0, a + len(s)) if a < 0 else a
        return ("int", ref_find(s, x, lo, len(s), fn == "lastIndexOf"))
    if fn in ("indexOf3", "lastIndexOf3"):
        _, s, x, a, b = call
        w = ref_window(s, a, b)
        if w is None:
            return UNSPEC
        return ("int", ref_find(s, x, w[0], w[1], fn == "lastIndexOf3"))
    if fn in ("split", "rightSplit"):
        _, s, x, n = call
        n = -1 if n is None else n
        if x is None:
            return ("strs", ref_wsplit(s, n, fn == "rightSplit"))
        if x == "":
            return ("err", 1)
        return ("strs", ref_split(s, x, n, fn == "rightSplit"))
    if fn == "join":
        return ("str", ref_join([ref_str(v) for v in call[1]], call[2]))
    if fn in ("trim", "trimLeft", "trimRight"):
        return ("str", ref_strip(call[1], call[2], fn != "trimRight", fn != "trimLeft"))
    if fn == "norm":
        if call[1] is None:
            return ("null",)
        v = ref_strip(call[1], call[2], True, True)
        return ("str", v) if v else ("null",)
    if fn == "isEmpty":
        _, s, t, c = call
        if s is None:
            return ("bool", True)
        return ("bool", len(ref_strip(s, c, True, True) if t else s) == 0)
    if fn == "replace":
        return ("str", ref_replace(call[1], call[2], call[3], -1 if call[4] is None else call[4]))
    if fn == "replaceDict":
        s = call[1]
        for k, v in call[2]:
            s = ref_replace(s, ref_str(k), ref_str(v), -1 if call[3] is None else call[3])
        return ("str", s)
    if fn == "startsWith":
        return ("bool", any(occurs(call[1], p, 0) for p in call[2]))
    if fn == "endsWith":
        return ("bool", any(occurs(call[1], p, len(call[1]) - len(p)) for p in call[2]))
    if fn == "toCharArray":
        return ("strs", [ch for ch in call[1]])
    if fn == "len":
        return ("int", sum(1 for _ in call[1]))
    if fn == "in":
        return ("bool", any(occurs(call[2], call[1], i) for i in range(len(call[2]) + 1)))
    if fn == "mul":
        return ("str", "".join(call[1] for _ in range(max(0, call[2]))))
    if fn == "cmp":
        a, b = [ord(ch) for ch in call[2]], [ord(ch) for ch in call[3]]
        k = 0
        while k < len(a) and k < len(b) and a[k] == b[k]:
            k += 1
        lt = (k == len(a) and k < len(b)) or (k < len(a) and k < len(b) and a[k] < b[k])
        eq = k == len(a) == len(b)
        return ("bool", {"<": lt, "<=": lt or eq, ">": not lt and not eq, ">=": not lt}[call[1]])
    if fn == "concat":
        return ("str", ref_join(list(call[1]), ""))
    if fn == "str":
        return ("str", ref_str(call[1]))
    if fn in ("upper", "lower"):
        lo, hi, d = (97, 122, -32) if fn == "upper" else (65, 90, 32)
        return ("str", "".join(chr(ord(ch) + d) if lo <= ord(ch) <= hi else ch for ch in call[1]))
    if fn == "hex":
        n, digits = abs(call[1]), []
        while True:
            digits.append("0123456789abcdef"[n % 16])
            n //= 16
            if n == 0:
                break
        return ("str", ("-" if call[1] < 0 else "") + "0x" + "".join(reversed(digits)))
    if fn == "isString":
        return ("bool", type(call[1]) is str)
    if fn == "isRegex":
        return ("bool", call[1] == "<regex>")
    if fn == "escapeRegex":
        return ("str", "".join("\\" + ch if ch in "()[]{}?*+-|^$\\.&~# \t\n\r\v\f" else ch for ch in call[1]))
    if fn == "characters":
        chars = set()
        for i in range(12):
            if call[1][i]:
                chars |= set(CLASSES[i])
        return ("str", "".join(sorted(chars)))
    return UNSPEC


# ---------------------------------------------------------------------------------
# generators
# ---------------------------------------------------------------------------------
ALPHA = "abc "
UNICODE_SAMPLES = ["éáb", "a\U0001F600b\U0001F600", " ab ", "\ud800a\ud800", "ßAİ",
                   "a\tb\nc", "\x1fab\x85", "　　", "ab\U00010000ab", "аба"]
GRID_STRINGS_QUICK = ["", "a", "ab", "abab", "aaa", "ab ab", "a\U0001F600a", "éeé"]
GRID_STRINGS_MORE = ["cabcdab", "abcabc", " a b ", "aaaa", "abbaé"]
GRID_SUBS_QUICK = ["", "a", "ab", "b", "aa", "\U0001F600", "é"]
GRID_SUBS = GRID_SUBS_QUICK + ["ba", "abab", "c"]


def rstr(rng, maxlen=7, alpha=ALPHA):
    if rng.random() < 0.08:
        return rng.choice(UNICODE_SAMPLES)
    return "".join(rng.choice(alpha) for _ in range(rng.randrange(0, maxlen + 1)))


def rsub(rng, s):
    r = rng.random()
    if r < 0.45 and s:
        i = rng.randrange(len(s))
        return s[i:i + rng.randrange(1, 4)]
    if r < 0.55:
        return ""
    return rstr(rng, 2, "ab ")


def rchars(rng):
    r = rng.random()
    if r < 0.3:
        return None
    if r < 0.4:
        return ""
    return "".join(rng.choice("abc  \U0001F600") for _ in range(rng.randrange(1, 4)))


def rscalar(rng):
    r = rng.random()
    if r < 0.55:
        return rstr(rng, 3)
    if r < 0.75:
        return rng.choice([0, 1, 7, 10, -3, 12345678901234567890, -100, 99])
    if r < 0.85:
        return None
    return rng.choice([True, False])


def rcount(rng):
    return rng.choice([None, -1, -1, 0, 1, 1, 2, 3, -2, 5])


def grid_calls(strings, subs):
    for s in strings:
        n = len(s)
        for a in range(-n, n + 3):
            yield ("substring", s, a, None)
            for b in range(-2, n + 3):
                yield ("substring", s, a, b)
        for x in subs:
            if len(x) > n + 1:
                continue
            yield ("indexOf", s, x, None)
            yield ("lastIndexOf", s, x, None)
            for a in range(-n, n + 3):
                yield ("indexOf", s, x, a)
                yield ("lastIndexOf", s, x, a)
                for b in range(-2, n + 3):
                    yield ("indexOf3", s, x, a, b)
                    yield ("lastIndexOf3", s, x, a, b)


def random_call(rng):
    fn = rng.choice(["substring", "indexOf", "lastIndexOf", "indexOf3", "lastIndexOf3",
                     "split", "split", "rightSplit", "rightSplit", "join", "trim", "trimLeft", "trimRight", "norm",
                     "isEmpty", "replace", "replace", "replaceDict", "replaceDict", "startsWith", "endsWith",
                     "toCharArray", "len", "in", "mul", "characters", "cmp", "cmp", "concat", "str", "upper", "lower",
                     "hex", "isString", "isRegex", "escapeRegex"])
    s = rstr(rng)
    n = len(s)
    if fn == "substring":
        return (fn, s, rng.randrange(-n, n + 4), rng.choice([None] + list(range(-2, n + 3))))
    if fn in ("indexOf", "lastIndexOf"):
        return (fn, s, rsub(rng, s), rng.choice([None] + list(range(-n, n + 4))))
    if fn in ("indexOf3", "lastIndexOf3"):
        return (fn, s, rsub(rng, s), rng.randrange(-n, n + 4), rng.randrange(-2, n + 3))
    if fn in ("split", "rightSplit"):
        r = rng.random()
        x = None if r < 0.3 else rsub(rng, s)
        if x is None and rng.random() < 0.5:
            s = "".join(rng.choice("ab \t  ") for _ in range(rng.randrange(0, 9)))
        return (fn, s, x, rcount(rng))
    if fn == "join":
        return (fn, tuple(rscalar(rng) for _ in range(rng.randrange(0, 5))), rstr(rng, 2), rng.randrange(2))
    if fn in ("trim", "trimLeft", "trimRight"):
        return (fn, s, rchars(rng))
    if fn == "norm":
        return (fn, None if rng.random() < 0.1 else s, rchars(rng))
    if fn == "isEmpty":
        return (fn, None if rng.random() < 0.1 else rstr(rng, 4, "a  \t"), rng.random() < 0.7, rchars(rng))
    if fn == "replace":
        return (fn, s, rsub(rng, s), rstr(rng, 2, "abx"), rcount(rng))
    if fn == "replaceDict":
        items, seen = [], []
        for _ in range(rng.randrange(0, 4)):
            k = rsub(rng, s) if rng.random() < 0.8 else rscalar(rng)
            if any(k == q for q in seen):
                continue
            seen.append(k)
            items.append((k, rscalar(rng) if rng.random() < 0.3 else rstr(rng, 2, "abcx")))
        return (fn, s, tuple(items), rcount(rng))
    if fn in ("startsWith", "endsWith"):
        ps = []
        for _ in range(rng.randrange(0, 4)):
            if s and rng.random() < 0.5:
                k = rng.randrange(0, len(s) + 1)
                ps.append(s[:k] if fn == "startsWith" else s[len(s) - k:])
            else:
                ps.append(rstr(rng, 2, "ab"))
        return (fn, s, tuple(ps))
    if fn in ("toCharArray", "len"):
        return (fn, s)
    if fn == "in":
        return (fn, rsub(rng, s), s)
    if fn == "mul":
        return (fn, rstr(rng, 3), rng.randrange(-2, 5), rng.randrange(2))
    if fn == "cmp":
        b = s if rng.random() < 0.2 else (s[:rng.randrange(len(s) + 1)] + rstr(rng, 2) if rng.random() < 0.6 else rstr(rng))
        return (fn, rng.choice(["<", "<=", ">", ">="]), s, b)
    if fn == "concat":
        return (fn, tuple(rstr(rng, 3) for _ in range(rng.randrange(1, 4))), rng.randrange(2))
    if fn == "str":
        return (fn, rscalar(rng))
    if fn in ("upper", "lower"):
        return (fn, "".join(rng.choice("abzAZ09 _{[@`") for _ in range(rng.randrange(0, 8))))
    if fn == "hex":
        return (fn, rng.choice([0, 1, 9, 10, 15, 16, 255, 256, -1, -16, -255, 4096, 2 ** 64, -(2 ** 70) + 3, rng.randrange(-10 ** 6, 10 ** 6),
                                rng.randrange(0, 2 ** 40)]))
    if fn == "isString":
        return (fn, rscalar(rng))
    if fn == "isRegex":
        return (fn, "<regex>" if rng.random() < 0.4 else rng.choice([None, True, 3, "a.c", ""]))
    if fn == "escapeRegex":
        return (fn, "".join(rng.choice("ab_0 .*+?()[]{}|^$\\-&~#!%,/:;<=>@`'\"\t\n\x0b\x0c\ré") for _ in range(rng.randrange(0, 8))))
    if fn == "characters":
        k = rng.choice([1, 1, 1, 2, 3])
        on = set(rng.sample(range(12), k))
        return (fn, tuple(i in on for i in range(12)))
    raise ValueError(fn)


def nontrivial(call, obs):
    fn = call[0]
    if fn in ("characters", "str", "hex", "isString", "isRegex"):
        return True
    if fn == "cmp":
        return bool(call[2]) and bool(call[3])
    if fn == "concat":
        return len(call[1]) > 1
    s = call[1] if fn != "in" else call[2]
    if fn == "join":
        return len(call[1]) > 1
    if not s:
        return False
    if fn in ("substring",):
        return call[2] < 0 or call[2] > len(s) or (call[3] is not None and (call[3] < 0 or call[2] + call[3] > len(s)))
    if fn in ("indexOf", "lastIndexOf", "indexOf3", "lastIndexOf3"):
        return obs != ("int", -1) or (call[3] is not None and call[3] < 0)
    return True


# ---------------------------------------------------------------------------------
# regex: pattern family, match records, calls
# ---------------------------------------------------------------------------------
NAMES = ["x", "y", "zz", "w_1"]


def star_height(t):
    """Nesting depth of unbounded repeats in a parsed pattern (c19_regex tree)."""
    k = t[0]
    if k == "rep":
        return star_height(t[1]) + (1 if t[3] is None else 0)
    if k in ("seq", "alt"):
        return max(star_height(t[1]), star_height(t[2]))
    if k == "grp":
        return star_height(t[2])
    return 0


def gen_pattern(rng, depth, names):
    """A random pattern over {a,b,c}; `names` is the list of still unused group names.  Patterns whose
    unbounded repeats nest more than 2 deep are redrawn: CPython's re (and any backtracking matcher) can need
    minutes on them even for 8-character subjects."""
    while True:
        saved = list(names)
        pat = gen_pattern_raw(rng, depth, names)
        try:
            if star_height(c19_regex.parse(pat)[0]) <= 2:
                return pat
        except c19_regex.Unmodelled:
            return pat
        names[:] = saved


def gen_pattern_raw(rng, depth, names):
    def atom(d):
        r = rng.random()
        if d <= 0 or r < 0.4:
            return rng.choice(["a", "b", "c", "[ab]", ".", "a", "b", "[^a]"])
        inner = alt(d - 1)
        r = rng.random()
        if r < 0.4:
            return "(" + inner + ")"
        if r < 0.85 and names:
            return "(?P<%s>%s)" % (names.pop(0), inner)
        return "(?:" + inner + ")"

    def item(d):
        a = atom(d)
        return a + rng.choice(["", "", "", "?", "*", "+", "??", "{1,2}"])

    def seq(d):
        return "".join(item(d) for _ in range(rng.randrange(1, 4)))

    def alt(d):
        return "|".join(seq(d) for _ in range(rng.choice([1, 1, 1, 2])))

    return alt(depth)


FIXED_PATTERNS = ["a.c", "(a)(b)?", "(?P<x>a)(b)?", "(?P<x>a+)(?P<y>b*)", "(a)|(?P<x>b)", "((a)(?P<zz>b))?c",
                  "(?P<x>(?P<y>a)|b)+", "a*", "(?P<w_1>)", "(?P<x>a)(?P<y>(?P<zz>b)c)?", "(b)(?P<x>a)"]


def grec(m, g):
    return (m.group(g), m.start(g), m.end(g))


def mrec(m):
    return {"whole": grec(m, 0), "groups": [grec(m, i) for i in range(1, m.re.groups + 1)],
            "named": sorted(m.re.groupindex.items(), key=lambda kv: kv[1])}


def flags_of(ic, ml, da):
    return re.UNICODE | (re.IGNORECASE if ic else 0) | (re.MULTILINE if ml else 0) | (re.DOTALL if da else 0)


def key_text(k):
    return "$%d" % k if isinstance(k, int) else "$" + k


CONSUMERS = {"plain": "", "toList": ".toList()", "reverse": ".reverse()", "take1": ".toList().take(1)",
             "skip1": ".toList().skip(1)"}


def lazy_sel_text(sel):
    """A selector whose value is a LAZY sequence reading a match record ($k with k >= 2 or a name:
    inside select/where `$`/`$1` is the element)."""
    k = key_text(sel[1])
    if sel[0] == "value":
        return "[%s].select(%s?.value)" % (", ".join(str(i) for i in range(sel[2])), k)
    if sel[0] == "span":
        return "[0, 1].select(switch($ = 0 => %s.start, true => %s.end))" % (k, k)
    if sel[0] == "where":
        return "[x].where(%s.end > %d)" % (k, sel[2])
    raise ValueError(sel)


def regex_expr(rc):
    """rc = dict(fn, pat, flags(ic, ml, da), s, ...) -> (expression, data)"""
    ic, ml, da = rc["flags"]
    rx = "regex($.p%s%s%s)" % (", ignoreCase => true" if ic else "", ", multiLine => true" if ml else "",
                                ", dotAll => true" if da else "")
    data = {"p": rc["pat"], "s": rc["s"]}
    fn = rc["fn"]
    if fn == "matches":
        form = rc["form"]
        if form == 0:
            return "%s.matches($.s)" % rx, data
        if form == 1:
            return "$.s =~ %s" % rx, data
        if form == 2:
            return "not ($.s !~ %s)" % rx, data
        if form == 3:
            return "$.s.matches($.p)", data
        return "$.s =~ $.p", data
    if fn in ("search", "searchAll"):
        if rc["keys"] is None:
            return "%s.%s($.s)" % (rx, fn), data
        return "%s.%s($.s, [%s])" % (rx, fn, ", ".join(key_text(k) for k in rc["keys"])), data
    if fn in ("searchLazy", "searchAllLazy"):
        sel = lazy_sel_text(rc["sel"])
        if fn == "searchLazy":
            return "%s.search($.s, %s)" % (rx, sel), data
        return "%s.searchAll($.s, %s)%s" % (rx, sel, CONSUMERS[rc["cons"]]), data
    if fn == "replaceBy":
        parts = []
        for it in rc["items"]:
            if it[0] == "join":
                parts.append('[%s].select(str(%s?.value)).join("")' % (", ".join(str(i) for i in range(it[2])), key_text(it[1])))
                continue
            parts.append('"%s"' % it[1] if it[0] == "lit" else "str(%s?.value)" % key_text(it[1]))
        sel = "concat(%s)" % ", ".join(parts)
        data["k"] = rc["count"]
        if rc["form"] == 0:
            return "%s.replaceBy($.s, %s, $.k)" % (rx, sel), data
        return "$.s.replaceBy(%s, %s, $.k)" % (rx, sel), data
    if fn == "replace":
        data["k"] = rc["count"]
        data["r"] = rc["repl"]
        if rc["form"] == 0:
            return "%s.replace($.s, $.r, $.k)" % rx, data
        return "$.s.replace(%s, $.r, $.k)" % rx, data
    if fn == "split":
        data["k"] = rc["count"]
        if rc["form"] == 0:
            return "%s.split($.s, $.k)" % rx, data
        return "$.s.split(%s, $.k)" % rx, data
    raise ValueError(fn)


def canon_rec(v):
    if v is None:
        return None
    if isinstance(v, dict) and set(v) == {"value", "start", "end"} and (v["value"] is None or isinstance(v["value"], str)) \
            and isinstance(v["start"], int) and isinstance(v["end"], int):
        return (v["value"], v["start"], v["end"])
    raise TypeError("not a match record: %r" % (v,))


def run_regex(rc):
    """Canonical observation of the implementation."""
    try:
        e, d = regex_expr(rc)
        return canon_regex_value(rc, ev(e, d))
    except Exception as e:
        return ("foreign", type(e).__name__)


def canon_regex_value(rc, v):
    try:
        fn = rc["fn"]
        if fn == "matches":
            return ("bool", v) if isinstance(v, bool) else ("foreign", repr(v))
        if fn == "search":
            if v is None:
                return ("null",)
            if rc["keys"] is None:
                return ("str", v) if isinstance(v, str) else ("foreign", repr(v))
            return ("recs", [canon_rec(x) for x in v])
        if fn == "searchAll":
            if rc["keys"] is None:
                return ("ostrs", list(v)) if all(x is None or isinstance(x, str) for x in v) else ("foreign", repr(v))
            return ("recss", [[canon_rec(x) for x in row] for row in v])
        if fn in ("replaceBy", "replace"):
            return ("str", v) if isinstance(v, str) else ("foreign", repr(v))
        if fn in ("searchLazy", "searchAllLazy"):
            if fn == "searchLazy":
                if v is None:
                    return ("null",)
                v = [v]
            ok = isinstance(v, list) and all(isinstance(row, list) and all(
                x is None or isinstance(x, str) or (isinstance(x, int) and not isinstance(x, bool)) for x in row) for row in v)
            return ("vals", [list(row) for row in v]) if ok else ("foreign", repr(v))
        if fn == "split":
            return ("ostrs", list(v)) if all(x is None or isinstance(x, str) for x in v) else ("foreign", repr(v))
    except Exception as e:
        return ("foreign", type(e).__name__)
    return ("foreign", "?")


def matches_of(rc):
    """The oracle: what CPython's re finds (first match / all matches)."""
    rx = re.compile(rc["pat"], flags_of(*rc["flags"]))
    if rc["fn"] in ("matches", "search", "searchLazy"):
        m = rx.search(rc["s"])
        return [] if m is None else [mrec(m)]
    return [mrec(m) for m in rx.finditer(rc["s"])]


def ref_regex(rc, ms):
    """Documented meaning, computed from the match records only (twin of Model/Regex.v)."""
    fn = rc["fn"]

    def var(m, k):
        if isinstance(k, int):
            if k == 1:
                return m["whole"]
            if 2 <= k < 2 + len(m["groups"]):
                return m["groups"][k - 2]
            return None
        for name, idx in m["named"]:
            if name == k:
                return m["groups"][idx - 1]
        return None

    def lim(c):
        return ms if c == 0 else ms[:max(0, c)]

    def lazy(m):
        sel = rc["sel"]
        g = var(m, sel[1])
        if sel[0] == "value":
            return [None if g is None else g[0] for _ in range(sel[2])]
        if sel[0] == "span":
            return [g[1], g[2]]
        return ["x"] if g[2] > sel[2] else []

    if fn == "searchLazy":
        return ("vals", [lazy(ms[0])]) if ms else ("null",)
    if fn == "searchAllLazy":
        rows = [lazy(m) for m in ms]
        c = rc["cons"]
        rows = rows[::-1] if c == "reverse" else rows[:1] if c == "take1" else rows[1:] if c == "skip1" else rows
        return ("vals", rows)
    if fn == "matches":
        return ("bool", bool(ms))
    if fn == "search":
        if not ms:
            return ("null",)
        if rc["keys"] is None:
            return ("str", ms[0]["whole"][0])
        return ("recs", [var(ms[0], k) for k in rc["keys"]])
    if fn == "searchAll":
        if rc["keys"] is None:
            return ("ostrs", [m["whole"][0] for m in ms])
        return ("recss", [[var(m, k) for k in rc["keys"]] for m in ms])
    if fn in ("replaceBy", "replace"):
        out, pos, s = [], 0, rc["s"]
        for m in lim(rc["count"]):
            out.append(take(s, pos, m["whole"][1] - pos))
            if fn == "replace":
                out.append(rc["repl"])
            else:
                for it in rc["items"]:
                    if it[0] == "lit":
                        out.append(it[1])
                    elif it[0] == "join":
                        g = var(m, it[1])
                        out += ["null" if g is None or g[0] is None else g[0] for _ in range(it[2])]
                    else:
                        g = var(m, it[1])
                        out.append("null" if g is None or g[0] is None else g[0])
            pos = m["whole"][2]
        out.append(take(s, pos, len(s)))
        return ("str", "".join(out))
    if fn == "split":
        out, pos, s = [], 0, rc["s"]
        for m in lim(rc["count"]):
            out.append(take(s, pos, m["whole"][1] - pos))
            out += [g[0] for g in m["groups"]]
            pos = m["whole"][2]
        out.append(take(s, pos, len(s)))
        return ("ostrs", out)
    return UNSPEC


def grec_term(g):
    return "(%s, %s, %s)" % (ostr(g[0]), gal.z(g[1]), gal.z(g[2]))


def mrec_term(m):
    return "{| m_whole := %s; m_groups := %s; m_named := %s |}" % (
        grec_term(m["whole"]), gal.lst(grec_term(g) for g in m["groups"]),
        gal.lst(gal.pair(gal.s(n), gal.nat(i)) for n, i in m["named"]))


def key_term(k):
    return "(KNum %s)" % gal.nat(k) if isinstance(k, int) else "(KName %s)" % gal.s(k)


def rcall_term(rc, ms):
    fn = rc["fn"]
    mlist = gal.lst(mrec_term(m) for m in ms)
    mopt = "None" if not ms else "(Some %s)" % mrec_term(ms[0])
    keys = None if rc.get("keys") is None else gal.lst(key_term(k) for k in rc["keys"])
    if fn == "matches":
        return "(RMatches %s)" % mopt
    if fn == "search":
        return "(RSearch %s %s)" % (mopt, gal.opt(keys))
    if fn == "searchAll":
        return "(RSearchAll %s %s)" % (mlist, gal.opt(keys))
    if fn in ("searchLazy", "searchAllLazy"):
        sel = rc["sel"]
        st = ("(LValue %s %s)" % (key_term(sel[1]), gal.nat(sel[2])) if sel[0] == "value" else
              "(LSpan %s)" % key_term(sel[1]) if sel[0] == "span" else "(LWhere %s %s)" % (key_term(sel[1]), gal.z(sel[2])))
        if fn == "searchLazy":
            return "(RSearchLazy %s %s)" % (mopt, st)
        cons = {"plain": "CPlain", "toList": "CToList", "reverse": "CReverse", "take1": "CTake1", "skip1": "CSkip1"}[rc["cons"]]
        return "(RSearchAllLazy %s %s %s)" % (mlist, st, cons)
    if fn == "replaceBy":
        items = gal.lst("(ILit %s)" % gal.s(it[1]) if it[0] == "lit" else
                        "(IJoin %s %s)" % (key_term(it[1]), gal.nat(it[2])) if it[0] == "join" else
                        "(IVal %s)" % key_term(it[1]) for it in rc["items"])
        return "(RReplaceBy %s %s %s %s)" % (gal.s(rc["s"]), mlist, items, gal.z(rc["count"]))
    if fn == "replace":
        return "(RReplaceLit %s %s %s %s)" % (gal.s(rc["s"]), mlist, gal.s(rc["repl"]), gal.z(rc["count"]))
    if fn == "split":
        return "(RSplit %s %s %s)" % (gal.s(rc["s"]), mlist, gal.z(rc["count"]))
    raise ValueError(fn)


def rres_term(r):
    k = r[0]
    orec = lambda g: gal.opt(g, grec_term)
    if k == "null":
        return "XNull"
    if k == "bool":
        return "(XBool %s)" % gal.boolean(r[1])
    if k == "str":
        return "(XStr %s)" % gal.s(r[1])
    if k == "ostrs":
        return "(XOStrs %s)" % gal.lst(ostr(x) for x in r[1])
    if k == "recs":
        return "(XRecs %s)" % gal.lst(orec(g) for g in r[1])
    if k == "recss":
        return "(XRecss %s)" % gal.lst(gal.lst(orec(g) for g in row) for row in r[1])
    if k == "vals":
        rv = lambda x: "(VInt %s)" % gal.z(x) if isinstance(x, int) else "(VStr %s)" % ostr(x)
        return "(XVals %s)" % gal.lst(gal.lst(rv(x) for x in row) for row in r[1])
    return "(XRecs [Some (None, 424242%Z, 0%Z)])"      # foreign: never equal to a model result


def published_keys(pat):
    """Variables other than $1 that _publish_match assigns for this pattern ($1 is the element inside select/where)."""
    rx = re.compile(pat)
    return list(range(2, rx.groups + 2)) + sorted(rx.groupindex)


def random_lazy_sel(rng, pat, n):
    pub = published_keys(pat)
    anykey = [k for k in list(range(0, re.compile(pat).groups + 4)) + NAMES + ["nosuch"] if k != 1]
    r = rng.random()
    if not pub or r < 0.4:
        return ("value", rng.choice(pub) if pub and rng.random() < 0.7 else rng.choice(anykey), rng.randrange(1, 3))
    if r < 0.7:
        return ("span", rng.choice(pub))
    return ("where", rng.choice(pub), rng.randrange(-1, n + 1))


def lazy_family():
    """Every lazy selector kind x every consumer on patterns with several matches per subject."""
    out = []
    for pat in ["a(.)", "(?P<x>[ab])(c*)", "(b)(?P<x>a|c)", "(a)(b)?", "(?P<x>a+)(?P<y>b*)", "(?P<x>(?P<y>a)|b)+"]:
        pub = published_keys(pat)
        for s in ["abac", "abcab", "aabbc", "bacbc"]:
            for k in pub:
                for sel in [("value", k, 1), ("value", k, 2), ("span", k), ("where", k, 2)]:
                    for cons in CONSUMERS:
                        out.append({"fn": "searchAllLazy", "pat": pat, "flags": (False, False, False), "s": s,
                                    "sel": sel, "cons": cons})
                    out.append({"fn": "searchLazy", "pat": pat, "flags": (False, False, False), "s": s, "sel": sel})
    return out


def engine_modelled(rc):
    """The pattern is in the language of Model/RegexEngine.v and the subject is ASCII (case folding)."""
    if not (rc["s"].isascii() and c19_regex.modelled(rc["pat"])):
        return False
    # the Gallina engine's fuel bounds recursion depth, not total work: catastrophically backtracking cases stay with re
    return c19_regex.within_budget(rc["pat"], rc["flags"], rc["s"])


def eop_term(rc):
    fn = rc["fn"]
    keys = None if rc.get("keys") is None else gal.lst(key_term(k) for k in rc["keys"])
    if fn == "matches":
        return "EMatches"
    if fn == "search":
        return "(ESearch %s)" % gal.opt(keys)
    if fn == "searchAll":
        return "(ESearchAll %s)" % gal.opt(keys)
    if fn in ("searchLazy", "searchAllLazy"):
        sel = rc["sel"]
        st = ("(LValue %s %s)" % (key_term(sel[1]), gal.nat(sel[2])) if sel[0] == "value" else
              "(LSpan %s)" % key_term(sel[1]) if sel[0] == "span" else "(LWhere %s %s)" % (key_term(sel[1]), gal.z(sel[2])))
        if fn == "searchLazy":
            return "(ESearchLazy %s)" % st
        cons = {"plain": "CPlain", "toList": "CToList", "reverse": "CReverse", "take1": "CTake1", "skip1": "CSkip1"}[rc["cons"]]
        return "(ESearchAllLazy %s %s)" % (st, cons)
    if fn == "replaceBy":
        items = gal.lst("(ILit %s)" % gal.s(it[1]) if it[0] == "lit" else
                        "(IJoin %s %s)" % (key_term(it[1]), gal.nat(it[2])) if it[0] == "join" else
                        "(IVal %s)" % key_term(it[1]) for it in rc["items"])
        return "(EReplaceBy %s %s)" % (items, gal.z(rc["count"]))
    if fn == "replace":
        return "(EReplaceLit %s %s)" % (gal.s(rc["repl"]), gal.z(rc["count"]))
    if fn == "split":
        return "(ESplit %s)" % gal.z(rc["count"])
    raise ValueError(fn)


def ecase_term(rc, obs):
    return "{| ec_fl := %s; ec_p := %s; ec_s := %s; ec_op := %s; ec_obs := %s |}" % (
        c19_regex.flags_term(rc["flags"]), c19_regex.pattern_term(rc["pat"]), gal.s(rc["s"]), eop_term(rc), rres_term(obs))


def mcase_term(pat, flags, s):
    ms = [mrec(m) for m in re.compile(pat, flags_of(*flags)).finditer(s)]
    return "{| mc_fl := %s; mc_p := %s; mc_s := %s; mc_obs := %s |}" % (
        c19_regex.flags_term(flags), c19_regex.pattern_term(pat), gal.s(s), gal.lst(mrec_term(m) for m in ms)), ms


def random_regex_call(rng, pat=None, s=None):
    names = list(NAMES)
    if pat is None:
        pat = rng.choice(FIXED_PATTERNS) if rng.random() < 0.3 else gen_pattern(rng, 2, names)
    ic = rng.random() < 0.25
    flags = (ic, rng.random() < 0.1, rng.random() < 0.1)
    if s is None:
        s = "".join(rng.choice("aabbc" + ("AB" if ic else "") + ("\n" if flags[1] or flags[2] else ""))
                    for _ in range(rng.randrange(0, 8)))
    ngroups = re.compile(pat).groups
    allkeys = list(range(0, ngroups + 4)) + NAMES + ["nosuch"]
    fn = rng.choice(["matches", "search", "search", "searchAll", "searchAll", "replaceBy", "replaceBy", "replace", "split",
                     "searchAllLazy", "searchAllLazy", "searchLazy"])
    rc = {"fn": fn, "pat": pat, "flags": flags, "s": s}
    if fn in ("searchLazy", "searchAllLazy"):
        rc["sel"] = random_lazy_sel(rng, pat, len(s))
        if fn == "searchAllLazy":
            rc["cons"] = rng.choice(["plain", "toList", "toList", "reverse", "reverse", "take1", "skip1"])
        return rc
    if fn == "matches":
        rc["form"] = rng.randrange(5)
        if rc["form"] >= 3:
            rc["flags"] = (False, False, False)
    elif fn in ("search", "searchAll"):
        rc["keys"] = None if rng.random() < 0.15 else (allkeys if rng.random() < 0.5 else
                                                        [rng.choice(allkeys) for _ in range(rng.randrange(1, 5))])
    elif fn == "replaceBy":
        items = []
        for _ in range(rng.randrange(1, 4)):
            r = rng.random()
            items.append(("lit", rng.choice(["", "-", "x", "<>", "ab"])) if r < 0.35
                         else ("join", rng.choice([k for k in allkeys if k != 1]), rng.randrange(1, 3)) if r < 0.5
                         else ("val", rng.choice(allkeys)))
        rc["items"] = items
        rc["count"] = rng.choice([0, 0, 1, 2, 3])
        rc["form"] = rng.randrange(2)
    elif fn == "replace":
        rc["repl"] = rng.choice(["", "x", "-", "xy"])
        rc["count"] = rng.choice([0, 0, 1, 2])
        rc["form"] = rng.randrange(2)
    else:
        rc["count"] = rng.choice([0, 0, 1, 2])
        rc["form"] = rng.randrange(2)
    return rc


def regex_nontrivial(rc, ms):
    return bool(ms) and bool(ms[0]["groups"])


# ---------------------------------------------------------------------------------
# failure reporting
# ---------------------------------------------------------------------------------
class Reporter:
    """Keeps the smallest failing input per class and reports each class once."""

    def __init__(self, run):
        self.run, self.best = run, {}

    def add(self, kind, what, data):
        size = len(json.dumps(data, default=repr))
        cur = self.best.get(what)
        if cur is None or size < cur[0]:
            self.best[what] = (size, kind, data, (cur[3] + 1) if cur else 1)
        else:
            self.best[what] = (cur[0], cur[1], cur[2], cur[3] + 1)

    def flush(self):
        for what, (_, kind, data, n) in sorted(self.best.items()):
            data = dict(data)
            data["failing_inputs_of_this_class"] = n
            self.run.fail(kind, what, data)
        self.best = {}


def judge_string(rep, call, obs, model_says=None, source="C"):
    """A disagreement on a string call: violation if the implementation leaves the documented meaning."""
    req = ref(call)
    e, d = expr_of(call)
    data = {"kind": "string", "call": list(call), "expression": e, "data": d, "observed": list(obs),
            "required": req if req is UNSPEC else list(req), "found_by": source}
    if req is not UNSPEC and tuple(req) != tuple(obs):
        rep.add("violation", "%s: result differs from the documented meaning (%s)" % (
            call[0], "raises %s" % obs[1] if obs[0] == "foreign" else "wrong value"), data)
    else:
        rep.add("mismatch", "%s: Model/Strings.v and strings.py disagree (the twin agrees with the implementation)" % call[0], data)


def judge_regex(rep, rc, ms, obs, source="C", engine=False):
    req = ref_regex(rc, ms)
    e, d = regex_expr(rc)
    named = any(m["named"] for m in ms)
    data = {"kind": "regex", "call": rc, "expression": e, "data": d, "matches_from_re": ms, "observed": list(obs),
            "required": list(req), "found_by": source}
    if tuple(req) != tuple(obs):
        rep.add("violation", "regex %s%s: result differs from the documented meaning / match record (%s)" % (
            rc["fn"], " with named groups" if named else "",
            "raises" if obs[0] == "foreign" else "wrong value"), data)
    else:
        rep.add("mismatch", "regex %s: %s and regex.py disagree (the twin agrees with the implementation)" % (
            rc["fn"], "Model/RegexEngine.v + Model/Regex.v" if engine else "Model/Regex.v"), data)


# ---------------------------------------------------------------------------------
# C
# ---------------------------------------------------------------------------------
def load_corpus():
    path = os.path.join(HERE, "corpus", "C19.json")
    if not os.path.exists(path):
        return [], []
    j = json.load(open(path))
    return [detuple_call(c) for c in j.get("string_calls", [])], j.get("regex_calls", [])


def detuple_call(c):
    c = list(c)
    if c[0] == "join":
        c[1] = tuple(c[1])
    elif c[0] == "replaceDict":
        c[2] = tuple((k, v) for k, v in c[2])
    elif c[0] in ("startsWith", "endsWith"):
        c[2] = tuple(c[2])
    elif c[0] in ("characters", "concat"):
        c[1] = tuple(c[1])
    return tuple(c)


def fix_regex_call(rc):
    rc = dict(rc)
    rc["flags"] = tuple(rc["flags"])
    if rc.get("items") is not None:
        rc["items"] = [tuple(i) for i in rc["items"]]
    if rc.get("sel") is not None:
        rc["sel"] = tuple(rc["sel"])
    return rc


_case_tables = None


def case_tables():
    """(upper dict, lower dict, excluded-for-upper set, excluded-for-lower set) of the running interpreter (BMP)."""
    global _case_tables
    if _case_tables is None:
        import gen_casemap
        up, lo, us, ls, ctx = gen_casemap.tables()
        _case_tables = (dict(up), dict(lo), set(us), set(ls) | set(ctx), sorted(set(dict(up)) | set(dict(lo))))
    return _case_tables


def case_mapping_cases(run, rep, rng):
    up, lo, xu, xl, cased = case_tables()
    run.cov["uncovered"].append(
        "toUpper/toLower: %d (upper) / %d (lower) BMP code points have a full (multi-character) or context-sensitive "
        "case mapping and are outside the model, e.g. U+00DF -> 'SS', U+0130, final sigma U+03A3; code points above "
        "U+FFFF are not in the regenerated table" % (len(xu), len(xl)))
    terms, meta = [], []
    fixed = ["", "aB1c", "éÉ", "ǅ", "straße".replace("ß", "s"), "ΑΒΓαβγ", "привет МИР", "ａＡ", "ǆǄ", "ÿŸ", "ſ", "µ", "İ".lower()[:1]]
    n = run.n(700, 8000)
    for i in range(len(fixed) * 2 + n):
        if i < len(fixed) * 2:
            s_, upper = fixed[i // 2], i % 2 == 0
        else:
            upper = rng.random() < 0.5
            s_ = "".join(chr(rng.choice(cased)) if rng.random() < 0.7 else
                         chr(rng.randrange(0x20, 0x250)) if rng.random() < 0.7 else chr(rng.randrange(0x20, 0xD800))
                         for _ in range(rng.randrange(0, 7)))
        bad = xu if upper else xl
        s_ = "".join(ch for ch in s_ if ord(ch) not in bad and ord(ch) < 0x10000)
        call = ("upper" if upper else "lower", s_)
        obs = run_call(call)
        run.case(("case", call), nontrivial=any(ord(ch) > 127 for ch in s_))
        run.count("fn:unicode-" + call[0])
        terms.append("(%s, %s, %s)" % (gal.boolean(upper), gal.s(s_), gal.s(obs[1]) if obs[0] == "str" else gal.s(s_ + "\x00!")))
        meta.append((call, obs))
    for i in run.coq_mismatches(HEADER, "ccase", "ccase_ok", terms, shard=400):
        call, obs = meta[i]
        tab = up if call[0] == "upper" else lo
        req = ("str", "".join(chr(tab.get(ord(ch), ord(ch))) for ch in call[1]))
        e, d = expr_of(call)
        data = {"kind": "case", "call": list(call), "expression": e, "data": d, "observed": list(obs), "required": list(req),
                "found_by": "C"}
        if tuple(req) != tuple(obs):
            rep.add("violation", "%s: result differs from the simple case mapping of the text (%s)" % (
                "toUpper" if call[0] == "upper" else "toLower", "raises" if obs[0] == "foreign" else "wrong value"), data)
        else:
            rep.add("mismatch", "Model/CaseMap.v and strings.py disagree on %s (the table twin agrees with the implementation)" % call[0], data)
    rep.flush()


# ---------------------------------------------------------------------------------
# engines with yaql.memoryQuota / yaql.limitIterators: a call whose arguments and result fit must give the
# model's value; the options may only turn what does NOT fit into their own exceptions
# ---------------------------------------------------------------------------------
QUOTA_EXC = ("MemoryQuotaExceededException", "CollectionTooLargeException")


def quota_cfg(q, l):
    return (("yaql.limitIterators", l), ("yaql.memoryQuota", q))


def fits_quota(call, plain, q, l):
    """Every value the evaluation of the one-call expression handles - the data document, each argument, the
    result and its elements - is within the memory quota, and every collection within the iterator limit."""
    from yaql.language import utils as yutils
    expr, data = expr_of(call)
    vals = [yutils.convert_input_data(data)] + [yutils.convert_input_data(v) for v in data.values()]
    if plain[0] in ("foreign", "err"):
        return False
    # the sizes the IMPLEMENTATION sees on a quota-free engine: the raw object the function returns (a tuple of
    # characters for characters()/toCharArray(), ... - not the model's canonical form) and the finalised value,
    # which is itself the result of a protocol call (#finalize) and is built as an over-allocated list
    try:
        raw = ev_on(RAW_CFG, expr, data)
        if hasattr(raw, "__next__"):
            raw = tuple(raw)
        vals += [raw, ev(expr, data)]
    except Exception:
        return False
    sizes, lens = [], []
    for v in vals:
        sizes.append(sys.getsizeof(v))
        if isinstance(v, (tuple, list, dict)) or hasattr(v, "items"):
            lens.append(len(v))
            for x in (v.values() if hasattr(v, "values") else v):
                sizes.append(sys.getsizeof(x))
                if isinstance(x, (tuple, list)):
                    lens.append(len(x))
                    sizes += [sys.getsizeof(y) for y in x]
    if call[0] == "mul":
        # repetition estimates before it computes (C08: repetition_refuses_first); for ASCII text the estimate is the
        # size of the result.  Only non-negative-ish counts on ASCII text are claimed here.
        if not call[1].isascii() or call[2] < -2:
            return False
    return max(sizes) <= q and (l < 0 or all(n <= l for n in lens))


def quota_calls(rng, q, quick):
    """Calls whose sizes sweep the threshold getsizeof(result) = quota from both sides, plus random small ones."""
    empty = sys.getsizeof("")
    out = []
    lefts = ["a", "ab", "abcab", "a b c d e f g h i j"] if q < 5000 else ["ab", "a b c d e f g h i j"] if q == 5000 else ["a b c d e f g h i j", "abcab abcab abcab abcab abcab abcab abcab"]
    for left in lefts:
        th = (q - empty) // len(left)
        counts = set(range(max(0, th - 3), th + 4)) | {0, 1, 2, 3, th // 2, th // 3 + 1, (2 * th) // 3, -1, -2}
        if quick and q >= 5000:
            counts = {th - 1, th, th + 1, th // 2}
        for n in sorted(counts):
            out.append(("mul", left, n, n % 2))
    if q <= (600 if quick else 1000):
        # long ASCII texts whose own size sweeps the quota: the argument, or the result, is what does or does not fit
        for size in (range(q - 2, q + 2) if quick else range(q - 3, q + 3)):
            n = size - empty
            text = ("ab " * n)[:n]
            out += [("upper", text), ("trim", text, None), ("substring", text, 0, None), ("replace", text, "b", "b", None),
                    ("len", text), ("indexOf", text, "b a", None), ("split", text, " ", 2), ("in", "ba", text),
                    ("endsWith", text, ("b ", "a"))]
            half = n // 2
            out += [("concat", (text[:half], text[half:]), 0), ("concat", (text[:half], text[half:]), 1),
                    ("join", (text[:half], text[half:n - 1]), "-", 0),
                    ("replace", text[:half], "ab", "abab", None), ("replace", text[:n - n // 3], "a", "aa", None)]
        for n in (20, 48, 49, 50, 51, 52):
            out += [("toCharArray", "ab" * (n // 2) + "a" * (n % 2)), ("split", "a " * n, None, None), ("split", "a," * (n - 1) + "a", ",", None)]
    out += [random_call(rng) for _ in range(150 if quick else 1500)]
    return [c for c in out if c[0] not in ("characters",) or True]


def quota_cases(run, rep, rng):
    cfgs = [(600, -1), (1000, 50), (5000, -1), (20000, 1000)]
    terms, meta = [], []
    work = [(c["quota"], c["limit"], detuple_call(c["call"])) for c in corpus_extra("quota_calls")]
    for q, l in cfgs:
        work += [(q, l, call) for call in quota_calls(rng, q, run.quick)]
    for q, l, call in work:
        cfg = quota_cfg(q, l)
        if True:
            plain = run_call(call)
            obs = run_call_on(cfg, call)
            fits = fits_quota(call, plain, q, l)
            run.case(("quota", q, l, call), nontrivial=True)
            run.count("quota:%d/%d %s" % (q, l, "fits" if fits else "does-not-fit"))
            run.count("quota-obs:" + (obs[1] if obs[0] == "foreign" else "value"))
            if fits:
                if call[0] in ("upper", "lower") and not call[1].isascii():
                    if obs != plain:
                        judge_quota(rep, call, obs, plain, q, l, True)
                    continue
                terms.append("(%s, %s)" % (call_term(call), res_term(obs)))
                meta.append((call, obs, plain, q, l))
            elif obs != plain and not (obs[0] == "foreign" and obs[1] in QUOTA_EXC):
                judge_quota(rep, call, obs, plain, q, l, False)
    for i in run.coq_mismatches(HEADER, "case", "case_ok", terms, shard=150):
        call, obs, plain, q, l = meta[i]
        if obs != plain:
            judge_quota(rep, call, obs, plain, q, l, True)
        else:
            judge_string(rep, call, obs)
    rep.flush()


def judge_quota(rep, call, obs, plain, q, l, fits):
    e, d = expr_of(call)
    short = lambda v: v if len(repr(v)) < 300 else repr(v)[:300] + "..."
    data = {"kind": "quota", "call": list(call) if len(repr(call)) < 3000 else None, "expression": e,
            "data": {k: short(v) for k, v in d.items()}, "options": {"yaql.memoryQuota": q, "yaql.limitIterators": l},
            "observed": [short(x) for x in obs], "required": [short(x) for x in plain],
            "result_bytes": sys.getsizeof(plain[1]) if plain[0] == "str" else None, "found_by": "C"}
    if fits:
        rep.add("violation", "%s under yaql.memoryQuota/limitIterators: arguments and result fit the limits but the model's value is "
                "not returned (%s)" % (call[0], "raises %s" % obs[1] if obs[0] == "foreign" else "wrong value"), data)
    else:
        rep.add("violation", "%s under yaql.memoryQuota/limitIterators: a result that does not fit is neither returned nor refused "
                "with the quota's own exception" % call[0], data)


# ---------------------------------------------------------------------------------
# the KIND of value the collection-returning functions produce (Model/StringKinds.v)
# ---------------------------------------------------------------------------------
KIND_FUNCS = [("FToCharArray", "$.s.toCharArray()"), ("FSplit", "$.s.split($.x)"), ("FSplitWs", "$.s.split()"),
              ("FRightSplit", "$.s.rightSplit($.x)"), ("FCharacters", "characters(octdigits => true)"),
              ("FRegexSplit", "regex($.x).split($.s)"), ("FRegexSplitStr", "$.s.split(regex($.x))"),
              ("FSearchAll", "regex($.x).searchAll($.s)"), ("FSearchAllSel", "regex($.x).searchAll($.s, $.value)")]
SPLIT_FAMILY = ("FSplit", "FSplitWs", "FRightSplit", "FRegexSplit", "FRegexSplitStr")
RAW_CFG = (("yaql.convertOutputData", False),)
OUT_CFGS = [(t, s_, (("yaql.convertSetsToLists", s_), ("yaql.convertTuplesToLists", t))) for t in (True, False) for s_ in (True, False)]


def raw_kind(v):
    if type(v) is tuple:
        return "RKTuple"
    if type(v) is list:
        return "RKList"
    if hasattr(v, "__next__") or (hasattr(v, "__iter__") and not isinstance(v, (str, bytes, dict, set, frozenset, tuple, list))):
        return "RKIter"
    return "RKOther"


def fin_kind(v):
    return "FKList" if type(v) is list else "FKTuple" if type(v) is tuple else "FKOther"


def kind_census(fn, expr, data):
    """-> (raw kind before finalisation, [(convertTuplesToLists, finalised kind)], finalised values)"""
    try:
        raw = raw_kind(ev_on(RAW_CFG, expr, data))
    except Exception as e:
        raw = "RKOther"
    fins, values = [], []
    for t, s_, cfg in OUT_CFGS:
        try:
            v = ev_on(cfg, expr, data)
            fins.append((t, fin_kind(v)))
            values.append(list(v) if isinstance(v, (list, tuple)) else repr(v))
        except Exception as e:
            fins.append((t, "FKOther"))
            values.append("raises " + type(e).__name__)
    try:
        v = ev_on("legacy", expr, data)
        fins.append((False, fin_kind(v)))
        values.append(list(v) if isinstance(v, (list, tuple)) else repr(v))
    except yexc.YaqlException:
        pass                    # the legacy grammar / library does not have this spelling
    except Exception as e:
        fins.append((False, "FKOther"))
        values.append("raises " + type(e).__name__)
    return raw, fins, values


def kind_cases(run, rep, rng):
    terms, meta = [], []
    inputs = [tuple(p) for p in corpus_extra("kind_inputs")] + [("a b", " "), ("", "a"), ("abab", "b"), ("a\U0001F600b a", "a")] + [(rstr(rng, 6), rng.choice("ab ")) for _ in range(run.n(4, 40))]
    for fn, expr in KIND_FUNCS:
        for s_, x in inputs:
            data = {"s": s_, "x": x}
            raw, fins, values = kind_census(fn, expr, data)
            run.case(("kind", fn, s_, x), nontrivial=True)
            run.count("kind:%s raw=%s" % (fn, raw))
            terms.append("(%s, %s, %s)" % (fn, raw, gal.lst(gal.pair(gal.boolean(t), k) for t, k in fins)))
            meta.append((fn, expr, data, raw, fins, values))
            # the finalised values themselves do not depend on the output options
            ref0 = values[0]
            if any(v != ref0 for v in values):
                rep.add("violation", "%s: the finalised elements differ between output-option engines" % fn,
                        {"kind": "collection-kind", "function": fn, "expression": expr, "data": data, "raw": raw,
                         "finalised": values, "found_by": "C"})
    for i in run.coq_mismatches(HEADER + "\nFrom YV Require Import Model.StringKinds.", "kcase", "kcase_ok", terms, shard=400):
        fn, expr, data, raw, fins, values = meta[i]
        rep.add("violation", "%s: the returned value is not the documented kind (raw %s; a yaql list is an immutable tuple, "
                "searchAll a lazy sequence)" % (fn, raw),
                {"kind": "collection-kind", "function": fn, "expression": expr, "data": data, "raw": raw,
                 "finalised_kinds": [[t, k] for t, k in fins], "found_by": "C"})
    rep.flush()


# the result used as a VALUE: F is the call on the string `$`; F_s the same on `$.s`
USE_FUNCS = [("FToCharArray", "$.toCharArray()", lambda s: [ch for ch in s]),
             ("FSplit", '$.split(" ")', lambda s: ref_split(s, " ", -1)),
             ("FSplitWs", "$.split()", lambda s: ref_wsplit(s, -1)),
             ("FRightSplit", '$.rightSplit("a", 1)', lambda s: ref_split(s, "a", 1, True)),
             ("FCharacters", "characters(octdigits => true, whitespace => true)", None),
             ("FRegexSplit", 'regex("a").split($)', lambda s: ref_split(s, "a", -1)),
             ("FRegexSplitStr", '$.split(regex("a"))', lambda s: ref_split(s, "a", -1)),
             ("FSearchAll", 'regex("a.?").searchAll($).toList()', lambda s: re.findall("a.?", s))]
USE_LAWS = [("equals the list literal", "{Fs} = $.l", True),
            ("is found by indexOf / in", "[{Fs}].indexOf($.l) = 0 and ($.l in [{Fs}])", True),
            ("distinct() accepts it", "[$.s, $.s].select({F}).distinct().len()", 1),
            ("toSet() accepts it", "[$.s, $.s].select({F}).toSet().len()", 1),
            ("is a dictionary key", "dict([$.s].select([{F}, 1])).len()", 1),
            ("groupBy key", "[$.s, $.s].groupBy({F}).len()", 1)]


def use_laws(run, rep, rng):
    subjects = list(corpus_extra("use_subjects")) + ["", "a", "ab", "a b", "ba ab", "aaa", "é a"] + [rstr(rng, 6, "ab ") for _ in range(run.n(5, 60))]
    for fn, f, model in USE_FUNCS:
        for s_ in subjects:
            for name, tmpl, required in USE_LAWS:
                if model is None and "{Fs}" in tmpl:
                    continue
                expr = tmpl.replace("{Fs}", f.replace("$", "$.s", 1) if "$" in f else f).replace("{F}", f)
                data = {"s": s_, "l": model(s_) if model else []}
                run.count("O:use-laws")
                try:
                    v = ev(expr, data)
                except Exception as e:
                    v = "raises " + type(e).__name__
                if v != required or type(v) is not type(required):
                    try:
                        raw = raw_kind(ev_on(RAW_CFG, (f.replace("$", "$.s", 1) if "$" in f else f), data))
                    except Exception:
                        raw = "RKOther"
                    rep.add("violation", "%s: the result cannot be used as the list value it is: it %s fails" % (fn, name),
                            {"kind": "collection-use", "function": fn, "law": name, "expression": expr, "data": data,
                             "observed": v, "required": required, "raw": raw, "found_by": "O"})


# ---------------------------------------------------------------------------------
# injected delegates: functions that take the context's `str` (Delegate) must use the function VISIBLE IN THE
# CALLING CONTEXT, in every spelling - run in a child context whose host registers its own `str`
# ---------------------------------------------------------------------------------
def host_str(value):
    if value is None:
        return ""
    if value is True:
        return "yes"
    if value is False:
        return "no"
    return str(value)


_override_ctx = None


def override_context():
    """The default library with a host `str` registered in a child context."""
    global _override_ctx
    if _override_ctx is None:
        ev("1", None)
        child = _ctx.create_child_context()

        @specs.parameter("value", nullable=True)
        def str_(value):
            return host_str(value)

        child.register_function(str_, name="str")
        _override_ctx = child
    return _override_ctx


def ev_in(ctx, expr, data):
    ev("1", None)
    pe = _parsed.get(expr)
    if pe is None:
        pe = _parsed[expr] = _engine(expr)
    return pe.evaluate(data=data, context=ctx)


def delegate_users():
    """From the live registry: (yaql name, payload name, delegated function) for every strings/regex function
    with an injected Delegate / Super parameter."""
    from yaql.language import yaqltypes as yt
    ev("1", None)
    out, c = [], _ctx
    while c is not None:
        for name, fds in getattr(c, "_functions", {}).items():
            for fd in fds:
                mod = getattr(fd.payload, "__module__", "")
                if not (mod.endswith("standard_library.strings") or mod.endswith("standard_library.regex")):
                    continue
                for prm in fd.parameters.values():
                    vt = prm.value_type
                    if isinstance(vt, (yt.Delegate, yt.Super)):
                        out.append((name, fd.payload.__name__, getattr(vt, "name", None) or "super"))
        c = c.parent
    return sorted(set(out))


COVERED_DELEGATE_USERS = {("join", "join", "str"), ("join", "join_", "str"), ("replace", "replace_with_dict", "str")}


def conv_expr(call):
    fn = call[0]
    if fn == "joinConv":
        _, host, l, x, form = call
        return ["$.l.join($.x)", "$.x.join($.l)", "$.l.select($).join($.x)", "$.x.join($.l.select($))"][form], {"l": list(l), "x": x}
    if fn == "replaceDictConv":
        _, host, s_, items, k = call
        return "$.s.replace($.d, $.k)", {"s": s_, "d": dict(items), "k": k}
    if fn == "strConv":
        return "str($.v)", {"v": call[2]}
    raise ValueError(call)


def conv_term(call):
    fn, host = call[0], gal.boolean(call[1])
    if fn == "joinConv":
        return gal.app("KJoinConv", host, gal.lst(scal(v) for v in call[2]), gal.s(call[3]))
    if fn == "replaceDictConv":
        return gal.app("KReplaceDictConv", host, gal.s(call[2]), gal.lst(gal.pair(scal(k), scal(v)) for k, v in call[3]), gal.z(call[4]))
    return gal.app("KStrConv", host, scal(call[2]))


def conv_ref(call):
    f = host_str if call[1] else ref_str
    if call[0] == "joinConv":
        return ("str", ref_join([f(v) for v in call[2]], call[3]))
    if call[0] == "replaceDictConv":
        s_ = call[2]
        for k, v in call[3]:
            s_ = ref_replace(s_, f(k), f(v), call[4])
        return ("str", s_)
    return ("str", f(call[2]))


def delegate_cases(run, rep, rng):
    users = delegate_users()
    for u in users:
        run.count("delegate-user:%s/%s<-%s" % u)
        if u not in COVERED_DELEGATE_USERS:
            run.cov["uncovered"].append("function %s (%s) takes the delegate %r but has no override-context cases" % u)
    calls = [("joinConv", True, (True, None, 3, "a"), ",", f) for f in range(4)]
    for _ in range(run.n(500, 6000)):
        host = rng.random() < 0.7
        r = rng.random()
        if r < 0.6:
            calls.append(("joinConv", host, tuple(rscalar(rng) for _ in range(rng.randrange(0, 5))), rstr(rng, 2), rng.randrange(4)))
        elif r < 0.9:
            items, seen, s_ = [], [], rstr(rng) + rng.choice(["", "null", "true1", "no yes"])
            for _ in range(rng.randrange(0, 4)):
                k = rsub(rng, s_) if rng.random() < 0.5 else rscalar(rng)
                if any(k == q_ for q_ in seen) or host_str(k) == "" or ref_str(k) == "":
                    continue
                seen.append(k)
                items.append((k, rscalar(rng)))
            calls.append(("replaceDictConv", host, s_, tuple(items), rng.choice([-1, -1, 1, 2])))
        else:
            calls.append(("strConv", host, rscalar(rng)))
    terms, meta = [], []
    for call in calls:
        e, d = conv_expr(call)
        try:
            v = ev_in(override_context() if call[1] else _ctx, e, d)
            obs = ("str", v) if type(v) is str else ("foreign", "unexpected result %r" % (v,))
        except Exception as ex:
            obs = ("foreign", type(ex).__name__)
        run.case(("conv", call), nontrivial=call[1])
        run.count("fn:%s[%s str]" % (call[0], "host" if call[1] else "default"))
        terms.append("(%s, %s)" % (conv_term(call), res_term(obs)))
        meta.append((call, obs, e, d))
    for i in run.coq_mismatches(HEADER, "case", "case_ok", terms, shard=400):
        call, obs, e, d = meta[i]
        req = conv_ref(call)
        data = {"kind": "delegate", "call": list(call), "expression": e, "data": d, "context": "child context registering a host str()" if call[1] else "default",
                "observed": list(obs), "required": list(req), "found_by": "C"}
        if tuple(req) != tuple(obs):
            rep.add("violation", "%s: the elements are not converted with the str function visible in the calling context (%s)" % (
                {"joinConv": "join [%s]" % ["seq.join(sep)", "sep.join(seq)", "lazy seq.join(sep)", "sep.join(lazy seq)"][call[4]] if call[0] == "joinConv" else "",
                 "replaceDictConv": "replace(dict)", "strConv": "str()"}[call[0]], "raises" if obs[0] == "foreign" else "wrong value"), data)
        else:
            rep.add("mismatch", "Model/Strings.v conv model and strings.py disagree on %s" % call[0], data)
    rep.flush()


# ---------------------------------------------------------------------------------
# host string kinds: string operands delivered as instances of str SUBCLASSES (as $ data with conversion on / off,
# as context variable, as host function result); the functions work on the TEXT (str(value)) and return plain str
# ---------------------------------------------------------------------------------
def _loud(name):
    plain = getattr(str, name)

    def method(self, *a, **kw):
        r = plain(self, *a, **kw)
        if isinstance(r, str):
            return Loud("<" + str.__str__(r) + ">")
        if isinstance(r, list):
            return [Loud("<" + str.__str__(t) + ">") for t in r] + [Loud("!")]
        if isinstance(r, bool):
            return not r
        if isinstance(r, int):
            return r + 100
        return r
    method.__name__ = name
    return method


class Loud(str):
    """Every str method the implementations are likely to call answers visibly differently."""
    __slots__ = ()


for _n in ("split", "rsplit", "replace", "strip", "lstrip", "rstrip", "upper", "lower", "join", "__add__", "__mul__", "__rmul__",
           "__getitem__", "__contains__", "find", "rfind", "startswith", "endswith", "__len__", "__lt__", "__le__", "__gt__", "__ge__"):
    setattr(Loud, _n, _loud(_n))


def _mk_escape(text):
    if isinstance(text, Markup):
        return text
    out = str(text)
    for a, b in (("&", "&amp;"), ("<", "&lt;"), (">", "&gt;"), ("a", "&a;"), (" ", "&sp;")):
        out = str.replace(out, a, b)
    return Markup(out)


def _escaping(name):
    plain = getattr(str, name)

    def method(self, *args):
        args = [_mk_escape(a) if isinstance(a, str) else a for a in args]
        r = plain(self, *args)
        if isinstance(r, str):
            return Markup(r)
        if isinstance(r, list):
            return [Markup(t) for t in r]
        return r
    method.__name__ = name
    return method


class Markup(str):
    """markupsafe.Markup-like: methods escape their string arguments (here also 'a' and ' ') and return Markup."""
    __slots__ = ()

    def join(self, items):
        return Markup(str.join(self, [_mk_escape(t) for t in items]))


for _n in ("replace", "strip", "lstrip", "rstrip", "split", "rsplit", "upper", "lower", "__getitem__", "__mul__", "__add__",
           "find", "rfind", "startswith", "endswith", "__contains__"):
    setattr(Markup, _n, _escaping(_n))


class Message(str):
    """A lazily translated message: the buffer is a message id, str() gives the text."""

    def __new__(cls, text):
        o = str.__new__(cls, "msgid:" + text[::-1])
        o._text = text
        return o

    def __str__(self):
        return self._text


HOST_KINDS = [("Loud", Loud), ("Markup", Markup), ("Message", Message)]
HOST_MODES = ["data", "data-noconvert", "ctxvar", "hostfn"]


def wrap_strings(v, cls):
    if type(v) is str:
        return cls(v)
    if isinstance(v, (list, tuple)):
        return type(v)(wrap_strings(x, cls) for x in v)
    if isinstance(v, dict):
        return {wrap_strings(k, cls): wrap_strings(x, cls) for k, x in v.items()}
    return v


def has_string(v):
    if type(v) is str:
        return True
    if isinstance(v, (list, tuple)):
        return any(has_string(x) for x in v)
    if isinstance(v, dict):
        return any(has_string(k) or has_string(x) for k, x in v.items())
    return False


def host_eval(expr, data, cls, mode):
    """Evaluate the expression with every string operand of `data` delivered as an instance of cls."""
    w = {k: wrap_strings(v, cls) for k, v in data.items()}
    if mode == "data":
        return ev(expr, w)
    if mode == "data-noconvert":
        return ev_on((("yaql.convertInputData", False),), expr, w)
    ev("1", None)
    child = _ctx.create_child_context()
    if mode == "ctxvar":
        for k, v in w.items():
            child["$hv_" + k] = v
        return ev_in(child, re.sub(r"\$\.(\w+)", r"$hv_\1", expr), None)
    if mode == "hostfn":
        def hostval(name):
            return w[name]
        child.register_function(hostval)
        return ev_in(child, re.sub(r"\$\.(\w+)", r"hostval(\1)", expr), None)
    raise ValueError(mode)


def strict_plain(v):
    """The finalised value contains only plain str / list / scalars (no str subclass instance anywhere)."""
    if isinstance(v, str):
        return type(v) is str
    if isinstance(v, (list, tuple)):
        return all(strict_plain(x) for x in v)
    if isinstance(v, dict):
        return all(strict_plain(k) and strict_plain(x) for k, x in v.items())
    return True


def host_kind_cases(run, rep, rng):
    combos = [(kn, kc, m) for kn, kc in HOST_KINDS for m in HOST_MODES]
    terms, meta = [], []
    fixed = [("split", "a<b<c", "<", None), ("trim", " a b ", None), ("replace", "a<b", "<", "a", None), ("upper", "ab"),
             ("substring", "abcd", 1, 2), ("mul", "ab", 2, 0), ("mul", "ab", 2, 1), ("concat", ("a", "b"), 1), ("concat", ("a", "b"), 0),
             ("join", ("a b", "c"), " ", 0), ("join", ("a b", "c"), " ", 1), ("toCharArray", "a b"), ("in", "a", "ba"),
             ("indexOf", "ab a", "a", 1), ("startsWith", "ab", ("a",)), ("len", "a b"), ("cmp", "<", "a", "b"),
             ("replaceDict", "a b", (("a", "b"),), None), ("norm", " a ", None), ("isEmpty", " ", True, None), ("rightSplit", "a b a", " ", 1)]
    n = run.n(110, 1200)
    for kn, kc, mode in combos:
        calls = list(fixed) + [random_call(rng) for _ in range(n)]
        for call in calls:
            if call[0] in ("characters", "hex", "isRegex", "str", "isString"):
                continue
            e, d = expr_of(call)
            if not has_string(d):
                continue
            try:
                v = host_eval(e, d, kc, mode)
                obs = canon(call[0], v) if strict_plain(v) else ("foreign", "result contains an instance of a str subclass: %r" % (v,))
            except ValueError:
                obs = ("err", 1)
            except Exception as ex:
                obs = ("foreign", type(ex).__name__)
            run.case(("hostkind", kn, mode, call), nontrivial=True)
            run.count("hostkind:%s/%s" % (kn, mode))
            if call[0] in ("upper", "lower") and not call[1].isascii():
                plain = run_call(call)
                if obs != plain:
                    judge_host_kind(rep, call, obs, plain, kn, mode, e, d)
                continue
            terms.append("(%s, %s)" % (call_term(call), res_term(obs)))
            meta.append((call, obs, kn, mode, e, d))
    for i in run.coq_mismatches(HEADER, "case", "case_ok", terms, shard=400):
        call, obs, kn, mode, e, d = meta[i]
        judge_host_kind(rep, call, obs, run_call(call), kn, mode, e, d)
    # regex functions with the subject / pattern / replacement as host strings
    for j in range(run.n(240, 3000)):
        rc = random_regex_call(rng)
        kn, kc, mode = combos[j % len(combos)]
        if mode in ("ctxvar", "hostfn") and rc["fn"] in ("search", "searchAll", "replaceBy", "searchLazy", "searchAllLazy"):
            mode = "data"               # their selectors use $-variables of their own
        e, d = regex_expr(rc)
        plain = run_regex(rc)
        try:
            saved = rc
            v = host_eval(e, d, kc, mode)
            obs = ("foreign", "result contains an instance of a str subclass") if not strict_plain(v) else None
        except Exception as ex:
            v, obs = None, ("foreign", type(ex).__name__)
        if obs is None:
            try:
                obs = canon_regex_value(rc, v)
            except Exception as ex:
                obs = ("foreign", type(ex).__name__)
        run.count("hostkind-regex:%s/%s" % (kn, mode))
        if obs != plain:
            rep.add("violation", "regex %s: with the subject/pattern delivered as a host string (str subclass) the result differs from that "
                    "on the plain text" % rc["fn"],
                    {"kind": "hostkind-regex", "call": rc, "host_class": kn, "delivery": mode, "expression": e, "data": d,
                     "observed": list(obs), "required": list(plain), "found_by": "C"})
    rep.flush()


def judge_host_kind(rep, call, obs, plain, kn, mode, e, d):
    data = {"kind": "hostkind", "call": list(call), "host_class": kn, "delivery": mode, "expression": e, "data": d,
            "observed": list(obs), "required": list(plain), "found_by": "C"}
    if obs != plain:
        rep.add("violation", "%s: with string operands delivered as host strings (str subclass instances) the result is not that on the "
                "plain text, as plain str (%s)" % (call[0], "raises %s" % obs[1] if obs[0] == "foreign" and " " not in obs[1] else
                                                   "subclass instance in the result" if obs[0] == "foreign" else "wrong value"), data)
    else:
        rep.add("mismatch", "%s: Model/Strings.v and strings.py disagree (host-string run)" % call[0], data)


def corpus_extra(key):
    path = os.path.join(HERE, "corpus", "C19.json")
    if not os.path.exists(path):
        return []
    return json.load(open(path)).get(key, [])


def correspondence(run):
    rep = Reporter(run)
    rng = run.rng
    cs, cr = load_corpus()
    # ---- strings ----
    calls = list(cs)
    calls += list(grid_calls(GRID_STRINGS_QUICK if run.quick else GRID_STRINGS_QUICK + GRID_STRINGS_MORE,
                             GRID_SUBS_QUICK if run.quick else GRID_SUBS))
    for flags in range(12):
        calls.append(("characters", tuple(i == flags for i in range(12))))
    calls.append(("characters", tuple(False for _ in range(12))))
    calls += [random_call(rng) for _ in range(run.n(4000, 30000))]
    terms, meta = [], []
    for i, call in enumerate(calls):
        obs = run_call(call)
        run.case(call, nontrivial=nontrivial(call, obs))
        run.count("fn:" + call[0])
        run.count("obs:" + obs[0])
        if i % 1201 == 7:
            run.sample({"call": list(call), "observed": list(obs)})
        terms.append("(%s, %s)" % (call_term(call), res_term(obs)))
        meta.append((call, obs))
    for i in run.coq_mismatches(HEADER, "case", "case_ok", terms, shard=400):
        judge_string(rep, meta[i][0], meta[i][1])
    rep.flush()
    # ---- toUpper / toLower on the regenerated simple case mapping (BMP) ----
    case_mapping_cases(run, rep, rng)
    # ---- the same string functions on engines with yaql.memoryQuota / yaql.limitIterators ----
    quota_cases(run, rep, rng)
    # ---- kinds of the collection results: raw type before finalisation, finalised type per output option ----
    kind_cases(run, rep, rng)
    # ---- functions with an injected delegate, in a context whose host overrides the delegated function ----
    delegate_cases(run, rep, rng)
    # ---- string operands delivered as instances of str subclasses ----
    host_kind_cases(run, rep, rng)
    # ---- regex ----
    rcalls = [fix_regex_call(r) for r in cr]
    for pat in FIXED_PATTERNS:
        for s in ["", "ab", "abcab", "aabbc", "cab", "bac"]:
            allkeys = list(range(0, re.compile(pat).groups + 4)) + NAMES + ["nosuch"]
            base = {"pat": pat, "flags": (False, False, False), "s": s}
            rcalls.append(dict(base, fn="search", keys=allkeys))
            rcalls.append(dict(base, fn="searchAll", keys=allkeys))
            rcalls.append(dict(base, fn="replaceBy", items=[("val", 2), ("lit", "-"), ("val", "x"), ("val", 1)], count=0, form=0))
    # flag families: ONE pattern compiled under all 8 flag combinations in a row (ascending and descending), on
    # subjects where each flag matters - regex objects must not be confused across calls of one process
    import itertools as _it
    combos = list(_it.product([False, True], repeat=3))
    for pat in ["a.c", "(?P<x>a).(c)", "^c", "a$", "(a)(?P<y>.)"]:
        for order in (combos, combos[::-1]):
            for flags in order:
                for sj in ["a\nc", "A\nc", "xa\nc\nab", "b\nc\na"]:
                    allkeys = list(range(0, re.compile(pat).groups + 3)) + NAMES
                    rcalls.append({"fn": "matches", "pat": pat, "flags": flags, "s": sj, "form": 0})
                    rcalls.append({"fn": "search", "pat": pat, "flags": flags, "s": sj, "keys": allkeys})
    # selectors returning LAZY sequences x consumers that materialise the outer searchAll result first
    rcalls += lazy_family()
    rcalls += [random_regex_call(rng) for _ in range(run.n(1500, 20000))]
    terms, meta = [], []
    for i, rc in enumerate(rcalls):
        ms = matches_of(rc)
        obs = run_regex(rc)
        run.case(("regex", sorted(rc.items(), key=lambda kv: kv[0])), nontrivial=regex_nontrivial(rc, ms))
        run.count("fn:regex." + rc["fn"])
        run.count("regex.named" if any(m["named"] for m in ms) else "regex.unnamed")
        run.count("obs:" + obs[0])
        if i % 701 == 5:
            run.sample({"regex_call": rc, "observed": list(obs)})
        meta.append((rc, ms, obs))
    # patterns of the modelled language run on the Gallina engine (Model/RegexEngine.v): yaql's result is compared
    # with the model of yaql ON TOP OF the modelled engine (ecase), and the engine with CPython's re on the same
    # pattern x flags x subject (mcase).  Other patterns - and cases on which the engine's fuel did not suffice -
    # stay with re as an oracle (rcase).
    oracle_idx, engine_idx, triples = [], [], {}
    for i, (rc, ms, obs) in enumerate(meta):
        if engine_modelled(rc):
            engine_idx.append(i)
            triples.setdefault((rc["pat"], tuple(rc["flags"]), rc["s"]), None)
            run.count("regex.engine-modelled")
        else:
            oracle_idx.append(i)
            run.count("regex.oracle-only")
            if c19_regex.modelled(rc["pat"]) and rc["s"].isascii():
                run.cov["skipped"] += 1
                run.count("regex.engine-too-many-steps(oracle used)")
            if len(run.cov["uncovered"]) < 12 and not c19_regex.modelled(rc["pat"]):
                run.cov["uncovered"].append("pattern outside the modelled regex language (re oracle used): %r" % rc["pat"])
    eterms = [ecase_term(meta[i][0], meta[i][2]) for i in engine_idx]
    bad = [engine_idx[j] for j in run.coq_mismatches(HEADER, "ecase", "ecase_ok", eterms, shard=250)]
    if bad:
        nofuel = set(bad[j] for j in run.coq_mismatches(HEADER, "ecase", "ecase_fuel_ok",
                                                      [ecase_term(meta[i][0], meta[i][2]) for i in bad], shard=250))
        for i in bad:
            if i in nofuel:
                run.cov["skipped"] += 1
                run.count("regex.engine-out-of-fuel")
                oracle_idx.append(i)
            else:
                judge_regex(rep, *meta[i], engine=True)
    oterms = ["(%s, %s)" % (rcall_term(meta[i][0], meta[i][1]), rres_term(meta[i][2])) for i in oracle_idx]
    for j in run.coq_mismatches(HEADER, "rcase", "rcase_ok", oterms, shard=250):
        judge_regex(rep, *meta[oracle_idx[j]])
    tl = sorted(triples)
    mterms, mms = [], []
    for pat, flags, s in tl:
        t, ms = mcase_term(pat, flags, s)
        mterms.append(t)
        mms.append(ms)
    run.count("regex.engine-vs-re triples", len(tl))
    mbad = run.coq_mismatches(HEADER, "mcase", "mcase_ok", mterms, shard=250)
    if mbad:
        nofuel = set(mbad[j] for j in run.coq_mismatches(HEADER, "mcase", "mcase_fuel_ok", [mterms[i] for i in mbad], shard=250))
        for i in mbad:
            if i in nofuel:
                run.cov["skipped"] += 1
                continue
            rep.add("mismatch", "Model/RegexEngine.v and CPython's re find different matches for a pattern of the modelled language",
                    {"kind": "engine", "pattern": tl[i][0], "flags": list(tl[i][1]), "subject": tl[i][2], "matches_from_re": mms[i]})
    rep.flush()


# ---------------------------------------------------------------------------------
# O: the laws of the property on the implementation alone + the twin
# ---------------------------------------------------------------------------------
def law(rep, name, expr, data, required=True):
    try:
        v = ev(expr, data)
    except Exception as e:
        v = "raises " + type(e).__name__
    if v != required or type(v) is not type(required):
        rep.add("violation", "law %s fails on the implementation" % name,
                {"kind": "law", "law": name, "expression": expr, "data": data, "observed": v, "required": required,
                 "found_by": "O"})
        return False
    return True


def words(alpha, maxlen):
    for n in range(maxlen + 1):
        for t in itertools.product(alpha, repeat=n):
            yield "".join(t)


def oracle(run, deep):
    rep = Reporter(run)
    rng = run.rng
    big = deep or not run.quick
    L = 5 if big else 4
    # 1. split/join inverse, replace as split+join, trim laws, isEmpty/norm, in/indexOf, toCharArray/len
    for s in words("ab ", L):
        for x in ["a", "b", " ", "ab", "aa", "ba", "a b"]:
            d = {"s": s, "x": x}
            law(rep, "split_join: s.split(x).join(x) = s", "$.s.split($.x).join($.x) = $.s", d)
            law(rep, "rsplit_join: s.rightSplit(x).join(x) = s", "$.s.rightSplit($.x).join($.x) = $.s", d)
            law(rep, "replace_is_split_join: s.replace(x, y) = s.split(x).join(y)",
                "$.s.replace($.x, 'xy') = $.s.split($.x).join('xy')", d)
            law(rep, "in_iff_indexOf: (x in s) = (s.indexOf(x) >= 0)", "($.x in $.s) = ($.s.indexOf($.x) >= 0)", d)
            law(rep, "indexOf_le_lastIndexOf", "$.s.indexOf($.x) <= $.s.lastIndexOf($.x) and ($.s.indexOf($.x) < 0) = ($.s.lastIndexOf($.x) < 0)", d)
            run.count("O:laws", 5)
        for c in [None, "a", "ab", " ", ""]:
            d = {"s": s, "c": c}
            law(rep, "isEmpty_iff_norm_null: s.isEmpty(true, c) = (s.norm(c) = null)",
                "$.s.isEmpty(true, $.c) = ($.s.norm($.c) = null)", d)
            law(rep, "trim_is_left_then_right", "$.s.trim($.c) = $.s.trimLeft($.c).trimRight($.c)", d)
            law(rep, "trim_idempotent", "$.s.trim($.c).trim($.c) = $.s.trim($.c)", d)
            law(rep, "trim_is_infix: trimmed string occurs in s", "$.s.trim($.c) in $.s", d)
            run.count("O:laws", 4)
        d = {"s": s}
        law(rep, "toCharArray_join: s.toCharArray().join('') = s", "$.s.toCharArray().join('') = $.s", d)
        law(rep, "len_is_char_count", "$.s.len() = $.s.toCharArray().len()", d)
        law(rep, "mul_len: (s * 3).len() = 3 * s.len()", "($.s * 3).len() = 3 * $.s.len() and ($.s * 2) = concat($.s, $.s) and ($.s * 0) = ''", d)
        law(rep, "substring_whole: s.substring(0) = s", "$.s.substring(0) = $.s and $.s.substring(0, $.s.len()) = $.s", d)
        law(rep, "startsWith_substring", "$.s.startsWith($.s.substring(0, 2)) and $.s.endsWith($.s.substring(-1 * min($.s.len(), 2)))", d)
        run.count("O:laws", 5)
    # join then split (single-character separator that occurs in no part)
    for parts in itertools.product(["", "a", "b", "ab", "ba"], repeat=3):
        for k in (1, 2, 3):
            d = {"l": list(parts[:k]), "x": " "}
            law(rep, "join_split: l.join(x).split(x) = l", "$.l.join($.x).split($.x)", d, required=list(parts[:k]))
            run.count("O:laws")
    # 2. the twin on the exhaustive index grid of the quantifier
    for s in words("ab", 4 if big else 3):
        n = len(s)
        for a in range(-n, n + 3):
            for b in [None] + list(range(-2, n + 3)):
                twin_check(run, rep, ("substring", s, a, b))
            for x in ["", "a", "b", "ab", "ba", "aa"]:
                twin_check(run, rep, ("indexOf", s, x, a))
                twin_check(run, rep, ("lastIndexOf", s, x, a))
                for b in range(-2, n + 3):
                    twin_check(run, rep, ("indexOf3", s, x, a, b))
                    twin_check(run, rep, ("lastIndexOf3", s, x, a, b))
    # 3. the twin on random calls of every function
    for _ in range(run.n(1500, 30000) * (3 if deep else 1)):
        twin_check(run, rep, random_call(rng))
    # 4. characters(): each flag alone, and all pairs
    for i in range(12):
        twin_check(run, rep, ("characters", tuple(j == i for j in range(12))))
        for k in range(i + 1, 12):
            twin_check(run, rep, ("characters", tuple(j in (i, k) for j in range(12))))
    # 5. regex twin
    for _ in range(run.n(800, 15000) * (3 if deep else 1)):
        rc = random_regex_call(rng)
        ms = matches_of(rc)
        obs = run_regex(rc)
        run.count("O:regex-twin")
        if tuple(ref_regex(rc, ms)) != tuple(obs):
            judge_regex(rep, rc, ms, obs, source="O")
    # 5b. collection results used as VALUES (equality with the list literal, membership, hashing)
    use_laws(run, rep, rng)
    # 6. the pinned white-space class against the running interpreter
    ws = [c for c in range(sys.maxunicode + 1) if chr(c).isspace()]
    pinned = list(range(9, 14)) + list(range(28, 33)) + [133, 160, 5760] + list(range(8192, 8203)) + [8232, 8233, 8239, 8287, 12288]
    if ws != pinned:
        run.fail("mismatch", "str.isspace of the running interpreter differs from is_space pinned in Model/Strings.v",
                 {"interpreter": ws, "pinned": pinned})
    rep.flush()


def twin_check(run, rep, call):
    obs = run_call(call)
    req = ref(call)
    run.count("O:twin")
    if req is not UNSPEC and tuple(req) != tuple(obs):
        judge_string(rep, call, obs, source="O")


# ---------------------------------------------------------------------------------
# replay
# ---------------------------------------------------------------------------------
def replay(run, data):
    d = data["data"]
    kind = d.get("kind")
    if kind == "law":
        try:
            v = ev(d["expression"], d["data"])
        except Exception as e:
            v = "raises " + type(e).__name__
        log_replay(d["expression"], d["data"], v, d["required"])
        return v == d["required"]
    if kind == "string":
        call = detuple_call(d["call"])
        obs = run_call(call)
        req = ref(call)
        log_replay(d["expression"], d["data"], obs, req)
        if req is not UNSPEC and tuple(req) != tuple(obs):
            return False
        return not run.coq_mismatches(HEADER, "case", "case_ok", ["(%s, %s)" % (call_term(call), res_term(obs))])
    if kind == "regex":
        rc = fix_regex_call(d["call"])
        ms = matches_of(rc)
        obs = run_regex(rc)
        req = ref_regex(rc, ms)
        log_replay(d["expression"], d["data"], obs, req)
        if tuple(req) != tuple(obs):
            return False
        if run.coq_mismatches(HEADER, "rcase", "rcase_ok", ["(%s, %s)" % (rcall_term(rc, ms), rres_term(obs))]):
            return False
        if engine_modelled(rc):
            t = [ecase_term(rc, obs)]
            return not run.coq_mismatches(HEADER, "ecase", "ecase_ok", t) or bool(run.coq_mismatches(HEADER, "ecase", "ecase_fuel_ok", t))
        return True
    if kind == "delegate":
        call = d["call"]
        call = tuple([call[0], call[1], tuple(call[2]) if call[0] == "joinConv" else call[2]] +
                     ([tuple((k, v) for k, v in call[3])] + call[4:] if call[0] == "replaceDictConv" else call[3:]))
        e, dd = conv_expr(call)
        try:
            v = ev_in(override_context() if call[1] else (ev("1", None), _ctx)[1], e, dd)
            obs = ("str", v) if type(v) is str else ("foreign", repr(v))
        except Exception as ex:
            obs = ("foreign", type(ex).__name__)
        req = conv_ref(call)
        log_replay(e, dd, obs, req)
        return tuple(req) == tuple(obs)
    if kind in ("hostkind", "hostkind-regex"):
        kc = dict(HOST_KINDS)[d["host_class"]]
        if kind == "hostkind":
            call = detuple_call(d["call"])
            e, dd = expr_of(call)
            plain = run_call(call)
            cz = lambda v: canon(call[0], v)
        else:
            rc = fix_regex_call(d["call"])
            e, dd = regex_expr(rc)
            plain = run_regex(rc)
            cz = lambda v: canon_regex_value(rc, v)
        try:
            v = host_eval(e, dd, kc, d["delivery"])
            obs = cz(v) if strict_plain(v) else ("foreign", "result contains an instance of a str subclass: %r" % (v,))
        except ValueError:
            obs = ("err", 1)
        except Exception as ex:
            obs = ("foreign", type(ex).__name__)
        print("replay: %s with %s operands delivered as %s: observed %r required %r" % (e, d["host_class"], d["delivery"], obs, plain), flush=True)
        return obs == plain
    if kind == "quota":
        call = detuple_call(d["call"])
        o = d["options"]
        q, l = o["yaql.memoryQuota"], o["yaql.limitIterators"]
        plain, obs = run_call(call), run_call_on(quota_cfg(q, l), call)
        fits = fits_quota(call, plain, q, l)
        print("replay: %s under %r: fits=%s observed %r required %r" % (d["expression"], o, fits, repr(obs)[:200], repr(plain)[:200]), flush=True)
        return obs == plain or (not fits and obs[0] == "foreign" and obs[1] in QUOTA_EXC)
    if kind == "collection-kind":
        fn = d["function"]
        raw, fins, values = kind_census(fn, d["expression"], d["data"])
        print("replay: %s %r: raw kind %s, finalised %r" % (d["expression"], d["data"], raw, fins), flush=True)
        t = "(%s, %s, %s)" % (fn, raw, gal.lst(gal.pair(gal.boolean(b), k) for b, k in fins))
        return not run.coq_mismatches(HEADER + "\nFrom YV Require Import Model.StringKinds.", "kcase", "kcase_ok", [t]) \
            and all(v == values[0] for v in values)
    if kind == "collection-use":
        try:
            v = ev(d["expression"], d["data"])
        except Exception as e:
            v = "raises " + type(e).__name__
        log_replay(d["expression"], d["data"], v, d["required"])
        return v == d["required"] and type(v) is type(d["required"])
    if kind == "case":
        call = tuple(d["call"])
        obs = run_call(call)
        up, lo, xu, xl, _ = case_tables()
        tab = up if call[0] == "upper" else lo
        req = ("str", "".join(chr(tab.get(ord(ch), ord(ch))) for ch in call[1]))
        log_replay(d["expression"], d["data"], obs, req)
        return tuple(req) == tuple(obs)
    if kind == "engine":
        t, ms = mcase_term(d["pattern"], tuple(d["flags"]), d["subject"])
        print("replay: engine vs re on %r flags=%r subject=%r; re finds %r" % (d["pattern"], d["flags"], d["subject"],
                                                                              [m["whole"] for m in ms]), flush=True)
        return not run.coq_mismatches(HEADER, "mcase", "mcase_ok", [t])
    raise ValueError("unknown replay kind %r" % kind)


def log_replay(expr, data, observed, required):
    print("replay: %s  data=%r\n  observed: %r\n  required: %r" % (expr, data, observed, required), flush=True)
